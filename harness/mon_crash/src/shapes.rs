//! Structured pathological inputs shared by C10 and C11: nesting shapes
//! (`head open^d core close^d tail`), flat runs and lexer edge cases.

use vcommon::Rng;

#[derive(Clone, Copy, Debug)]
pub struct Nest {
    pub name: &'static str,
    pub head: &'static str,
    pub open: &'static str,
    pub core: &'static str,
    pub close: &'static str,
    pub tail: &'static str,
}

const MH: &str = "module A {\n    var a: logic<8>;\n    var c: logic;\n    assign a = ";
const MT: &str = ";\n}\n";
const SH: &str = "module A {\n    var a: logic<8>;\n    var c: logic;\n    always_comb {\n";
const ST: &str = "\n    }\n}\n";

/// Every shape is syntactically valid at small depth (checked by the
/// monitors: the frontier search reports shapes that never parse).
pub const NESTS: &[Nest] = &[
    Nest { name: "paren", head: MH, open: "(", core: "1", close: ")", tail: MT },
    Nest { name: "concat", head: MH, open: "{ ", core: "c", close: " }", tail: MT },
    Nest { name: "concat_repeat", head: MH, open: "{ c repeat 1, ", core: "c", close: " }", tail: MT },
    Nest { name: "array_literal", head: MH, open: "'{", core: "1", close: "}", tail: MT },
    Nest { name: "index", head: MH, open: "a[", core: "0", close: "]", tail: MT },
    Nest { name: "call", head: MH, open: "f(", core: "1", close: ")", tail: MT },
    Nest { name: "syscall", head: MH, open: "$clog2(", core: "1", close: ")", tail: MT },
    Nest { name: "unary_paren", head: MH, open: "~(", core: "c", close: ")", tail: MT },
    Nest { name: "binary_right", head: MH, open: "1 + (", core: "1", close: ")", tail: MT },
    Nest { name: "binary_left", head: MH, open: "(", core: "1", close: ") + 1", tail: MT },
    Nest { name: "if_expr_then", head: MH, open: "if c ? (", core: "1", close: ") : 0", tail: MT },
    Nest { name: "if_expr_else", head: MH, open: "if c ? 0 : (", core: "1", close: ")", tail: MT },
    Nest { name: "if_expr_cond", head: MH, open: "if (", core: "c", close: ") ? 1 : 0", tail: MT },
    Nest { name: "case_expr", head: MH, open: "case c { 0: ", core: "1", close: ", default: 0 }", tail: MT },
    Nest { name: "switch_expr", head: MH, open: "switch { c: ", core: "1", close: ", default: 0 }", tail: MT },
    Nest { name: "inside_expr", head: MH, open: "inside (", core: "c", close: ") {0..1}", tail: MT },
    Nest { name: "struct_ctor", head: MH, open: "S'{ x: ", core: "1", close: " }", tail: MT },
    Nest { name: "width", head: "module A {\n    var a: logic<", open: "(", core: "8", close: ")", tail: ">;\n}\n" },
    Nest { name: "cast_paren", head: MH, open: "((", core: "1", close: ") as u8)", tail: MT },
    Nest { name: "type_expr", head: MH, open: "type(", core: "a", close: ")", tail: MT },
    Nest { name: "generic_arg", head: "module A {\n    inst u: ", open: "B::<", core: "1", close: ">", tail: ";\n}\n" },
    // statements
    Nest { name: "stmt_block", head: SH, open: "block { ", core: "a = 1;", close: " }", tail: ST },
    Nest { name: "stmt_if", head: SH, open: "if c { ", core: "a = 1;", close: " }", tail: ST },
    Nest { name: "stmt_if_else", head: SH, open: "if c { a = 0; } else { ", core: "a = 1;", close: " }", tail: ST },
    Nest { name: "stmt_for", head: SH, open: "for i in 0..2 { ", core: "a = 1;", close: " }", tail: ST },
    Nest { name: "stmt_case", head: SH, open: "case c { 0: { ", core: "a = 1;", close: " } default: { a = 0; } }", tail: ST },
    Nest { name: "stmt_case_nobrace", head: SH, open: "case c { default: ", core: "a = 1;", close: " }", tail: ST },
    Nest { name: "stmt_switch", head: SH, open: "switch { c: { ", core: "a = 1;", close: " } default: { a = 0; } }", tail: ST },
    // declarations / generate
    Nest { name: "module_group", head: "module A {\n", open: "{ ", core: "var a: logic;", close: " }", tail: "\n}\n" },
    Nest { name: "gen_block", head: "module A {\n", open: ":g { ", core: "var a: logic;", close: " }", tail: "\n}\n" },
    Nest { name: "gen_if", head: "module A #(param P: u32 = 1) {\n", open: "if P == 1 :g { ", core: "var a: logic;", close: " }", tail: "\n}\n" },
    Nest { name: "gen_if_else", head: "module A #(param P: u32 = 1) {\n", open: "if P == 0 :g { } else { ", core: "var a: logic;", close: " }", tail: "\n}\n" },
    Nest { name: "gen_for", head: "module A {\n", open: "for i in 0..1 :g { ", core: "var a: logic;", close: " }", tail: "\n}\n" },
    Nest { name: "unsafe_block", head: "module A {\n", open: "unsafe (cdc) { ", core: "var a: logic;", close: " }", tail: "\n}\n" },
    Nest { name: "port_group", head: "module A (\n", open: "{ ", core: "a: input logic", close: " }", tail: "\n) {}\n" },
    Nest { name: "param_group", head: "module A #(\n", open: "{ ", core: "param P: u32 = 1", close: " }", tail: "\n) {}\n" },
    Nest { name: "enum_group", head: "package P {\n    enum E {\n", open: "{ ", core: "X", close: " }", tail: "\n    }\n}\n" },
    Nest { name: "struct_group", head: "package P {\n    struct S {\n", open: "{ ", core: "x: logic", close: " }", tail: "\n    }\n}\n" },
    Nest { name: "modport_group", head: "interface I {\n    var a: logic;\n    modport m {\n", open: "{ ", core: "a: input", close: " }", tail: "\n    }\n}\n" },
    Nest { name: "inst_port_group", head: "module A {\n    var a: logic;\n    inst u: B (\n", open: "{ ", core: "a: a", close: " }", tail: "\n    );\n}\n" },
    Nest { name: "package_group", head: "package P {\n", open: "{ ", core: "const X: u32 = 1;", close: " }", tail: "\n}\n" },
    Nest { name: "interface_group", head: "interface I {\n", open: "{ ", core: "var a: logic;", close: " }", tail: "\n}\n" },
    Nest { name: "function_in_gen", head: "module A {\n", open: ":g { function f () -> logic { return 1; } ", core: "var a: logic;", close: " }", tail: "\n}\n" },
    // tight braces: `{{{` is the embed opener, so this shape mostly exercises the lexer
    Nest { name: "brace_tight", head: MH, open: "{", core: "c", close: "}", tail: MT },
];

pub fn nest_by_name(name: &str) -> Option<&'static Nest> {
    NESTS.iter().find(|n| n.name == name)
}

pub fn nest_text(n: &Nest, depth: usize) -> String {
    let mut s = String::with_capacity(n.head.len() + n.tail.len() + n.core.len() + depth * (n.open.len() + n.close.len()));
    s.push_str(n.head);
    for _ in 0..depth {
        s.push_str(n.open);
    }
    s.push_str(n.core);
    for _ in 0..depth {
        s.push_str(n.close);
    }
    s.push_str(n.tail);
    s
}

/// Only the opening half (unterminated): the error path at end of input.
pub fn nest_open_only(n: &Nest, depth: usize) -> String {
    let mut s = String::from(n.head);
    for _ in 0..depth {
        s.push_str(n.open);
    }
    s
}

/// Only closers after the core (unbalanced).
pub fn nest_close_only(n: &Nest, depth: usize) -> String {
    let mut s = String::from(n.head);
    s.push_str(n.core);
    for _ in 0..depth {
        s.push_str(n.close);
    }
    s.push_str(n.tail);
    s
}

/// Expression nesting that mixes the expression shapes at random.
pub fn nest_mixed_expr(rng: &mut Rng, depth: usize) -> String {
    let kinds: Vec<&Nest> = NESTS.iter().filter(|n| n.head == MH && n.name != "brace_tight").collect();
    let mut opens = String::from(MH);
    let mut closes: Vec<&str> = Vec::with_capacity(depth);
    for _ in 0..depth {
        let k = *rng.pick(&kinds);
        opens.push_str(k.open);
        closes.push(k.close);
    }
    opens.push('1');
    for c in closes.iter().rev() {
        opens.push_str(c);
    }
    opens.push_str(MT);
    opens
}

/// Statement nesting that mixes statement shapes at random.
pub fn nest_mixed_stmt(rng: &mut Rng, depth: usize) -> String {
    let kinds: Vec<&Nest> = NESTS.iter().filter(|n| n.head == SH).collect();
    let mut opens = String::from(SH);
    let mut closes: Vec<&str> = Vec::with_capacity(depth);
    for _ in 0..depth {
        let k = *rng.pick(&kinds);
        opens.push_str(k.open);
        closes.push(k.close);
    }
    opens.push_str("a = 1;");
    for c in closes.iter().rev() {
        opens.push_str(c);
    }
    opens.push_str(ST);
    opens
}

#[derive(Clone, Copy, Debug)]
pub struct Flat {
    pub name: &'static str,
    pub head: &'static str,
    pub first: &'static str,
    pub item: &'static str,
    pub tail: &'static str,
}

pub const FLATS: &[Flat] = &[
    Flat { name: "add_chain", head: MH, first: "a", item: " + a", tail: MT },
    Flat { name: "mixed_op_chain", head: MH, first: "a", item: " * a + a << 1 & a", tail: MT },
    Flat { name: "pow_chain", head: MH, first: "a", item: " ** a", tail: MT },
    Flat { name: "logic_chain", head: MH, first: "c", item: " && c || c", tail: MT },
    Flat { name: "compare_chain", head: MH, first: "a", item: " == a", tail: MT },
    Flat { name: "unary_chain", head: MH, first: "", item: "~", tail: "c;\n}\n" },
    Flat { name: "unary_mixed_chain", head: MH, first: "", item: "-!~&|^", tail: "c;\n}\n" },
    Flat { name: "if_expr_chain", head: MH, first: "", item: "if c ? 1 : ", tail: "0;\n}\n" },
    Flat { name: "cast_chain", head: MH, first: "a", item: "", tail: " as u8;\n}\n" },
    Flat { name: "concat_items", head: "module A {\n    var a: logic<8>;\n    var c: logic;\n    assign a = {c", first: "", item: ", c", tail: "};\n}\n" },
    Flat { name: "array_literal_items", head: "module A {\n    var a: logic<8>;\n    assign a = '{1", first: "", item: ", 1", tail: "};\n}\n" },
    Flat { name: "call_args", head: "module A {\n    var a: logic<8>;\n    assign a = f(1", first: "", item: ", 1", tail: ");\n}\n" },
    Flat { name: "case_expr_arms", head: "module A {\n    var a: logic<8>;\n    assign a = case a { 0: 1, ", first: "", item: "1: 2, ", tail: "default: 0 };\n}\n" },
    Flat { name: "case_stmt_arms", head: "module A {\n    var a: logic<8>;\n    always_comb {\n        case a {\n", first: "", item: "            1: a = 2;\n", tail: "            default: a = 0;\n        }\n    }\n}\n" },
    Flat { name: "case_cond_list", head: "module A {\n    var a: logic<8>;\n    always_comb {\n        case a {\n            0", first: "", item: ", 1", tail: ": a = 1;\n            default: a = 0;\n        }\n    }\n}\n" },
    Flat { name: "else_if_chain", head: SH, first: "if c { a = 0; }", item: " else if c { a = 1; }", tail: ST },
    Flat { name: "gen_else_if_chain", head: "module A #(param P: u32 = 1) {\n    if P == 0 :g { }", first: "", item: " else if P == 1 { }", tail: "\n}\n" },
    Flat { name: "statements", head: SH, first: "", item: "a = 1;\n", tail: ST },
    Flat { name: "var_decls", head: "module A {\n", first: "", item: "    var a: logic;\n", tail: "}\n" },
    Flat { name: "assigns", head: "module A {\n    var a: logic;\n", first: "", item: "    assign a = 1;\n", tail: "}\n" },
    Flat { name: "ports", head: "module A (\n    a: input logic", first: "", item: ",\n    a: input logic", tail: "\n) {}\n" },
    Flat { name: "params", head: "module A #(\n    param P: u32 = 1", first: "", item: ",\n    param P: u32 = 1", tail: "\n) {}\n" },
    Flat { name: "enum_members", head: "package P {\n    enum E {\n        X", first: "", item: ", X", tail: "\n    }\n}\n" },
    Flat { name: "struct_members", head: "package P {\n    struct S {\n        x: logic", first: "", item: ", x: logic", tail: "\n    }\n}\n" },
    Flat { name: "modules", head: "", first: "", item: "module A {}\n", tail: "" },
    Flat { name: "packages_with_const", head: "", first: "", item: "package P { const X: u32 = 1; }\n", tail: "" },
    Flat { name: "imports", head: "module A {\n", first: "", item: "    import P::*;\n", tail: "}\n" },
    Flat { name: "attributes", head: "module A {\n", first: "", item: "    #[allow(unused_variable)]\n", tail: "    var a: logic;\n}\n" },
    Flat { name: "attribute_items", head: "module A {\n    #[allow(x", first: "", item: ", x", tail: ")]\n    var a: logic;\n}\n" },
    Flat { name: "member_chain", head: MH, first: "a", item: ".a", tail: MT },
    Flat { name: "scope_chain", head: MH, first: "a", item: "::a", tail: MT },
    Flat { name: "select_chain", head: MH, first: "a", item: "[0]", tail: MT },
    Flat { name: "generic_args", head: "module A {\n    inst u: B::<1", first: "", item: ", 1", tail: ">;\n}\n" },
    Flat { name: "width_items", head: "module A {\n    var a: logic<1", first: "", item: ", 1", tail: ">;\n}\n" },
    Flat { name: "array_dims", head: "module A {\n    var a: logic [1", first: "", item: ", 1", tail: "];\n}\n" },
    Flat { name: "inst_ports", head: "module A {\n    var a: logic;\n    inst u: B (a", first: "", item: ", a", tail: ");\n}\n" },
    Flat { name: "line_comments", head: "", first: "", item: "// c\n", tail: "module A {}\n" },
    Flat { name: "block_comments", head: "", first: "", item: "/* c */ ", tail: "module A {}\n" },
    Flat { name: "doc_comments", head: "", first: "", item: "/// doc\n", tail: "module A {}\n" },
    Flat { name: "newlines", head: "module A {", first: "", item: "\n", tail: "}\n" },
    Flat { name: "semicolons_invalid", head: "module A {\n", first: "", item: ";", tail: "}\n" },
    Flat { name: "identifiers_invalid", head: "module A {\n", first: "", item: "a ", tail: "}\n" },
    Flat { name: "numbers_invalid", head: "", first: "", item: "1 ", tail: "" },
    Flat { name: "embed_blocks", head: "", first: "", item: "embed (inline) sv{{{ wire x; }}}\n", tail: "" },
    Flat { name: "strings_concat", head: "module A {\n    var s: string;\n    assign s = {\"a\"", first: "", item: ", \"b\"", tail: "};\n}\n" },
];

pub fn flat_by_name(name: &str) -> Option<&'static Flat> {
    FLATS.iter().find(|n| n.name == name)
}

/// Number of items so that the run has about `tokens` tokens.
pub fn flat_items_for_tokens(f: &Flat, tokens: usize) -> usize {
    let per = vcommon::lex::significant(f.item, false).len().max(1);
    (tokens / per).max(1)
}

pub fn flat_text(f: &Flat, n: usize) -> String {
    let mut s = String::with_capacity(f.head.len() + f.first.len() + f.tail.len() + n * f.item.len());
    s.push_str(f.head);
    s.push_str(f.first);
    for _ in 0..n {
        s.push_str(f.item);
    }
    s.push_str(f.tail);
    s
}

/// Lexer edge cases: (name, text).  `n` scales the "very long single token" ones.
pub fn lexer_edges(n: usize) -> Vec<(String, String)> {
    let m = "module A {}\n";
    let mut v: Vec<(String, String)> = vec![
        ("empty".into(), "".into()),
        ("only_newline".into(), "\n".into()),
        ("only_space".into(), " ".into()),
        ("unterminated_block_comment".into(), format!("{m}/* never closed")),
        ("unterminated_block_comment_star".into(), format!("{m}/* never closed *")),
        ("only_slash_star".into(), "/*".into()),
        ("ends_in_line_comment_marker".into(), format!("{m}//")),
        ("ends_in_line_comment".into(), format!("{m}// no newline")),
        ("only_slashes".into(), "//".into()),
        ("ends_in_slash".into(), format!("{m}/")),
        ("ends_in_slash_star".into(), format!("{m}/*")),
        ("ends_in_star_slash".into(), format!("{m}*/")),
        ("nested_comment_openers".into(), format!("/* /* /* */ {m}")),
        ("unterminated_string".into(), "module A { var s: string; assign s = \"abc".into()),
        ("unterminated_string_nl".into(), "module A { var s: string; assign s = \"abc\n; }".into()),
        ("string_ends_in_backslash".into(), "module A { var s: string; assign s = \"abc\\".into()),
        ("string_escapes".into(), "module A { var s: string; assign s = \"\\n\\t\\\\\\\"\\u{1F600}\\x\"; }".into()),
        ("lone_quote".into(), "\"".into()),
        ("lone_cr".into(), "module A {\r var a: logic;\r}\r".into()),
        ("only_cr".into(), "\r".into()),
        ("cr_in_line_comment".into(), "// a\r// b\rmodule A {}\r".into()),
        ("crlf".into(), "module A {\r\n var a: logic;\r\n}\r\n".into()),
        ("nul".into(), "module A {\0}".into()),
        ("only_nul".into(), "\0".into()),
        ("nul_in_comment".into(), "// a\0b\nmodule A {}".into()),
        ("nul_in_string".into(), "module A { var s: string; assign s = \"a\0b\"; }".into()),
        ("bom_start".into(), format!("\u{feff}{m}")),
        ("only_bom".into(), "\u{feff}".into()),
        ("bom_middle".into(), "module A {\u{feff}}".into()),
        ("four_byte_ident".into(), "module 𝔸 {}".into()),
        ("four_byte_in_comment".into(), "// 😀😀😀\nmodule A {} /* 𝔸 */".into()),
        ("four_byte_in_string".into(), "module A { var s: string; assign s = \"😀\"; }".into()),
        ("four_byte_at_end".into(), format!("{m}😀")),
        ("four_byte_only".into(), "😀".into()),
        ("combining_marks".into(), "module A\u{301}\u{301} {}".into()),
        ("rtl_override".into(), "module A { /* \u{202e} */ }".into()),
        ("non_bmp_surrogate_edge".into(), "module A {} \u{ffff}\u{10000}\u{10ffff}".into()),
        ("unicode_whitespace".into(), "module\u{a0}A\u{2003}{\u{2028}}\u{85}".into()),
        ("vertical_tab_formfeed".into(), "module\u{b}A\u{c}{}".into()),
        ("lone_apostrophe".into(), "module A { assign a = '; }".into()),
        ("based_no_digits".into(), "module A { assign a = 8'h; }".into()),
        ("based_huge_width".into(), "module A { assign a = 99999999999999999999999999'h0; }".into()),
        ("number_many_underscores".into(), "module A { assign a = 1____________2; }".into()),
        ("exponent_edge".into(), "module A { assign a = 1.0e; assign a = 1.e5; assign a = 1e+; }".into()),
        ("huge_exponent".into(), "module A { const X: f64 = 1.0e999999999; }".into()),
        ("dollar_only".into(), "$".into()),
        ("dollar_ident".into(), "module A { assign a = $; }".into()),
        ("raw_ident".into(), "module r#module { var r#: logic; }".into()),
        ("hash_bracket_only".into(), "#[".into()),
        ("embed_unterminated".into(), "embed (inline) sv{{{ never closed".into()),
        ("embed_braces_inside".into(), "embed (inline) sv{{{ a }} b { } }}}\n".into()),
        ("embed_only_opener".into(), "{{{".into()),
        ("embed_veryl_escape".into(), "embed (inline) sv{{{ \\{ a \\} }}}\n".into()),
        ("triple_close".into(), "}}}".into()),
        ("backslash_only".into(), "\\".into()),
        ("backtick".into(), "`define X 1\nmodule A {}".into()),
        ("control_chars".into(), "\u{1}\u{2}\u{7f}\u{1b}[0m".into()),
        ("colon_colon_lt".into(), "module A { inst u: B::<; }".into()),
        ("lt_lt_lt".into(), "module A { assign a = a <<< <<<= >>> >>>= a; }".into()),
        ("ends_mid_keyword".into(), "modul".into()),
        ("ends_after_module".into(), "module".into()),
        ("ends_open_brace".into(), "module A {".into()),
    ];
    let big = n.max(16);
    v.push(("long_identifier".into(), format!("module {} {{}}\n", "a".repeat(big))));
    v.push(("long_number".into(), format!("module A {{ assign a = {}; }}\n", "9".repeat(big))));
    v.push(("long_based_number".into(), format!("module A {{ assign a = 8'h{}; }}\n", "f".repeat(big))));
    v.push(("long_binary_with_x".into(), format!("module A {{ assign a = 'b{}; }}\n", "x1z0".repeat(big / 4))));
    v.push(("long_string".into(), format!("module A {{ var s: string; assign s = \"{}\"; }}\n", "s".repeat(big))));
    v.push(("long_string_escapes".into(), format!("module A {{ var s: string; assign s = \"{}\"; }}\n", "\\\"".repeat(big / 2))));
    v.push(("long_line_comment".into(), format!("// {}\nmodule A {{}}\n", "c".repeat(big))));
    v.push(("long_block_comment".into(), format!("/* {} */module A {{}}\n", "c ".repeat(big / 2))));
    v.push(("long_block_comment_stars".into(), format!("/*{}*/module A {{}}\n", "*".repeat(big))));
    v.push(("long_block_comment_unterminated".into(), format!("module A {{}}\n/*{}", "* /".repeat(big / 3))));
    v.push(("long_slash_run".into(), format!("module A {{}}\n{}", "/".repeat(big))));
    v.push(("long_whitespace".into(), format!("module A {{{}}}\n", " ".repeat(big))));
    v.push(("long_cr_run".into(), format!("module A {{{}}}\n", "\r".repeat(big))));
    v.push(("long_embed".into(), format!("embed (inline) sv{{{{{{ {} }}}}}}\n", "x ".repeat(big / 2))));
    v.push(("long_embed_braces".into(), format!("embed (inline) sv{{{{{{ {} }}}}}}\n", "{ } }} ".repeat(big / 7))));
    v.push(("long_four_byte_ident".into(), format!("module {} {{}}\n", "𝔸".repeat(big / 4))));
    v.push(("long_four_byte_comment".into(), format!("// {}\nmodule A {{}}\n", "😀".repeat(big / 4))));
    v.push(("long_dollar_ident".into(), format!("module A {{ assign a = ${}(1); }}\n", "d".repeat(big))));
    v.push(("long_quote_run".into(), format!("module A {{ assign a = {}; }}\n", "'".repeat(big))));
    v.push(("long_unterminated_string".into(), format!("module A {{ var s: string; assign s = \"{}", "s".repeat(big))));
    v
}

/// Numbers at and around every boundary that matters for widths, sizes, counts and shifts.
/// The band 10^5..10^8 is left out on purpose: with the default [build] limits (2^20) a
/// value just below the limit legitimately elaborates for minutes, which says nothing about
/// crashes; the limit checks themselves are probed with `EDGE_NUMBERS_TIGHT` under tightened
/// limits (instance_total_limit = 16, evaluate_size_limit = 64, evaluate_array_limit = 4, ...).
pub const EDGE_NUMBERS: &[&str] = &[
    "0", "1", "2", "31", "32", "33", "63", "64", "65", "127", "128", "129", "255", "256", "1023", "1024", "4095", "4096",
    "65535", "65536", "65537", "2147483647", "2147483648", "4294967295", "4294967296", "4294967297",
    "9223372036854775807", "9223372036854775808", "18446744073709551615", "18446744073709551616",
    "340282366920938463463374607431768211456", "-1", "-2147483648", "32'hffffffff", "64'hffffffffffffffff",
    "65'h1ffffffffffffffff", "128'hffffffffffffffffffffffffffffffff", "'1", "'0", "'x", "'z", "1'bx", "8'hxz", "32'd0", "0'd0",
    "1'sb1", "4'sd15", "1e30", "1.5", "0.0", "1_000", "999999999999999999999999999999",
];

pub const EDGE_NUMBERS_TIGHT: &[&str] = &[
    "0", "1", "2", "3", "4", "5", "15", "16", "17", "63", "64", "65", "127", "128", "129", "1000", "4294967296", "-1", "'1", "'x",
    "18446744073709551616",
];

/// A soup of Veryl vocabulary for random token sequences.
pub const VOCAB: &[&str] = &[
    "module", "interface", "package", "function", "struct", "union", "enum", "modport", "import", "inst", "bind", "var", "let",
    "const", "param", "gen", "type", "alias", "proto", "pub", "embed", "include", "unsafe", "always_comb", "always_ff",
    "assign", "connect", "initial", "final", "if", "if_reset", "else", "for", "in", "rev", "step", "case", "switch",
    "default", "return", "break", "block", "inside", "outside", "repeat", "as", "msb", "lsb", "true", "false", "input",
    "output", "inout", "same", "converse", "mixin", "logic", "bit", "tri", "signed", "clock", "clock_posedge", "clock_negedge",
    "reset", "reset_async_high", "reset_async_low", "reset_sync_high", "reset_sync_low", "u8", "u16", "u32", "u64", "i8",
    "i16", "i32", "i64", "f32", "f64", "p8", "p32", "bool", "lbool", "string", "a", "b", "c", "A", "B", "x", "i", "f", "P", "T", "_", "$clog2",
    "$bits", "$sv", "$std", "0", "1", "8", "32'hffff_ffff", "'0", "'1", "'x", "4'b10xz", "1.5e3", "\"s\"", "{", "}", "(", ")", "[", "]",
    "<", ">", "'{", "{{{", "}}}", "#[", "#", ":", "::", "::<", ";", ",", ".", "..", "..=", "=", "+=", "-=", "<<=", ">>>=", "+", "-", "*", "/",
    "%", "**", "&", "|", "^", "~", "~&", "~|", "~^", "^~", "!", "&&", "||", "==", "!=", "==?", "!=?", "<:", "<=", ">:", ">=", "<<", ">>",
    "<<<", ">>>", "+:", "-:", "->", "<-", "<>", "?", "'", "'a", "$", "@", "`", "\\", "//", "/*", "*/", "\n", "\r", "\t", "/// doc\n", "// c\n",
    "/* c */", "\u{feff}", "😀", "é", "\0",
];
