//! C11 — analysis, emission and formatting never crash on parseable input.
//!
//! Events that refute: for an input set the parser accepts, a panic, abort,
//! stack overflow or (confirmed) run-away of `Formatter::format`,
//! `analyze_pass1`, `analyze_post_pass1`, `analyze_pass2`,
//! `analyze_post_pass2` or `Emitter::emit`.  Diagnostics of any kind —
//! including `ExceedLimit` — are the expected outcome and never a finding.
//!
//! Oracle: worker subprocesses (see `sub.rs`); every case runs on a fresh
//! 8 MiB thread (the CLI runs the whole pipeline on its main thread; the
//! language server uses a 16 MiB thread), each stage announced before it runs
//! so that a death is attributed to a stage; RLIMIT_AS and a CPU-time budget
//! per case turn run-away elaboration into a *suspect* that is only decided by
//! three solitary reproductions with a 10x CPU budget.

use crate::shapes::{self, EDGE_NUMBERS, FLATS, NESTS};
use crate::sub::{self, DeathKind, Outcome, PanicRec, Spec, Watchdog};
use crate::templates::{self, TEMPLATES};
use std::collections::BTreeMap;
use std::path::{Path, PathBuf};
use std::sync::{Arc, Mutex};
use vcommon::corpus::CorpusFile;
use vcommon::rng::hash_str;
use vcommon::{Args, Json, Rng, Run, json};
use veryl_analyzer::{Analyzer, Context};
use veryl_emitter::Emitter;
use veryl_formatter::Formatter;
use veryl_metadata::Metadata;
use veryl_parser::Parser;

const CASE_STACK: usize = 8 << 20;
const HELPER_STACK: usize = 64 << 20;
const STAGES: &[&str] = &["format", "pass1", "post_pass1", "pass2", "post_pass2", "emit"];

// ------------------------------------------------------------------------------------------------
// plan
// ------------------------------------------------------------------------------------------------

#[derive(Clone)]
pub struct Plan {
    pub seed: u64,
    pub specs: Vec<Json>,
    pub n_random: u64,
}

pub fn plan(args: &Args, n_corpus: usize) -> Plan {
    let n = args.budget("inputs", 2000, 30_000) as usize;
    let seed = args.seed;
    let thorough = args.thorough();
    let mut specs: Vec<Json> = vec![];
    // A: the corpus as-is
    for k in 0..n_corpus {
        specs.push(json!({"g": "corpus", "k": k}));
    }
    // G: deepest accepted nesting of every shape, and three quarters of it
    for s in NESTS {
        specs.push(json!({"g": "deep", "name": s.name, "pct": 100}));
        if thorough {
            specs.push(json!({"g": "deep", "name": s.name, "pct": 75}));
            specs.push(json!({"g": "deep", "name": s.name, "pct": 40}));
        }
    }
    // H: flat runs (the parser accepts them as lists; later stages may recurse)
    // expression-level runs are cheap per token; declaration-level runs are quadratic in the
    // analyzer (duplicate checks), so they stay shorter
    for f in FLATS {
        if f.name.ends_with("_invalid") {
            continue;
        }
        let expr_level = f.head.contains("assign a = ") || f.head.contains("assign s = ");
        let flat_tokens: &[usize] = match (thorough, expr_level) {
            (false, true) => &[2_000, 16_000],
            (false, false) => &[600, 4_000],
            (true, true) => &[2_000, 16_000, 200_000],
            (true, false) => &[600, 4_000, 20_000],
        };
        for t in flat_tokens {
            specs.push(json!({"g": "flat", "name": f.name, "n": shapes::flat_items_for_tokens(f, *t), "tokens": t}));
        }
    }
    // F: templates, all-small once, then edge numbers
    for (k, _) in TEMPLATES.iter().enumerate() {
        specs.push(json!({"g": "template", "k": k, "mode": 0, "r": 0}));
        specs.push(json!({"g": "template", "k": k, "mode": 2, "r": 1}));
        specs.push(json!({"g": "template", "k": k, "mode": 2, "r": 2, "tight": true}));
    }
    // multi-file: modules referencing each other across files (file-level cycles on an acyclic module graph)
    specs.push(json!({"g": "file_cycle_example"}));
    for r in 0..6 {
        specs.push(json!({"g": "module_graph", "r": r}));
    }
    let fixed = specs.len();
    let n_random = n.saturating_sub(fixed);
    for j in 0..n_random {
        specs.push(json!({"g": "rand", "j": j}));
    }
    if n < fixed {
        // tiny development budgets: a seed-rotated sample of the fixed part
        let mut rng = Rng::for_case(seed, "C11plan", 0);
        rng.shuffle(&mut specs);
        specs.truncate(n.max(1));
    }
    if args.get("inject").is_some() {
        // sensitivity self-test: one input carrying the marker the worker misbehaves on
        specs.insert(0, json!({"g": "sources", "class": "inject", "kind": "inject_marker", "limits": "default",
            "sources": [{"path": "src/top.veryl", "text": format!("module {MARKER} {{\n    var a: logic;\n    assign a = 1;\n}}\n")}]}));
    }
    Plan { seed, specs, n_random: n_random as u64 }
}

// ------------------------------------------------------------------------------------------------
// realisation of a spec into source files
// ------------------------------------------------------------------------------------------------

#[derive(Clone, Debug)]
pub struct Realised {
    pub class: String,
    pub kind: String,
    /// (path, text)
    pub sources: Vec<(String, String)>,
    pub limits: String,
    pub depth: u64,
}

fn parses(text: &str) -> bool {
    let t = text.to_string();
    sub::run_on_thread(HELPER_STACK, move || Parser::parse(&t, &Path::new("trial.veryl")).is_ok()).unwrap_or(false)
}

fn one(class: &str, kind: &str, text: String) -> Realised {
    Realised {
        class: class.into(),
        kind: kind.into(),
        sources: vec![("src/top.veryl".into(), text)],
        limits: "default".into(),
        depth: 0,
    }
}

/// Replace numeric literal tokens by numbers near the limits.
fn number_mutation(text: &str, rng: &mut Rng) -> String {
    let toks = vcommon::lex::lex(text, false);
    let nums: Vec<usize> = toks.iter().enumerate().filter(|(_, t)| t.kind == vcommon::lex::Kind::Number).map(|(i, _)| i).collect();
    if nums.is_empty() {
        return text.to_string();
    }
    let edits = 1 + rng.usize(3);
    let mut chosen = std::collections::BTreeMap::new();
    for _ in 0..edits {
        chosen.insert(*rng.pick(&nums), *rng.pick(EDGE_NUMBERS));
    }
    let mut out = String::with_capacity(text.len() + 64);
    for (i, t) in toks.iter().enumerate() {
        match chosen.get(&i) {
            Some(n) => out.push_str(n),
            None => out.push_str(&t.text),
        }
    }
    out
}

/// Delete / duplicate / move / comment-out whole lines (a half-finished edit that still parses).
fn line_mutation(text: &str, rng: &mut Rng) -> String {
    let mut lines: Vec<String> = text.split_inclusive('\n').map(|s| s.to_string()).collect();
    if lines.len() < 2 {
        return text.to_string();
    }
    let edits = 1 + rng.usize(3);
    for _ in 0..edits {
        if lines.is_empty() {
            break;
        }
        let i = rng.usize(lines.len());
        match rng.below(5) {
            0 => {
                lines.remove(i);
            }
            1 => {
                let l = lines[i].clone();
                lines.insert(i, l);
            }
            2 => {
                let j = rng.usize(lines.len());
                lines.swap(i, j);
            }
            3 => {
                let e = (i + 1 + rng.usize(5)).min(lines.len());
                lines.drain(i..e);
            }
            _ => {
                let l = lines.remove(i);
                let j = rng.usize(lines.len() + 1);
                lines.insert(j, l);
            }
        }
    }
    lines.concat()
}

fn pick_file<'a>(rng: &mut Rng, corpus: &'a [CorpusFile]) -> &'a CorpusFile {
    // prefer small files (mutants of small files are cheaper and more often still parse)
    let mut best = &corpus[rng.usize(corpus.len())];
    for _ in 0..2 {
        let b = &corpus[rng.usize(corpus.len())];
        if b.text.len() < best.text.len() {
            best = b;
        }
    }
    if rng.chance(1, 8) { &corpus[rng.usize(corpus.len())] } else { best }
}

fn random_case(seed: u64, j: u64, corpus: &[CorpusFile]) -> Realised {
    let mut rng = Rng::for_case(seed, "C11", j);
    match j % 20 {
        0..=8 => {
            // token mutation that still parses
            let f = pick_file(&mut rng, corpus);
            for attempt in 0..8 {
                let edits = if attempt < 4 { 1 + rng.usize(2) } else { 1 };
                let t = vcommon::mutate::tokens(&f.text, &mut rng, edits);
                if t != f.text && parses(&t) {
                    return one("token_mutation", &format!("token_mutation:{}", f.kind), t);
                }
            }
            one("token_mutation", "token_mutation:unparseable", String::from("module"))
        }
        9..=11 => {
            let f = pick_file(&mut rng, corpus);
            for _attempt in 0..6 {
                let t = number_mutation(&f.text, &mut rng);
                if t != f.text && parses(&t) {
                    return one("number_mutation", &format!("number_mutation:{}", f.kind), t);
                }
            }
            one("number_mutation", "number_mutation:unparseable", String::from("module"))
        }
        12..=14 => {
            let f = pick_file(&mut rng, corpus);
            for _attempt in 0..10 {
                let t = line_mutation(&f.text, &mut rng);
                if t != f.text && parses(&t) {
                    return one("line_edit", &format!("line_edit:{}", f.kind), t);
                }
            }
            one("line_edit", "line_edit:unparseable", String::from("module"))
        }
        15 | 16 => {
            let k = rng.usize(TEMPLATES.len());
            let mode = 1 + rng.below(2);
            let tight = rng.chance(1, 3);
            let t = templates::instantiate(TEMPLATES[k].1, &mut rng, mode, tight);
            let mut r = one("template", &format!("template:{}", TEMPLATES[k].0), t);
            if tight {
                r.limits = "tight".into();
            }
            r
        }
        17 => {
            // template + token mutation
            let k = rng.usize(TEMPLATES.len());
            let base = templates::instantiate(TEMPLATES[k].1, &mut rng, 1, false);
            for _attempt in 0..8 {
                let edits = 1 + rng.usize(2);
                let t = vcommon::mutate::tokens(&base, &mut rng, edits);
                if parses(&t) {
                    return one("template_mutation", &format!("template_mutation:{}", TEMPLATES[k].0), t);
                }
            }
            one("template_mutation", &format!("template_mutation:{}", TEMPLATES[k].0), base)
        }
        19 if (j / 20) % 2 == 0 => module_graph(&mut rng),
        _ => {
            // multi-file set: 2..4 files, one of them possibly mutated; duplicates on purpose sometimes
            let n = 2 + rng.usize(3);
            let mut sources = vec![];
            for k in 0..n {
                let f = pick_file(&mut rng, corpus);
                let mut t = f.text.clone();
                if rng.chance(1, 3) {
                    let edits = 1 + rng.usize(2);
                    let m = if rng.bool() { vcommon::mutate::tokens(&t, &mut rng, edits) } else { line_mutation(&t, &mut rng) };
                    if parses(&m) {
                        t = m;
                    }
                }
                sources.push((format!("src/f{k}_{}.veryl", f.name), t));
            }
            if rng.chance(1, 4) {
                let d = sources[0].clone();
                sources.push((format!("src/dup_{}", d.0.trim_start_matches("src/")), d.1));
            }
            Realised {
                class: "multi_file".into(),
                kind: "multi_file".into(),
                sources,
                limits: if rng.chance(1, 6) { "tight".into() } else { "default".into() },
                depth: 0,
            }
        }
    }
}

/// An acyclic graph of small modules / packages scattered over 2..4 files, so that files
/// reference each other mutually although no module does.
fn module_graph(rng: &mut Rng) -> Realised {
    let n_files = 2 + rng.usize(3);
    let n_mods = 3 + rng.usize(6);
    let mut files: Vec<String> = vec![String::new(); n_files];
    let with_pkg = rng.chance(1, 3);
    if with_pkg {
        let f = rng.usize(n_files);
        files[f].push_str("package Pk {\n    const W: u32 = 2;\n    type T = logic<W>;\n}\n");
    }
    for m in 0..n_mods {
        let f = rng.usize(n_files);
        let mut body = String::new();
        // edges only to higher-numbered modules: the module graph is acyclic
        let mut k = 0;
        for t in (m + 1)..n_mods {
            if rng.chance(1, 3) {
                body.push_str(&format!("    var w{k}: logic;\n    inst u{k}: M{t} (o: w{k});\n"));
                k += 1;
            }
        }
        if with_pkg && rng.chance(1, 2) {
            body.push_str("    var p: Pk::T;\n    assign p = Pk::W;\n");
        }
        if k == 0 {
            body.push_str("    assign o = 1;\n");
        } else {
            body.push_str("    assign o = w0;\n");
        }
        files[f].push_str(&format!("module M{m} (\n    o: output logic,\n) {{\n{body}}}\n"));
    }
    Realised {
        class: "multi_file_graph".into(),
        kind: "multi_file_graph".into(),
        sources: files.into_iter().enumerate().map(|(k, t)| (format!("src/g{k}.veryl"), t)).collect(),
        limits: "default".into(),
        depth: 0,
    }
}

fn frontier_depth(n: &shapes::Nest) -> usize {
    if !parses(&shapes::nest_text(n, 1)) {
        return 0;
    }
    let (mut lo, mut hi) = (1usize, 4096usize);
    if parses(&shapes::nest_text(n, hi)) {
        return hi;
    }
    while hi - lo > 1 {
        let mid = (lo + hi) / 2;
        if parses(&shapes::nest_text(n, mid)) { lo = mid } else { hi = mid }
    }
    lo
}

pub fn realise(spec: &Json, plan: &Plan, corpus: &[CorpusFile]) -> Realised {
    match spec["g"].as_str().unwrap_or("") {
        "sources" => Realised {
            class: spec["class"].as_str().unwrap_or("replay").into(),
            kind: spec["kind"].as_str().unwrap_or("replay").into(),
            sources: spec["sources"]
                .as_array()
                .map(|a| a.iter().map(|s| (s["path"].as_str().unwrap_or("src/top.veryl").to_string(), s["text"].as_str().unwrap_or("").to_string())).collect())
                .unwrap_or_default(),
            limits: spec["limits"].as_str().unwrap_or("default").into(),
            depth: spec["depth"].as_u64().unwrap_or(0),
        },
        "corpus" => {
            let f = &corpus[spec["k"].as_u64().unwrap() as usize];
            let mut r = one("corpus", &format!("corpus:{}", f.kind), f.text.clone());
            r.sources[0].0 = format!("src/{}.veryl", f.name);
            r
        }
        "deep" => {
            let name = spec["name"].as_str().unwrap();
            let n = shapes::nest_by_name(name).expect("nest");
            let f = frontier_depth(n);
            let d = (f * spec["pct"].as_u64().unwrap() as usize / 100).max(1);
            let mut r = one("deep_nesting", &format!("deep:{name}"), shapes::nest_text(n, d));
            r.depth = d as u64;
            r
        }
        "flat" => {
            let name = spec["name"].as_str().unwrap();
            let f = shapes::flat_by_name(name).expect("flat");
            let mut r = one("flat_run", &format!("flat:{name}"), shapes::flat_text(f, spec["n"].as_u64().unwrap() as usize));
            r.depth = spec["tokens"].as_u64().unwrap_or(0);
            r
        }
        "template" => {
            let k = spec["k"].as_u64().unwrap() as usize;
            let mut rng = Rng::for_case(plan.seed, "C11template", k as u64 * 16 + spec["r"].as_u64().unwrap_or(0));
            let tight = spec["tight"].as_bool().unwrap_or(false);
            let t = templates::instantiate(TEMPLATES[k].1, &mut rng, spec["mode"].as_u64().unwrap_or(0), tight);
            let mut r = one("template", &format!("template:{}", TEMPLATES[k].0), t);
            if tight {
                r.limits = "tight".into();
            }
            r
        }
        "file_cycle_example" => Realised {
            class: "multi_file_graph".into(),
            kind: "multi_file_graph".into(),
            sources: vec![
                ("src/f1.veryl".into(), "module A (\n    o: output logic,\n) {\n    inst c: C (o);\n}\nmodule E (\n    o: output logic,\n) {\n    assign o = 0;\n}\n".into()),
                ("src/f2.veryl".into(), "module C (\n    o: output logic,\n) {\n    assign o = 1;\n}\nmodule D (\n    o: output logic,\n) {\n    inst e: E (o);\n}\n".into()),
            ],
            limits: "default".into(),
            depth: 0,
        },
        "module_graph" => {
            let mut rng = Rng::for_case(plan.seed, "C11graph", spec["r"].as_u64().unwrap_or(0));
            module_graph(&mut rng)
        }
        "rand" => random_case(plan.seed, spec["j"].as_u64().unwrap(), corpus),
        _ => one("unknown", "unknown", String::new()),
    }
}

fn metadata_for(limits: &str) -> Metadata {
    match limits {
        "tight" => vcommon::pipeline::metadata_from_toml(
            "instance_depth_limit = 3\ninstance_total_limit = 16\nfunction_instance_depth_limit = 2\nevaluate_size_limit = 64\nevaluate_array_limit = 4",
            "",
        ),
        _ => vcommon::pipeline::default_metadata(),
    }
}

// ------------------------------------------------------------------------------------------------
// the observation: the staged pipeline on the current thread
// ------------------------------------------------------------------------------------------------

#[derive(Default, Debug)]
pub struct PipeObs {
    pub parsed: bool,
    pub parse_error: String,
    /// stage → "ok" | "panic" | "skipped"
    pub stages: BTreeMap<String, String>,
    pub panics: Vec<(String, PanicRec)>,
    pub diag_codes: BTreeMap<String, u64>,
    pub errors: u64,
    pub warnings: u64,
    pub emitted_bytes: u64,
    pub formatted_bytes: u64,
    pub cpu_us: BTreeMap<String, u64>,
}

const MARKER: &str = "zz_verif_inject_marker";

fn inject(mode: &str, stage: &str, sources: &[(String, String)]) {
    if mode.is_empty() || !sources.iter().any(|s| s.1.contains(MARKER)) {
        return;
    }
    // inject=<what>@<stage>
    let (what, at) = mode.split_once('@').unwrap_or((mode, "pass2"));
    if at != stage {
        return;
    }
    match what {
        "panic" => {
            let v: Vec<u8> = vec![];
            std::hint::black_box(v[std::hint::black_box(sources.len())]);
        }
        "overflow" => {
            #[allow(unconditional_recursion)]
            fn deep(n: u64) -> u64 {
                let a = [n; 64];
                std::hint::black_box(&a);
                deep(n + 1) + a[3]
            }
            std::hint::black_box(deep(0));
        }
        "abort" => std::process::abort(),
        "hang" => loop {
            std::hint::black_box(0);
        },
        "oom" => {
            let mut v: Vec<Vec<u8>> = vec![];
            loop {
                v.push(vec![1u8; 256 << 20]);
            }
        }
        _ => {}
    }
}

pub fn pipeline_obs(i: u64, wd: Option<&Watchdog>, sources: &[(String, String)], metadata: &Metadata, inject_mode: &str) -> PipeObs {
    use miette::Diagnostic;
    let mut o = PipeObs::default();
    let prj = "prj";
    let enter = |stage: &str| {
        if let Some(w) = wd {
            w.stage(i, stage, json!({}));
        }
    };
    let mut parsers = vec![];
    enter("parse");
    for (path, text) in sources {
        match Parser::parse(text, &PathBuf::from(path)) {
            Ok(p) => parsers.push(p),
            Err(e) => {
                o.parse_error = sub::trunc(&e.to_string(), 120);
                return o;
            }
        }
    }
    o.parsed = true;
    let stage = |name: &str, o: &mut PipeObs, f: &mut dyn FnMut(&mut PipeObs)| -> bool {
        enter(name);
        let t0 = sub::thread_cpu_us();
        let r = sub::catch(|| {
            inject(inject_mode, name, sources);
            f(o)
        });
        *o.cpu_us.entry(name.to_string()).or_insert(0) += sub::thread_cpu_us().saturating_sub(t0);
        match r {
            Ok(()) => {
                o.stages.insert(name.to_string(), "ok".into());
                true
            }
            Err(p) => {
                o.stages.insert(name.to_string(), "panic".into());
                o.panics.push((name.to_string(), p));
                false
            }
        }
    };

    // formatting needs only the tree (`veryl fmt` does not analyse)
    stage("format", &mut o, &mut |o| {
        for (k, (_, text)) in sources.iter().enumerate() {
            let mut f = Formatter::new(metadata);
            f.format(&parsers[k].veryl, text);
            o.formatted_bytes += f.as_str().len() as u64;
        }
    });

    let mut errors = vec![];
    let mut analyzers = vec![];
    let mut ok = stage("pass1", &mut o, &mut |_| {
        for p in parsers.iter() {
            let analyzer = Analyzer::new(metadata);
            errors.append(&mut analyzer.analyze_pass1(prj, &p.veryl));
            analyzers.push(analyzer);
        }
    });
    if ok {
        ok = stage("post_pass1", &mut o, &mut |_| {
            errors.append(&mut Analyzer::analyze_post_pass1());
        });
    }
    let mut context = Context::default();
    let mut ir = veryl_analyzer::ir::Ir::default();
    if ok {
        ok = stage("pass2", &mut o, &mut |_| {
            for (k, p) in parsers.iter().enumerate() {
                context.set_project_name(prj);
                errors.append(&mut analyzers[k].analyze_pass2(&p.veryl, &mut context, Some(&mut ir)));
            }
        });
    }
    if ok {
        ok = stage("post_pass2", &mut o, &mut |_| {
            errors.append(&mut Analyzer::analyze_post_pass2(&ir));
        });
    }
    for e in &errors {
        let code = e.code().map(|c| c.to_string()).unwrap_or_else(|| "<none>".into());
        *o.diag_codes.entry(code).or_insert(0) += 1;
        if e.is_error() {
            o.errors += 1;
        } else {
            o.warnings += 1;
        }
    }
    if ok {
        stage("emit", &mut o, &mut |o| {
            for (k, (path, text)) in sources.iter().enumerate() {
                let src = PathBuf::from(path);
                let dst = src.with_extension("sv");
                let map = src.with_extension("sv.map");
                let mut emitter = Emitter::new(metadata, prj, &src, &dst, &map);
                emitter.emit(&parsers[k].veryl, text);
                o.emitted_bytes += emitter.as_str().len() as u64;
            }
        });
    } else {
        o.stages.insert("emit".into(), "skipped".into());
    }
    // dropping the trees / IR is part of the run
    enter("drop");
    drop(ir);
    drop(context);
    drop(analyzers);
    drop(parsers);
    o
}

fn obs_json(o: &PipeObs) -> Json {
    json!({
        "parsed": o.parsed, "parse_error": o.parse_error, "stages": o.stages,
        "panics": o.panics.iter().map(|(s, p)| json!({"stage": s, "panic": p.to_json()})).collect::<Vec<_>>(),
        "diag_codes": o.diag_codes, "errors": o.errors, "warnings": o.warnings,
        "emitted_bytes": o.emitted_bytes, "formatted_bytes": o.formatted_bytes, "cpu_us": o.cpu_us,
    })
}

// ------------------------------------------------------------------------------------------------
// worker
// ------------------------------------------------------------------------------------------------

pub fn worker(args: Args) {
    sub::install_hook(true);
    let as_limit: u64 = args.get("as_limit").and_then(|x| x.parse().ok()).unwrap_or(0);
    if as_limit > 0 {
        sub::limit_address_space(as_limit);
    }
    let budget: f64 = args.get("cpu_budget").and_then(|x| x.parse().ok()).unwrap_or(60.0);
    let inject_mode = args.get("inject").unwrap_or("").to_string();
    let (a, b) = sub::parse_range(args.get("range").expect("range"));
    let file_cases: Option<Vec<Json>> = args.get("file").map(|p| serde_json::from_str(&std::fs::read_to_string(p).expect("case file")).expect("case file json"));
    let corpus = vcommon::corpus::all_veryl();
    let plan = plan(&args, corpus.len());
    let wd = Arc::new(Watchdog::start(budget));

    for i in a..b {
        let spec = match &file_cases {
            Some(v) => v[i as usize].clone(),
            None => plan.specs[i as usize].clone(),
        };
        // generation (may itself parse trial mutants on helper threads) is outside the budget
        let r = realise(&spec, &plan, &corpus);
        let total_len: usize = r.sources.iter().map(|s| s.1.len()).sum();
        let mut h = String::new();
        for s in &r.sources {
            h.push_str(&s.1);
            h.push('\u{1}');
        }
        let hash = hash_str(&h);
        wd.begin(i);
        wd.stage(i, "start", json!({"class": r.class, "kind": r.kind, "len": total_len, "depth": r.depth, "limits": r.limits}));
        let metadata = metadata_for(&r.limits);
        let sources = r.sources.clone();
        let inj = inject_mode.clone();
        let wd2 = wd.clone();
        let res = sub::run_on_thread(CASE_STACK, move || {
            let o = pipeline_obs(i, Some(&wd2), &sources, &metadata, &inj);
            obs_json(&o)
        });
        wd.end();
        let mut line = json!({"t": "done", "i": i, "class": r.class, "kind": r.kind, "files": r.sources.len(), "len": total_len,
            "hash": format!("{hash:016x}"), "depth": r.depth, "limits": r.limits});
        match res {
            Ok(o) => {
                let bad = o["panics"].as_array().is_some_and(|a| !a.is_empty());
                line["obs"] = o;
                if bad {
                    line["sources"] = json!(r.sources.iter().map(|s| json!({"path": s.0, "text": s.1})).collect::<Vec<_>>());
                }
            }
            Err(p) => {
                // a panic outside the per-stage guards (parse / drop)
                line["outer_panic"] = p.to_json();
                line["sources"] = json!(r.sources.iter().map(|s| json!({"path": s.0, "text": s.1})).collect::<Vec<_>>());
            }
        }
        sub::emit(line);
    }
}

// ------------------------------------------------------------------------------------------------
// orchestrator
// ------------------------------------------------------------------------------------------------

#[derive(Clone, Debug)]
struct Suspect {
    i: u64,
    what: &'static str,
    death: Option<DeathKind>,
    signal: Option<i32>,
    stage: Json,
    stage_name: String,
    stderr: String,
}

fn sources_json(r: &[(String, String)]) -> Json {
    json!(r.iter().map(|s| json!({"path": s.0, "text": s.1})).collect::<Vec<_>>())
}

fn sources_from_json(v: &Json) -> Vec<(String, String)> {
    v.as_array()
        .map(|a| a.iter().map(|s| (s["path"].as_str().unwrap_or("").to_string(), s["text"].as_str().unwrap_or("").to_string())).collect())
        .unwrap_or_default()
}

/// Does the staged pipeline panic with `sig` in `stage` on these sources (in-process, fresh thread)?
fn panics_with(sources: &[(String, String)], limits: &str, stage: &str, sig: &str) -> bool {
    let s = sources.to_vec();
    let l = limits.to_string();
    let r = sub::run_on_thread(CASE_STACK, move || {
        let md = metadata_for(&l);
        let o = pipeline_obs(0, None, &s, &md, "");
        o.panics.iter().map(|(st, p)| (st.clone(), p.signature())).collect::<Vec<_>>()
    });
    match r {
        Ok(v) => v.iter().any(|(st, s)| st == stage && s == sig),
        Err(_) => false,
    }
}

/// Minimise a panicking source set: drop files, then lines, then tokens of each file.
fn minimise(sources: &[(String, String)], limits: &str, stage: &str, sig: &str) -> Vec<(String, String)> {
    let mut cur = sources.to_vec();
    if !panics_with(&cur, limits, stage, sig) {
        return cur;
    }
    if cur.len() > 1 {
        cur = sub::ddmin(cur, 40, &mut |c| panics_with(c, limits, stage, sig));
    }
    for k in 0..cur.len() {
        let lines: Vec<String> = cur[k].1.split_inclusive('\n').map(|s| s.to_string()).collect();
        let base = cur.clone();
        let lines = sub::ddmin(lines, 300, &mut |c| {
            let mut t = base.clone();
            t[k].1 = c.concat();
            panics_with(&t, limits, stage, sig)
        });
        cur[k].1 = lines.concat();
        let toks: Vec<String> = vcommon::lex::lex(&cur[k].1, false).into_iter().map(|t| t.text).collect();
        if toks.len() <= 4000 {
            let base = cur.clone();
            let toks = sub::ddmin(toks, 700, &mut |c| {
                let mut t = base.clone();
                t[k].1 = c.concat();
                panics_with(&t, limits, stage, sig)
            });
            cur[k].1 = toks.concat();
        }
    }
    cur
}

/// Does a solitary file-mode worker die by stack overflow in `stage` on these sources?
fn overflows(spec: &Spec, sources: &[(String, String)], limits: &str, stage: &str) -> bool {
    let cspec = json!({"g": "sources", "sources": sources_json(sources), "limits": limits, "class": "min", "kind": "min"});
    let file = sub::write_case_file("min", &json!([cspec]));
    let mut s2 = spec.clone();
    s2.sets.retain(|(k, _)| k != "file");
    s2.sets.push(("file".into(), file.display().to_string()));
    let mut hit = false;
    sub::run_range(&s2, 0, 1, &mut |_, o| {
        if let Outcome::Died { kind: DeathKind::StackOverflow, stage: st, .. } = o
            && st["stage"].as_str().unwrap_or("?") == stage
        {
            hit = true;
        }
    });
    let _ = std::fs::remove_file(file);
    hit
}

/// Minimise a stack-overflowing case with subprocess probes: smallest count for
/// flat runs / nestings (binary search), bounded ddmin over lines and tokens otherwise.
fn minimise_death(spec: &Spec, cspec: &Json, r: &Realised, stage: &str) -> (Vec<(String, String)>, String) {
    let limits = r.limits.as_str();
    let path = r.sources[0].0.clone();
    let g = cspec["g"].as_str().unwrap_or("");
    if g == "flat" || g == "deep" {
        let name = cspec["name"].as_str().unwrap_or("");
        let make = |n: usize| -> String {
            if g == "flat" { shapes::flat_text(shapes::flat_by_name(name).unwrap(), n) } else { shapes::nest_text(shapes::nest_by_name(name).unwrap(), n) }
        };
        let hi0 = if g == "flat" { cspec["n"].as_u64().unwrap_or(1) as usize } else { r.depth as usize };
        let (mut lo, mut hi) = (0usize, hi0.max(1));
        while hi - lo > 1 {
            let mid = (lo + hi) / 2;
            if overflows(spec, &[(path.clone(), make(mid))], limits, stage) { hi = mid } else { lo = mid }
        }
        return (vec![(path, make(hi))], format!("overflows with {hi} repetitions of the {name} unit, not with {lo}"));
    }
    let mut cur = r.sources.clone();
    if cur.len() > 1 {
        cur = sub::ddmin(cur, 12, &mut |c| overflows(spec, c, limits, stage));
    }
    for k in 0..cur.len() {
        let lines: Vec<String> = cur[k].1.split_inclusive('\n').map(|s| s.to_string()).collect();
        let base = cur.clone();
        let lines = sub::ddmin(lines, 60, &mut |c| {
            let mut t = base.clone();
            t[k].1 = c.concat();
            overflows(spec, &t, limits, stage)
        });
        cur[k].1 = lines.concat();
        let toks: Vec<String> = vcommon::lex::lex(&cur[k].1, false).into_iter().map(|t| t.text).collect();
        if toks.len() <= 600 {
            let base = cur.clone();
            let toks = sub::ddmin(toks, 80, &mut |c| {
                let mut t = base.clone();
                t[k].1 = c.concat();
                overflows(spec, &t, limits, stage)
            });
            cur[k].1 = toks.concat();
        }
    }
    (cur, "delta-debugged over files, lines and tokens with subprocess probes".into())
}

pub fn main(args: Args) {
    sub::install_hook(true);
    let run = Arc::new(Run::new(
        args.clone(),
        "exploration",
        "inputs = every repository .veryl file (testcases, all error cases, std, native tests) as-is; token / numeric-literal / whole-line \
         mutations of them that the real parser still accepts; hand-written templates for recursive modules, functions, types, generics and \
         for widths, array sizes, loop, replication and shift counts at and beyond the [build] limits (default and tightened limits); the \
         deepest nesting of every syntactic shape the parser accepts; flat runs of 2*10^3..10^5 tokens; multi-file sets. Every parseable case \
         runs format, pass1, post_pass1, pass2, post_pass2 and emit of the real crates on an 8 MiB thread in a worker subprocess. A case is \
         non-trivial when the parser accepted it and pass1 was reached; distinct = distinct source sets",
    ));
    run.assume("the CLI runs analysis and emission on its 8 MiB main thread; the language server runs the same passes on a 16 MiB thread: cases run on 8 MiB");
    run.assume("Emitter::emit is run whenever the analyzer passes returned (with or without error diagnostics); `veryl build` itself stops before emission when errors exist, which the violation text states");
    run.assume("a CPU-time overrun or an allocation failure under RLIMIT_AS is a suspect: violation only after 3 solitary reproductions with 600 s CPU each (10x the nominal 60 s case budget; 20 s CPU in the quick tier, 30 s in the thorough tier make a suspect; only the thorough tier decides suspects) and 2x the address space, otherwise inconclusive for that case");

    let mut args = args;
    if let Some(j) = args.get("jobs").and_then(|x| x.parse::<usize>().ok()) {
        args.jobs = j.max(1);
    }
    let corpus = Arc::new(vcommon::corpus::all_veryl());
    let plan = Arc::new(plan(&args, corpus.len()));
    let exe = std::env::current_exe().expect("current_exe");
    let cpu_budget: f64 = args.get("cpu_budget").and_then(|x| x.parse().ok()).unwrap_or(if args.thorough() { 30.0 } else { 20.0 });
    // a suspect is decided with 10x the nominal 60 s per-case budget, the same in both tiers
    let decide_budget: f64 = args.get("decide_budget").and_then(|x| x.parse().ok()).unwrap_or(600.0);
    let as_limit: u64 = args.get("as_limit_gib").and_then(|x| x.parse::<u64>().ok()).unwrap_or(4) << 30;
    let mut sets: Vec<(String, String)> = vec![];
    for k in ["inputs", "inject"] {
        if let Some(v) = args.get(k) {
            sets.push((k.to_string(), v.to_string()));
        }
    }
    let spec = Spec {
        exe,
        worker_prop: "C11WORKER".into(),
        seed: args.seed,
        tier: args.tier.clone(),
        sets,
        cpu_budget_s: cpu_budget,
        wall_kill_s: (cpu_budget * 8.0).max(240.0),
        as_limit,
    };

    // ---- replay ----
    if let Some(rp) = &args.replay {
        let v: Json = serde_json::from_str(&std::fs::read_to_string(rp).expect("replay file")).expect("replay json");
        let case = &v["case"];
        let src = if case.get("minimal_sources").is_some() && args.get("full") != Some("1") { &case["minimal_sources"] } else { &case["sources"] };
        let cspec = json!({"g": "sources", "sources": src, "limits": case["limits"], "class": "replay", "kind": case["kind"]});
        let file = sub::write_case_file("replay", &json!([cspec]));
        let mut rspec = spec.clone();
        rspec.sets.push(("file".into(), file.display().to_string()));
        let run2 = run.clone();
        let case2 = case.clone();
        let sigv = v["signature"].as_str().unwrap_or("").to_string();
        sub::run_range(&rspec, 0, 1, &mut |_, o| match o {
            Outcome::Done(d) => {
                run2.eval();
                for p in d["obs"]["panics"].as_array().cloned().unwrap_or_default() {
                    if let Some(pr) = PanicRec::from_json(&p["panic"]) {
                        run2.violation(&pr.signature(), &format!("{} panicked at {}: {}", p["stage"].as_str().unwrap_or(""), pr.location, pr.message), case2.clone());
                    }
                }
            }
            Outcome::Died { kind, signal, stage, stderr, .. } => {
                run2.eval();
                run2.violation(&sigv, &format!("worker died ({kind:?}, signal {signal:?}) in stage {}: {stderr}", stage["stage"].as_str().unwrap_or("?")), case2.clone());
            }
            Outcome::CpuTimeout { stage, cpu_s, .. } => run2.inconclusive(format!("replay: CPU budget exceeded in {stage} after {cpu_s:.0}s")),
            Outcome::WallTimeout { .. } => run2.inconclusive("replay: wall watchdog".into()),
            Outcome::Res(_) => {}
        });
        sub::cleanup_scratch();
        run.finish(&[]);
    }

    // ---- main phase ----
    let run_start = std::time::Instant::now();
    let total = plan.specs.len() as u64;
    let suspects: Arc<Mutex<Vec<Suspect>>> = Arc::new(Mutex::new(vec![]));
    // signature → (case, stage, panic, done line)
    let panics: Arc<Mutex<BTreeMap<String, (u64, String, PanicRec, Json, u64)>>> = Arc::new(Mutex::new(BTreeMap::new()));
    let diag_hist: Arc<Mutex<BTreeMap<String, u64>>> = Arc::new(Mutex::new(BTreeMap::new()));
    let maxima: Arc<Mutex<(u64, u64, f64)>> = Arc::new(Mutex::new((0, 0, 0.0)));
    let mut ranges = sub::split_ranges(0, total, 25);
    ranges.reverse();
    let (run2, sus2, pan2, dh2, mx2) = (run.clone(), suspects.clone(), panics.clone(), diag_hist.clone(), maxima.clone());
    let stats = sub::run_parallel(&spec, ranges, args.jobs, move |i, o| match o {
        Outcome::Res(_) => {}
        Outcome::Done(d) => {
            run2.eval();
            let class = d["class"].as_str().unwrap_or("");
            let kind = d["kind"].as_str().unwrap_or("");
            run2.count(&format!("class:{class}"), 1);
            run2.seen("kinds", kind);
            if kind.ends_with(":unparseable") {
                run2.count("mutants_never_parseable", 1);
                return;
            }
            if let Some(p) = d.get("outer_panic").and_then(PanicRec::from_json) {
                run2.count("panics_outside_stage_guards", 1);
                let mut e = pan2.lock().unwrap();
                let ent = e.entry(p.signature()).or_insert((i, "parse_or_drop".into(), p, d.clone(), 0));
                ent.4 += 1;
                return;
            }
            let obs = &d["obs"];
            if obs["parsed"] != true {
                run2.count("rejected_by_parser", 1);
                run2.count(&format!("rejected_by_parser:{class}"), 1);
                return;
            }
            run2.count("parsed", 1);
            run2.count(&format!("parsed:{class}"), 1);
            if d["limits"] == "tight" {
                run2.count("cases_with_tight_limits", 1);
            }
            for st in STAGES {
                match obs["stages"][*st].as_str() {
                    Some("ok") => run2.count(&format!("reached_and_finished:{st}"), 1),
                    Some("panic") => run2.count(&format!("panicked:{st}"), 1),
                    _ => {}
                }
            }
            if obs["stages"]["pass1"].is_string() {
                run2.nontrivial(hash_str(d["hash"].as_str().unwrap_or("")));
            }
            if obs["errors"].as_u64().unwrap_or(0) > 0 {
                run2.count("cases_with_error_diagnostics", 1);
            } else if obs["stages"]["emit"] == "ok" {
                run2.count("cases_clean_and_emitted", 1);
            }
            {
                let mut h = dh2.lock().unwrap();
                for (c, n) in obs["diag_codes"].as_object().cloned().unwrap_or_default() {
                    *h.entry(c.clone()).or_insert(0) += n.as_u64().unwrap_or(0);
                    if c.contains("exceed_limit") {
                        run2.count("exceed_limit_diagnostics", n.as_i64().unwrap_or(0));
                    }
                }
            }
            {
                let mut m = mx2.lock().unwrap();
                m.0 = m.0.max(d["len"].as_u64().unwrap_or(0));
                if class == "deep_nesting" {
                    m.1 = m.1.max(d["depth"].as_u64().unwrap_or(0));
                }
                let cpu: u64 = obs["cpu_us"].as_object().map(|o| o.values().filter_map(|x| x.as_u64()).sum()).unwrap_or(0);
                m.2 = m.2.max(cpu as f64 / 1e6);
            }
            for p in obs["panics"].as_array().cloned().unwrap_or_default() {
                if let Some(pr) = PanicRec::from_json(&p["panic"]) {
                    run2.count("panics_observed", 1);
                    let mut e = pan2.lock().unwrap();
                    // emitter panics after error diagnostics are kept apart: they must not hide a
                    // witness of the same site on an input the analyzer accepted
                    let after_errors = p["stage"] == "emit" && obs["errors"].as_u64().unwrap_or(0) > 0;
                    let key = if after_errors { format!("{}|after_errors", pr.signature()) } else { pr.signature() };
                    let len = d["len"].as_u64().unwrap_or(u64::MAX);
                    match e.get_mut(&key) {
                        Some(ent) => {
                            ent.4 += 1;
                            // keep the smallest witness
                            if len < ent.3["len"].as_u64().unwrap_or(u64::MAX) {
                                *ent = (i, p["stage"].as_str().unwrap_or("").to_string(), pr, d.clone(), ent.4);
                            }
                        }
                        None => {
                            e.insert(key, (i, p["stage"].as_str().unwrap_or("").to_string(), pr, d.clone(), 1));
                        }
                    }
                }
            }
            if i % 211 == 5 && obs["errors"].as_u64().unwrap_or(0) > 0 {
                run2.sample(json!({"case": i, "kind": kind, "bytes": d["len"], "files": d["files"], "stages": obs["stages"], "diagnostics": obs["diag_codes"]}));
            }
        }
        Outcome::Died { kind, signal, stage, stderr, .. } => {
            run2.eval();
            let sn = stage["stage"].as_str().unwrap_or("?").to_string();
            sus2.lock().unwrap().push(Suspect { i, what: "died", death: Some(kind), signal, stage, stage_name: sn, stderr });
        }
        Outcome::CpuTimeout { stage, cpu_s, .. } => {
            run2.eval();
            sus2.lock().unwrap().push(Suspect { i, what: "cpu_timeout", death: None, signal: None, stage: json!({"stage": stage, "cpu_s": cpu_s}), stage_name: stage, stderr: String::new() });
        }
        Outcome::WallTimeout { stage } => {
            run2.eval();
            let sn = stage["stage"].as_str().unwrap_or("?").to_string();
            sus2.lock().unwrap().push(Suspect { i, what: "wall_timeout", death: None, signal: None, stage, stage_name: sn, stderr: String::new() });
        }
    });
    run.count("workers_spawned", stats.workers_spawned as i64);
    run.count("workers_died", stats.workers_died as i64);
    for e in &stats.harness_errors {
        run.inconclusive(format!("harness: {e}"));
    }

    let t_main = run_start.elapsed().as_secs_f64();
    let known = sub::known_signatures(&args.known, &args.prop);

    // ---- panics: one violation per crash site ----
    let minimize = args.get("minimize") != Some("0");
    let emit_after_errors_is_violation = args.get("emit_after_errors") == Some("violation");
    let mut sites: Vec<Json> = vec![];
    let mut emitter_sites_after_errors: Vec<Json> = vec![];
    for (key, (i, stage, p, d, count)) in panics.lock().unwrap().iter() {
        let sig = &key.trim_end_matches("|after_errors").to_string();
        let sources = sources_from_json(&d["sources"]);
        let limits = d["limits"].as_str().unwrap_or("default");
        let had_errors = d["obs"]["errors"].as_u64().unwrap_or(0) > 0;
        if stage == "emit" && had_errors && !emit_after_errors_is_violation {
            // `veryl build`, `check`, `test` stop at the first stage that reports an error and the
            // language server never emits, so no user-facing path reaches the emitter with such a
            // tree.  Reported in the evidence, not as a violation.
            run.count("emitter_panics_after_error_diagnostics", *count as i64);
            let head = sources.iter().map(|s| s.1.as_str()).collect::<Vec<_>>().join("\n");
            emitter_sites_after_errors.push(json!({"site": sig, "message": sub::trunc(&p.message, 120), "in": p.frames.first(), "occurrences": count,
                "diagnostics": d["obs"]["diag_codes"], "witness_kind": d["kind"], "witness_head": sub::trunc(&head, 300)}));
            continue;
        }
        let mut case = json!({"case_index": i, "kind": d["kind"], "limits": limits, "stage": stage, "sources": sources_json(&sources), "panic": p.to_json(),
            "diagnostics_before_panic": d["obs"]["diag_codes"], "occurrences_in_this_run": count});
        let mut minimal = sources.clone();
        if minimize && !known.contains(sig) && !sources.is_empty() && stage != "parse_or_drop" {
            minimal = minimise(&sources, limits, stage, sig);
            case["minimal_sources"] = sources_json(&minimal);
        }
        let min_text = minimal.iter().map(|s| s.1.as_str()).collect::<Vec<_>>().join("\n// ---- next file ----\n");
        sites.push(json!({"signature": sig, "stage": stage, "message": sub::trunc(&p.message, 200), "frames": p.frames, "occurrences": count, "minimal_bytes": min_text.len()}));
        let reach = if stage == "emit" && had_errors {
            " [the analyzer had reported errors for this input; `veryl build` stops before emission then, so this site is reached through the library API only]"
        } else if had_errors {
            " [error diagnostics had been reported earlier; the language server and `veryl dump` still run this stage]"
        } else {
            ""
        };
        run.violation(
            sig,
            &format!(
                "{stage} panicked at {}: {}{reach}; {} occurrence(s); in {}; minimal input ({} bytes): {}",
                sub::rel_location(&p.location),
                sub::trunc(&p.message, 200),
                count,
                p.frames.first().map(|s| s.as_str()).unwrap_or("?"),
                min_text.len(),
                sub::trunc(&min_text.replace('\n', "\\n"), 300)
            ),
            case,
        );
    }
    run.set_extra("crash_sites", json!(sites));
    run.set_extra("emitter_panic_sites_after_error_diagnostics_not_judged", json!(emitter_sites_after_errors));
    let t_panics = run_start.elapsed().as_secs_f64();

    // ---- suspects: deaths and run-aways, decided by solitary reproduction ----
    let mut sus = suspects.lock().unwrap().clone();
    sus.sort_by_key(|s| s.i);
    run.count("suspects_total", sus.len() as i64);
    let mut culprits: Vec<Json> = vec![];
    // provisional signature → representative (the smallest input)
    let mut groups: BTreeMap<String, (Suspect, Realised, u64)> = BTreeMap::new();
    for s in &sus {
        let r = realise(&plan.specs[s.i as usize], &plan, &corpus);
        let bytes: usize = r.sources.iter().map(|x| x.1.len()).sum();
        culprits.push(json!({"case": s.i, "event": s.what, "death": format!("{:?}", s.death), "signal": s.signal, "stage": s.stage_name, "kind": r.kind, "bytes": bytes}));
        let psig = match (s.what, &s.death) {
            ("died", Some(DeathKind::StackOverflow)) => format!("stack_overflow:{}:{}", s.stage_name, r.kind),
            ("died", Some(DeathKind::AllocFailure)) => format!("runaway_memory:{}:{}", s.stage_name, r.kind),
            ("died", _) => format!("abort:signal{}:{}:{}", s.signal.unwrap_or(0), s.stage_name, r.kind),
            _ => format!("runaway_time:{}:{}", s.stage_name, r.kind),
        };
        match groups.get_mut(&psig) {
            Some(g) => {
                g.2 += 1;
                let gb: usize = g.1.sources.iter().map(|x| x.1.len()).sum();
                if bytes < gb {
                    g.0 = s.clone();
                    g.1 = r;
                }
            }
            None => {
                groups.insert(psig, (s.clone(), r, 1));
            }
        }
    }
    // deaths are cheap to confirm; resource suspects cost up to 3 x decide_budget CPU each
    let max_deaths = args.budget("max_confirm_deaths", 24, 60) as usize;
    let max_resource = args.budget("max_confirm_resource", 0, 4) as usize;
    let mut chosen: Vec<(String, Suspect, Realised, u64, bool)> = vec![];
    let class_rank = |r: &Realised| -> (u8, usize) {
        let bytes: usize = r.sources.iter().map(|x| x.1.len()).sum();
        (match r.class.as_str() { "deep_nesting" => 0, "flat_run" => 1, "corpus" => 2, _ => 3 }, bytes)
    };
    for pass in 0..2 {
        let resource_pass = pass == 1;
        let mut list: Vec<(&String, &(Suspect, Realised, u64))> = groups
            .iter()
            .filter(|(_, (s, _, _))| (s.what != "died" || matches!(s.death, Some(DeathKind::AllocFailure))) == resource_pass)
            .collect();
        list.sort_by_key(|(_, (_, r, _))| class_rank(r));
        let mut taken = 0usize;
        for (psig, (s, r, n)) in list {
            if known.contains(psig) {
                // a recorded finding: report it without paying for the confirmation again
                run.violation(psig, "known finding", json!({}));
                continue;
            }
            let cap = if resource_pass { max_resource } else { max_deaths };
            if taken >= cap {
                run.count(if resource_pass { "resource_suspects_left_undecided" } else { "deaths_beyond_confirmation_cap" }, *n as i64);
                run.note(format!("{psig}: not re-run alone (cap {cap} per run); {n} case(s), smallest is case {}", s.i));
                continue;
            }
            taken += 1;
            chosen.push((psig.clone(), s.clone(), r.clone(), *n, resource_pass));
        }
    }
    let items: Vec<(Spec, u64)> = chosen
        .iter()
        .map(|(_, s, _, _, resource)| {
            let mut c1 = spec.clone();
            if *resource {
                c1.cpu_budget_s = decide_budget;
                c1.wall_kill_s = c1.cpu_budget_s * 6.0;
                c1.as_limit = spec.as_limit * 2;
            }
            (c1, s.i)
        })
        .collect();
    // deaths run side by side; resource suspects may each need several GiB: six processes at a time
    let n_deaths = chosen.iter().filter(|c| !c.4).count();
    let mut outs = sub::confirm_parallel(&items[..n_deaths], 3, args.jobs);
    outs.extend(sub::confirm_parallel(&items[n_deaths..], 3, 6));
    let t_confirm = run_start.elapsed().as_secs_f64();
    let mut unresolved = 0u64;
    let mut confirmed: Vec<usize> = vec![];
    for (k, (_psig, s, r, n, resource)) in chosen.iter().enumerate() {
        run.count("suspects_rerun_alone", 1);
        let same = outs[k]
            .iter()
            .filter(|o| match (s.what, &s.death, o) {
                ("died", Some(kd), Outcome::Died { kind, stage, .. }) if !*resource => kind == kd && stage["stage"].as_str().unwrap_or("?") == s.stage_name,
                (_, _, Outcome::Died { kind: DeathKind::AllocFailure, .. } | Outcome::CpuTimeout { .. } | Outcome::WallTimeout { .. }) if *resource => true,
                _ => false,
            })
            .count();
        if same < 3 {
            unresolved += n;
            run.count(if *resource { "resource_suspects_not_confirmed" } else { "deaths_not_reproduced" }, 1);
            run.note(format!(
                "case {} ({}): {} in stage {} reproduced {same}/3 alone with {} — inconclusive for this case ({n} case(s) in this group)",
                s.i, r.kind, s.what, s.stage_name, if *resource { format!("{decide_budget}s CPU") } else { "the same budget".into() }
            ));
            if !*resource {
                run.inconclusive(format!("case {} ({}): worker death in {} reproduced only {same}/3 times alone", s.i, r.kind, s.stage_name));
            }
            continue;
        }
        confirmed.push(k);
    }
    // name the recursion of every confirmed stack overflow (gdb) and minimise it — in parallel
    struct DeathReport {
        sig: String,
        cycle: Vec<String>,
        minimal: Option<Vec<(String, String)>>,
        note: String,
    }
    let reports: Mutex<BTreeMap<usize, DeathReport>> = Mutex::new(BTreeMap::new());
    std::thread::scope(|sc| {
        for &k in &confirmed {
            let (psig, s, r, _, resource) = &chosen[k];
            if *resource || !matches!(s.death, Some(DeathKind::StackOverflow)) {
                continue;
            }
            let (spec, plan, known, reports, items) = (&spec, &plan, &known, &reports, &items);
            sc.spawn(move || {
                let mut rep = DeathReport { sig: psig.clone(), cycle: vec![], minimal: None, note: String::new() };
                // site at the original size: enough when it is a recorded finding
                let first = sub::overflow_site(&items[k].0, s.i);
                if let Some((site, cyc)) = &first {
                    rep.sig = format!("stack_overflow:{}:{}", s.stage_name, site);
                    rep.cycle = cyc.clone();
                }
                if minimize && !known.contains(&rep.sig) {
                    let (min_sources, note) = minimise_death(spec, &plan.specs[s.i as usize], r, &s.stage_name);
                    // the canonical site is the recursion that overflows first, i.e. at the smallest size
                    let cspec = json!({"g": "sources", "sources": sources_json(&min_sources), "limits": r.limits, "class": "min", "kind": "min"});
                    let file = sub::write_case_file("site", &json!([cspec]));
                    let mut s2 = spec.clone();
                    s2.sets.push(("file".into(), file.display().to_string()));
                    if let Some((site, cyc)) = sub::overflow_site(&s2, 0) {
                        rep.sig = format!("stack_overflow:{}:{}", s.stage_name, site);
                        rep.cycle = cyc;
                    }
                    rep.minimal = Some(min_sources);
                    rep.note = note;
                }
                if first.is_none() && rep.cycle.is_empty() {
                    rep.note.push_str(" (gdb gave no backtrace: signature falls back to the input kind)");
                }
                reports.lock().unwrap().insert(k, rep);
            });
        }
    });
    let reports = reports.into_inner().unwrap();
    // several input kinds can overflow in the same recursion: one violation per site, kinds listed
    let mut kinds_by_sig: BTreeMap<String, Vec<String>> = BTreeMap::new();
    for &k in &confirmed {
        let sig = reports.get(&k).map(|r| r.sig.clone()).unwrap_or_else(|| chosen[k].0.clone());
        kinds_by_sig.entry(sig).or_default().push(chosen[k].2.kind.clone());
    }
    let mut reported: std::collections::BTreeSet<String> = Default::default();
    for &k in &confirmed {
        let (psig, s, r, n, resource) = &chosen[k];
        let c1 = &items[k].0;
        let rep = reports.get(&k);
        let sig = rep.map(|r| r.sig.clone()).unwrap_or_else(|| psig.clone());
        if !reported.insert(sig.clone()) {
            continue;
        }
        let cycle = rep.map(|r| r.cycle.clone()).unwrap_or_default();
        let mut case = json!({"case_index": s.i, "kind": r.kind, "limits": r.limits, "stage": s.stage_name, "sources": sources_json(&r.sources), "stderr": s.stderr,
            "event": s.what, "reproduced_alone": "3/3", "cpu_budget_s": c1.cpu_budget_s, "as_limit": c1.as_limit, "recursion": cycle, "cases_in_group": n,
            "input_kinds_with_this_signature": kinds_by_sig.get(&sig)});
        let mut min_note = String::new();
        if let Some(rp) = rep
            && let Some(m) = &rp.minimal
        {
            case["minimal_sources"] = sources_json(m);
            case["minimal_note"] = json!(rp.note);
            min_note = rp.note.clone();
        }
        let head = case.get("minimal_sources").map(sources_from_json).unwrap_or_else(|| r.sources.clone()).iter().map(|x| x.1.clone()).collect::<Vec<_>>().join("\n");
        let what = if *resource {
            format!(
                "stage {} does not finish within the configured elaboration limits ({}): {} reproduced 3/3 alone with {}s CPU and {} GiB address space; input kind {} ({} bytes): {}",
                s.stage_name, r.limits, s.what, c1.cpu_budget_s, c1.as_limit >> 30, r.kind, head.len(), sub::trunc(&head.replace('\n', "\\n"), 240)
            )
        } else {
            format!(
                "stage {} killed the process on an 8 MiB stack ({:?}, signal {:?}); reproduced 3/3 alone; recursion through {}; input kinds {:?}; {}; input ({} bytes): {}",
                s.stage_name,
                s.death.as_ref().unwrap(),
                s.signal,
                if cycle.is_empty() { "?".to_string() } else { cycle.join(" -> ") },
                kinds_by_sig.get(&sig).cloned().unwrap_or_default(),
                min_note,
                head.len(),
                sub::trunc(&head.replace('\n', "\\n"), 200)
            )
        };
        run.violation(&sig, &what, case);
    }
    // too many undecided suspects make the run inconclusive
    let evals = total.max(1);
    if unresolved * 100 > evals * 2 {
        run.inconclusive(format!("{unresolved} of {evals} cases ended as undecided time/memory suspects (> 2%)"));
    }
    let t_end = run_start.elapsed().as_secs_f64();
    run.set_extra("phase_seconds", json!({"main": t_main, "panic_minimisation": t_panics - t_main, "confirmation": t_confirm - t_panics, "naming_and_minimising_deaths": t_end - t_confirm}));

    let mut top: Vec<(String, u64)> = diag_hist.lock().unwrap().iter().map(|(k, v)| (k.clone(), *v)).collect();
    top.sort_by(|a, b| b.1.cmp(&a.1));
    run.set_extra("diagnostic_codes_distinct", json!(top.len()));
    run.set_extra("diagnostics_top", json!(top.iter().take(25).map(|(k, v)| json!({"code": k, "count": v})).collect::<Vec<_>>()));
    let m = *maxima.lock().unwrap();
    run.set_extra("largest_input_bytes", json!(m.0));
    run.set_extra("deepest_nesting_analysed", json!(m.1));
    run.set_extra("slowest_case_cpu_s", json!(m.2));
    run.set_extra("worker_death_culprits", json!(culprits.iter().take(60).collect::<Vec<_>>()));
    sub::cleanup_scratch();

    // the floors are those of the quick default budget; smaller development budgets are exempt
    if args.budget("inputs", 2000, 30_000) >= 2000 {
        run.finish(&[
            ("evaluations", 600),
            ("parsed", 450),
            ("reached_and_finished:format", 450),
            ("reached_and_finished:pass1", 450),
            ("reached_and_finished:pass2", 400),
            ("reached_and_finished:emit", 400),
            ("cases_with_error_diagnostics", 150),
            ("cases_clean_and_emitted", 60),
            ("parsed:token_mutation", 60),
            ("parsed:template", 40),
            ("parsed:deep_nesting", 12),
            ("exceed_limit_diagnostics", 3),
        ]);
    } else {
        run.finish(&[("evaluations", 1)]);
    }
}
