//! C10 — the parser terminates without crashing on every input.
//!
//! Events that refute: `Parser::parse` (or dropping its result) panics,
//! overflows the stack, aborts or does not finish on some string; or it
//! returns a syntax diagnostic whose miette label does not lie inside
//! `input + "\n"`.
//!
//! Oracle: worker subprocesses (see `sub.rs`) parse every input on a fresh
//! thread with the CLI main thread's 8 MiB stack (deciding) and again on a
//! 2 MiB thread (reported, not deciding: no shipped code path parses on a
//! stack that small — the CLI parses on its main thread, the language server
//! on a 16 MiB thread).

use crate::shapes::{self, FLATS, NESTS};
use crate::sub::{self, DeathKind, Outcome, PanicRec, Spec, Watchdog};
use miette::Diagnostic;
use std::collections::BTreeMap;
use std::path::Path;
use std::sync::{Arc, Mutex};
use vcommon::corpus::CorpusFile;
use vcommon::rng::hash_str;
use vcommon::{Args, Json, Rng, Run, json};
use veryl_parser::{Parser, ParserError};

pub const STACKS: &[(&str, usize)] = &[("8MiB", 8 << 20), ("2MiB", 2 << 20)];
const MAX_RANDOM_BYTES: usize = 64 << 10;
const FRONTIER_HI: usize = 4096;

// ------------------------------------------------------------------------------------------------
// case generation (pure function of seed, budgets and index — shared by orchestrator and worker)
// ------------------------------------------------------------------------------------------------

#[derive(Clone)]
pub struct Plan {
    pub seed: u64,
    pub n_rand: u64,
    pub paths: Vec<Json>,
    pub lex: Vec<(String, String)>,
}

pub fn plan(args: &Args) -> Plan {
    let thorough = args.thorough();
    let n_rand = args.budget("inputs", 3000, 300_000);
    let n_path = args.budget("pathologies", 170, 2000) as usize;
    let big = if thorough { 1_000_000 } else { 100_000 } as usize;
    let seed = args.seed;
    let mut rng = Rng::for_case(seed, "C10plan", 0);
    let mut paths: Vec<Json> = vec![];
    // round 0: one of everything at its primary setting
    for n in NESTS {
        paths.push(json!({"g": "frontier", "name": n.name}));
    }
    for f in FLATS {
        paths.push(json!({"g": "flat", "name": f.name, "n": shapes::flat_items_for_tokens(f, big), "tokens": big}));
    }
    let ladder = [100usize, 1000, 1152, 2000, 10_000, 100_000, 1_000_000];
    for (k, n) in NESTS.iter().enumerate() {
        let d = ladder[(k + seed as usize) % ladder.len()];
        paths.push(json!({"g": "nest", "name": n.name, "depth": d, "mode": "full"}));
    }
    for which in ["expr", "stmt"] {
        for d in [20usize, 60, 200, 5000] {
            paths.push(json!({"g": "mixed", "which": which, "depth": d, "rseed": rng.next_u64() >> 12}));
        }
    }
    for (k, n) in NESTS.iter().enumerate() {
        if (k + seed as usize) % 3 == 0 {
            let d = ladder[(k / 3 + seed as usize) % ladder.len()];
            paths.push(json!({"g": "nest", "name": n.name, "depth": d, "mode": "open"}));
            paths.push(json!({"g": "nest", "name": n.name, "depth": d, "mode": "close"}));
        }
    }
    // later rounds (thorough / larger budgets): every ladder step, more sizes, random mixed depths
    if paths.len() < n_path {
        for f in FLATS {
            for n in [300_000usize, 30_000] {
                paths.push(json!({"g": "flat", "name": f.name, "n": shapes::flat_items_for_tokens(f, n), "tokens": n}));
            }
        }
        for n in NESTS {
            for d in ladder {
                paths.push(json!({"g": "nest", "name": n.name, "depth": d, "mode": "full"}));
            }
            for d in [1000usize, 100_000] {
                paths.push(json!({"g": "nest", "name": n.name, "depth": d, "mode": "open"}));
                paths.push(json!({"g": "nest", "name": n.name, "depth": d, "mode": "close"}));
            }
        }
    }
    while paths.len() < n_path {
        let which = if rng.bool() { "expr" } else { "stmt" };
        let d = match rng.below(4) {
            0 => 5 + rng.usize(60),
            1 => 40 + rng.usize(200),
            2 => 200 + rng.usize(1500),
            _ => 2000 + rng.usize(50_000),
        };
        paths.push(json!({"g": "mixed", "which": which, "depth": d, "rseed": rng.next_u64() >> 12}));
    }
    paths.truncate(n_path);
    let mut lex = shapes::lexer_edges(65_536);
    if thorough {
        for (n, t) in shapes::lexer_edges(1_000_000) {
            if n.starts_with("long_") {
                lex.push((format!("{n}_1M"), t));
            }
        }
    }
    if args.get("inject").is_some() {
        // sensitivity self-test: one input carrying the marker the worker misbehaves on
        lex.insert(3, ("inject_marker".into(), format!("module {MARKER} {{}}\n")));
        lex.insert(40, ("inject_marker_bad_syntax".into(), format!("module {MARKER} {{\n")));
    }
    Plan { seed, n_rand, paths, lex }
}

impl Plan {
    pub fn total(&self) -> u64 {
        self.n_rand + self.paths.len() as u64
    }
    pub fn spec(&self, i: u64) -> Json {
        if i < self.n_rand {
            if (i as usize) < self.lex.len() {
                json!({"g": "lex", "k": i})
            } else {
                json!({"g": "rand", "i": i})
            }
        } else {
            self.paths[(i - self.n_rand) as usize].clone()
        }
    }
}

fn clip(mut s: String, max: usize) -> String {
    if s.len() > max {
        let mut k = max;
        while !s.is_char_boundary(k) {
            k -= 1;
        }
        s.truncate(k);
    }
    s
}

fn random_char(rng: &mut Rng) -> char {
    loop {
        let c = match rng.below(10) {
            0..=3 => rng.below(0x80) as u32,
            4 => rng.below(0x800) as u32,
            5 | 6 => rng.below(0x10000) as u32,
            7 => 0x10000 + rng.below(0x100000) as u32,
            8 => *rng.pick(&[0u32, 0xd, 0xa, 0xfeff, 0x2028, 0x85, 0x1f600, 0x10ffff, 0x22, 0x2f, 0x2a, 0x5c, 0x27, 0x7b, 0x7d]),
            _ => 0x20 + rng.below(0x5f) as u32,
        };
        if let Some(ch) = char::from_u32(c) {
            return ch;
        }
    }
}

fn random_case(seed: u64, i: u64, corpus: &[CorpusFile]) -> (String, String) {
    let mut rng = Rng::for_case(seed, "C10", i);
    let pick_file = |rng: &mut Rng| -> &CorpusFile { &corpus[rng.usize(corpus.len())] };
    match i % 8 {
        0 | 1 => {
            let f = pick_file(&mut rng);
            let edits = 1 + rng.usize(10);
            ("token_mutation".into(), vcommon::mutate::tokens(&f.text, &mut rng, edits))
        }
        2 => {
            // byte-level mutation, repaired to valid UTF-8 (the quantifier is over UTF-8 strings)
            let f = pick_file(&mut rng);
            let mut b = f.text.clone().into_bytes();
            let edits = 1 + rng.usize(12);
            for _ in 0..edits {
                if b.is_empty() {
                    break;
                }
                let k = rng.usize(b.len());
                match rng.below(6) {
                    0 => {
                        b.remove(k);
                    }
                    1 => b.insert(k, rng.below(256) as u8),
                    2 => b[k] = rng.below(256) as u8,
                    3 => b[k] ^= 1 << rng.below(8),
                    4 => {
                        let e = (k + 1 + rng.usize(40)).min(b.len());
                        b.drain(k..e);
                    }
                    _ => {
                        let ins: &[u8] = *rng.pick(&[
                            b"/*" as &[u8], b"*/", b"//", b"\"", b"\\", b"\r", b"\0", b"\xef\xbb\xbf", b"\xf0\x9f\x98\x80", b"{{{", b"}}}", b"'", b"#[", b"\xc3", b"\xf0\x9f",
                        ]);
                        for (o, x) in ins.iter().enumerate() {
                            b.insert(k + o, *x);
                        }
                    }
                }
            }
            ("byte_mutation".into(), String::from_utf8_lossy(&b).into_owned())
        }
        3 => {
            let n = match rng.below(4) {
                0 => rng.usize(16),
                1 => rng.usize(256),
                2 => rng.usize(4096),
                _ => rng.usize(20_000),
            };
            let mut s = String::new();
            for _ in 0..n {
                s.push(random_char(&mut rng));
            }
            ("random_unicode".into(), s)
        }
        4 => {
            let cap = if rng.chance(1, 8) { 6000 } else { 300 };
            let n = 1 + rng.usize(cap);
            let mut s = String::new();
            for _ in 0..n {
                s.push_str(*rng.pick(shapes::VOCAB));
                if rng.chance(3, 4) {
                    s.push(' ');
                }
            }
            ("token_soup".into(), s)
        }
        5 => {
            // two corpus files spliced at random token boundaries (a half-finished edit)
            let a = pick_file(&mut rng);
            let b = pick_file(&mut rng);
            let ta = vcommon::lex::lex(&a.text, false);
            let tb = vcommon::lex::lex(&b.text, false);
            let ca = rng.usize(ta.len().max(1));
            let cb = rng.usize(tb.len().max(1));
            let mut s: String = ta[..ca.min(ta.len())].iter().map(|t| t.text.as_str()).collect();
            s.extend(tb[cb.min(tb.len())..].iter().map(|t| t.text.as_str()));
            ("splice".into(), s)
        }
        6 => {
            // bracket-biased soup: random nesting with random closers
            let n = 20 + rng.usize(3000);
            let opens = ["(", "{", "[", "'{", "if c ? ", "case a { 0: ", "f(", "a[", "~", "-", ":g {", "if c {", "block {", "<", "::<"];
            let closes = [")", "}", "]", ":", ",", "default: 0 }", ">", ";"];
            let mut s = String::from(*rng.pick(&["module A { assign a = ", "module A { always_comb { ", "module A { ", "", "package P { "]));
            for _ in 0..n {
                match rng.below(10) {
                    0..=5 => s.push_str(*rng.pick(&opens)),
                    6..=7 => s.push_str(*rng.pick(&closes)),
                    8 => s.push_str(*rng.pick(shapes::VOCAB)),
                    _ => s.push_str(" a "),
                }
            }
            ("bracket_soup".into(), s)
        }
        _ => {
            // truncated file (+ a random tail)
            let f = pick_file(&mut rng);
            let mut k = rng.usize(f.text.len() + 1);
            while !f.text.is_char_boundary(k) {
                k -= 1;
            }
            let mut s = f.text[..k].to_string();
            let tail = rng.usize(4);
            for _ in 0..tail {
                s.push(random_char(&mut rng));
            }
            ("truncation".into(), s)
        }
    }
}

/// (class, kind, text) of a non-frontier spec.
pub fn realize(spec: &Json, plan: &Plan, corpus: &[CorpusFile]) -> (String, String, String) {
    let g = spec["g"].as_str().unwrap_or("");
    let name = spec["name"].as_str().unwrap_or("");
    match g {
        "text" => (
            spec["class"].as_str().unwrap_or("text").to_string(),
            spec["kind"].as_str().unwrap_or("text").to_string(),
            spec["text"].as_str().unwrap_or("").to_string(),
        ),
        "lex" => {
            let (n, t) = &plan.lex[spec["k"].as_u64().unwrap() as usize];
            ("lexer_edge".into(), format!("lex:{n}"), t.clone())
        }
        "rand" => {
            let (class, text) = random_case(plan.seed, spec["i"].as_u64().unwrap(), corpus);
            (class.clone(), class, clip(text, MAX_RANDOM_BYTES))
        }
        "nest" => {
            let n = shapes::nest_by_name(name).expect("nest name");
            let d = spec["depth"].as_u64().unwrap() as usize;
            let mode = spec["mode"].as_str().unwrap_or("full");
            let text = match mode {
                "open" => shapes::nest_open_only(n, d),
                "close" => shapes::nest_close_only(n, d),
                _ => shapes::nest_text(n, d),
            };
            ("nesting".into(), format!("nest_{mode}:{name}"), text)
        }
        "mixed" => {
            let mut rng = Rng::new(spec["rseed"].as_u64().unwrap());
            let d = spec["depth"].as_u64().unwrap() as usize;
            let which = spec["which"].as_str().unwrap();
            let text = if which == "expr" { shapes::nest_mixed_expr(&mut rng, d) } else { shapes::nest_mixed_stmt(&mut rng, d) };
            ("nesting".into(), format!("nest_mixed:{which}"), text)
        }
        "flat" => {
            let f = shapes::flat_by_name(name).expect("flat name");
            let n = spec["n"].as_u64().unwrap() as usize;
            ("flat_run".into(), format!("flat:{name}"), shapes::flat_text(f, n))
        }
        _ => ("unknown".into(), "unknown".into(), String::new()),
    }
}

fn spec_depth(spec: &Json) -> u64 {
    spec.get("depth").and_then(|x| x.as_u64()).unwrap_or(0)
}

// ------------------------------------------------------------------------------------------------
// the observation: one parse on the current thread
// ------------------------------------------------------------------------------------------------

#[derive(Debug, Clone)]
pub struct ParseObs {
    pub ok: bool,
    pub err_kind: String,
    pub msg: String,
    /// all miette labels (offset, len)
    pub labels: Vec<(usize, usize)>,
    pub span_ok: bool,
    pub cpu_us: u64,
}

/// Sensitivity self-test: `--set inject=panic|overflow|abort|hang|span` makes the *worker* misbehave
/// on inputs containing the marker.
const MARKER: &str = "zz_verif_inject_marker";

fn inject(mode: &str, input: &str) {
    if mode.is_empty() || !input.contains(MARKER) {
        return;
    }
    match mode {
        "panic" => {
            let v: Vec<u8> = vec![];
            let k = input.len();
            std::hint::black_box(v[std::hint::black_box(k)]);
        }
        "overflow" => {
            #[allow(unconditional_recursion)]
            fn deep(n: u64) -> u64 {
                let a = [n; 64];
                std::hint::black_box(&a);
                deep(n + 1) + a[3]
            }
            std::hint::black_box(deep(0));
        }
        "abort" => std::process::abort(),
        "hang" => loop {
            std::hint::black_box(0);
        },
        _ => {}
    }
}

pub fn parse_obs(input: &str, inject_mode: &str) -> ParseObs {
    let t0 = sub::thread_cpu_us();
    inject(inject_mode, input);
    let r = Parser::parse(input, &Path::new("c10.veryl"));
    let mut o = ParseObs {
        ok: false,
        err_kind: String::new(),
        msg: String::new(),
        labels: vec![],
        span_ok: true,
        cpu_us: 0,
    };
    match r {
        Ok(p) => {
            o.ok = true;
            drop(p); // dropping the tree is part of the property
        }
        Err(e) => {
            o.err_kind = match &e {
                ParserError::SyntaxError(_) => "SyntaxError".to_string(),
                ParserError::ParserError(x) => {
                    let s = format!("{x:?}");
                    format!("ParserError::{}", s.split([' ', '{', '(']).next().unwrap_or(""))
                }
                ParserError::LexerError(_) => "LexerError".to_string(),
                ParserError::UserError(_) => "UserError".to_string(),
            };
            o.msg = sub::trunc(&e.to_string(), 160);
            if let Some(ls) = e.labels() {
                for l in ls {
                    o.labels.push((l.offset(), l.len()));
                }
            }
            let bound = input.len() + 1;
            for (off, len) in &o.labels {
                if off.checked_add(*len).is_none_or(|end| end > bound) {
                    o.span_ok = false;
                }
            }
            if inject_mode == "span" && input.contains(MARKER) {
                o.labels.push((input.len() + 5, 3));
                o.span_ok = false;
            }
            drop(e);
        }
    }
    o.cpu_us = sub::thread_cpu_us().saturating_sub(t0);
    o
}

// ------------------------------------------------------------------------------------------------
// worker
// ------------------------------------------------------------------------------------------------

fn res_line(i: u64, stack: &str, class: &str, kind: &str, depth: u64, len: usize, r: &Result<ParseObs, PanicRec>) -> Json {
    match r {
        Ok(o) => json!({
            "t": "res", "i": i, "stack": stack, "class": class, "kind": kind, "depth": depth, "len": len,
            "outcome": if o.ok { "ok" } else { "err" }, "err_kind": o.err_kind, "msg": o.msg,
            "labels": o.labels, "span_ok": o.span_ok, "cpu_us": o.cpu_us,
        }),
        Err(p) => json!({
            "t": "res", "i": i, "stack": stack, "class": class, "kind": kind, "depth": depth, "len": len,
            "outcome": "panic", "panic": p.to_json(),
        }),
    }
}

pub fn worker(args: Args) {
    sub::install_hook(true);
    let as_limit: u64 = args.get("as_limit").and_then(|x| x.parse().ok()).unwrap_or(0);
    if as_limit > 0 {
        sub::limit_address_space(as_limit);
    }
    let budget: f64 = args.get("cpu_budget").and_then(|x| x.parse().ok()).unwrap_or(60.0);
    let inject_mode = args.get("inject").unwrap_or("").to_string();
    let only_stack = args.get("only_stack").map(|s| s.to_string());
    let (a, b) = sub::parse_range(args.get("range").expect("range"));
    let file_cases: Option<Vec<Json>> = args.get("file").map(|p| serde_json::from_str(&std::fs::read_to_string(p).expect("case file")).expect("case file json"));
    let plan = plan(&args);
    let corpus = vcommon::corpus::all_veryl();
    let wd = Watchdog::start(budget);

    for i in a..b {
        let spec = match &file_cases {
            Some(v) => v[i as usize].clone(),
            None => plan.spec(i),
        };
        let run_one = |i: u64, stack_name: &str, stack: usize, class: &str, kind: &str, depth: u64, text: Arc<String>| -> Result<ParseObs, PanicRec> {
            wd.rearm();
            wd.stage(i, &format!("parse@{stack_name}"), json!({"stack": stack_name, "class": class, "kind": kind, "depth": depth, "len": text.len()}));
            let inj = inject_mode.clone();
            let len = text.len();
            let r = sub::run_on_thread(stack, move || parse_obs(&text, &inj));
            sub::emit(res_line(i, stack_name, class, kind, depth, len, &r));
            r
        };
        if spec["g"] == "frontier" {
            // largest accepted depth of one nesting shape (binary search on the deciding
            // stack), then the depths around it on every stack
            let name = spec["name"].as_str().unwrap();
            let n = shapes::nest_by_name(name).expect("nest");
            let kind = format!("frontier:{name}");
            wd.begin(i);
            let (sname, ssize) = STACKS[0];
            let probe = |d: usize, sname: &str, ssize: usize| -> Option<bool> {
                let text = Arc::new(shapes::nest_text(n, d));
                match run_one(i, sname, ssize, "nesting", &kind, d as u64, text) {
                    Ok(o) => Some(o.ok),
                    Err(_) => None,
                }
            };
            let mut frontier = 0usize;
            let mut tried_max = 0usize;
            if probe(1, sname, ssize) == Some(true) {
                let (mut lo, mut hi) = (1usize, FRONTIER_HI);
                if probe(hi, sname, ssize) == Some(true) {
                    lo = hi;
                } else {
                    while hi - lo > 1 {
                        let mid = (lo + hi) / 2;
                        if probe(mid, sname, ssize) == Some(true) { lo = mid } else { hi = mid }
                    }
                }
                tried_max = FRONTIER_HI;
                frontier = lo;
                for (sn, ss) in STACKS {
                    if only_stack.as_deref().is_some_and(|o| o != *sn) {
                        continue;
                    }
                    for d in [frontier.saturating_sub(1).max(1), frontier, frontier + 1] {
                        probe(d, sn, *ss);
                    }
                }
            }
            wd.end();
            sub::emit(json!({"t": "done", "i": i, "class": "nesting", "kind": kind, "frontier": frontier, "name": name, "max_depth_tried": tried_max}));
            continue;
        }
        let (class, kind, text) = realize(&spec, &plan, &corpus);
        let depth = spec_depth(&spec);
        let len = text.len();
        let hash = hash_str(&text);
        let text = Arc::new(text);
        wd.begin(i);
        for (sn, ss) in STACKS {
            if only_stack.as_deref().is_some_and(|o| o != *sn) {
                continue;
            }
            let _ = run_one(i, sn, *ss, &class, &kind, depth, text.clone());
        }
        wd.end();
        sub::emit(json!({"t": "done", "i": i, "class": class, "kind": kind, "len": len, "hash": format!("{hash:016x}"), "depth": depth}));
    }
}

// ------------------------------------------------------------------------------------------------
// orchestrator
// ------------------------------------------------------------------------------------------------

#[derive(Clone, Debug)]
struct Suspect {
    i: u64,
    what: &'static str, // died | cpu_timeout | wall_timeout
    death: Option<DeathKind>,
    signal: Option<i32>,
    stage: Json,
    stderr: String,
}

fn stage_str(stage: &Json, k: &str) -> String {
    stage.get(k).and_then(|x| x.as_str()).unwrap_or("?").to_string()
}

fn replay_case(spec: &Json, plan: &Plan, corpus: &[CorpusFile], stage: &Json) -> Json {
    let mut v = json!({"spec": spec, "stage": stage});
    let text = if spec["g"] == "frontier" {
        let d = stage.get("depth").and_then(|x| x.as_u64()).unwrap_or(1) as usize;
        shapes::nest_by_name(spec["name"].as_str().unwrap_or("")).map(|n| shapes::nest_text(n, d)).unwrap_or_default()
    } else {
        realize(spec, plan, corpus).2
    };
    if text.len() <= 256 << 10 {
        v["input"] = json!(text);
    } else {
        v["input_omitted_bytes"] = json!(text.len());
        v["input_head"] = json!(sub::trunc(&text, 400));
    }
    v
}

/// Minimise a panicking input in-process (panics are catchable): lines, then tokens, then chars.
fn minimise_panic(text: &str, stack: usize, sig: &str) -> String {
    let reproduces = |cand: &str| -> bool {
        let c = cand.to_string();
        match sub::run_on_thread(stack, move || parse_obs(&c, "")) {
            Err(p) => p.signature() == sig,
            Ok(_) => false,
        }
    };
    if !reproduces(text) {
        return text.to_string();
    }
    let lines: Vec<String> = text.split_inclusive('\n').map(|s| s.to_string()).collect();
    let lines = sub::ddmin(lines, 400, &mut |c| reproduces(&c.concat()));
    let cur = lines.concat();
    let toks: Vec<String> = vcommon::lex::lex(&cur, false).into_iter().map(|t| t.text).collect();
    let toks = sub::ddmin(toks, 1500, &mut |c| reproduces(&c.concat()));
    let cur = toks.concat();
    if cur.chars().count() <= 400 {
        let chars: Vec<String> = cur.chars().map(|c| c.to_string()).collect();
        let chars = sub::ddmin(chars, 1500, &mut |c| reproduces(&c.concat()));
        return chars.concat();
    }
    cur
}

pub fn main(args: Args) {
    sub::install_hook(true);
    let run = Arc::new(Run::new(
        args.clone(),
        "exploration",
        "inputs = lexer edge cases, random Unicode strings, Veryl-vocabulary token soup, bracket-biased soup, corpus token mutations, \
         corpus byte mutations (repaired to UTF-8), spliced and truncated corpus files (all <= 64 KiB), plus structured pathologies: \
         per nesting shape a binary search for the deepest accepted nesting and the depths around it, nestings far beyond \
         MAX_PARSING_DEPTH (up to 10^6), unbalanced openers/closers, randomly mixed nestings, flat runs of 10^5..10^6 items; every input is \
         parsed (and its result dropped) in a worker subprocess on an 8 MiB thread and on a 2 MiB thread; a case is non-trivial when the \
         parser returned (tree or diagnostic) for a non-empty input; distinct = distinct input texts",
    ));
    run.assume("the CLI parses on its main thread (8 MiB, ulimit -s default) and the language server on a 16 MiB thread (backend.rs:28): 8 MiB is the deciding stack; an overflow that needs a 2 MiB stack is reported in the evidence but is not a violation");
    run.assume("miette labels of the returned ParserError are the diagnostic's spans; bound checked is offset+len <= len(input)+1");
    run.assume("a worker death by allocation failure under RLIMIT_AS or a CPU-time overrun is a suspect, decided only by 3 solitary reproductions with a 10x CPU budget");

    let mut args = args;
    if let Some(j) = args.get("jobs").and_then(|x| x.parse::<usize>().ok()) {
        args.jobs = j.max(1);
    }
    let plan = plan(&args);
    let corpus = Arc::new(vcommon::corpus::all_veryl());
    let exe = std::env::current_exe().expect("current_exe");
    let cpu_budget: f64 = args.get("cpu_budget").and_then(|x| x.parse().ok()).unwrap_or(if args.thorough() { 120.0 } else { 60.0 });
    let mut sets: Vec<(String, String)> = vec![];
    for k in ["inputs", "pathologies", "inject"] {
        if let Some(v) = args.get(k) {
            sets.push((k.to_string(), v.to_string()));
        }
    }
    let spec = Spec {
        exe,
        worker_prop: "C10WORKER".into(),
        seed: args.seed,
        tier: args.tier.clone(),
        sets,
        cpu_budget_s: cpu_budget,
        wall_kill_s: (cpu_budget * 6.0).max(180.0),
        as_limit: 8 << 30,
    };

    // ---- replay of one recorded case ----
    if let Some(rp) = &args.replay {
        let v: Json = serde_json::from_str(&std::fs::read_to_string(rp).expect("replay file")).expect("replay json");
        let case = &v["case"];
        let cspec = if let Some(t) = case.get("input").and_then(|x| x.as_str()) {
            json!({"g": "text", "text": t, "class": "replay", "kind": stage_str(&case["stage"], "kind")})
        } else {
            case["spec"].clone()
        };
        let file = sub::write_case_file("replay", &json!([cspec]));
        let mut rspec = spec.clone();
        rspec.sets.push(("file".into(), file.display().to_string()));
        let run2 = run.clone();
        let case2 = case.clone();
        sub::run_range(&rspec, 0, 1, &mut |_, o| {
            run2.eval();
            match o {
                Outcome::Res(r) => {
                    if r["outcome"] == "panic" && r["stack"] == "8MiB" {
                        let p = PanicRec::from_json(&r["panic"]).unwrap();
                        run2.violation(&p.signature(), &format!("parser panicked at {}: {}", p.location, p.message), case2.clone());
                    } else if r["span_ok"] == false {
                        run2.violation(&format!("span_outside_input:{}", r["err_kind"].as_str().unwrap_or("")), "diagnostic span outside input", case2.clone());
                    }
                }
                Outcome::Died { kind, signal, stage, stderr, .. } => {
                    if stage_str(&stage, "stack") == "8MiB" {
                        run2.violation(
                            v["signature"].as_str().unwrap_or("died"),
                            &format!("worker died ({kind:?}, signal {signal:?}) in {}: {stderr}", stage_str(&stage, "stage")),
                            case2.clone(),
                        );
                    }
                }
                Outcome::CpuTimeout { stage, cpu_s, .. } => run2.inconclusive(format!("replay: CPU budget exceeded in {stage} after {cpu_s:.0}s")),
                Outcome::WallTimeout { .. } => run2.inconclusive("replay: wall watchdog".into()),
                Outcome::Done(_) => {}
            }
        });
        sub::cleanup_scratch();
        run.finish(&[]);
    }

    // ---- main phase ----
    let suspects: Arc<Mutex<Vec<Suspect>>> = Arc::new(Mutex::new(vec![]));
    let frontiers: Arc<Mutex<BTreeMap<String, u64>>> = Arc::new(Mutex::new(BTreeMap::new()));
    let panics: Arc<Mutex<BTreeMap<String, (u64, Json, PanicRec)>>> = Arc::new(Mutex::new(BTreeMap::new()));
    let spans: Arc<Mutex<BTreeMap<String, (u64, Json)>>> = Arc::new(Mutex::new(BTreeMap::new()));
    let maxima: Arc<Mutex<(u64, u64, u64)>> = Arc::new(Mutex::new((0, 0, 0))); // largest input, deepest tried, deepest accepted

    let mut ranges = sub::split_ranges(0, plan.n_rand, 60);
    // pathologies: small batches (they are heavy and some are expected to kill a 2 MiB worker)
    ranges.extend(sub::split_ranges(plan.n_rand, plan.total(), 2));
    // heavy ones first so the tail of the run is not one long flat run
    ranges.reverse();

    let (run2, sus2, fr2, pan2, sp2, mx2) = (run.clone(), suspects.clone(), frontiers.clone(), panics.clone(), spans.clone(), maxima.clone());
    let stats = sub::run_parallel(&spec, ranges, args.jobs, move |i, o| match o {
        Outcome::Res(r) => {
            let stack = r["stack"].as_str().unwrap_or("");
            let class = r["class"].as_str().unwrap_or("");
            let kind = r["kind"].as_str().unwrap_or("");
            let depth = r["depth"].as_u64().unwrap_or(0);
            run2.count(&format!("parses_{stack}"), 1);
            {
                let mut m = mx2.lock().unwrap();
                m.1 = m.1.max(depth);
            }
            match r["outcome"].as_str().unwrap_or("") {
                "ok" => {
                    run2.count(&format!("accepted_{stack}"), 1);
                    let mut m = mx2.lock().unwrap();
                    m.2 = m.2.max(depth);
                }
                "err" => {
                    run2.count(&format!("diagnostic_{stack}"), 1);
                    if stack == "8MiB" {
                        let ek = r["err_kind"].as_str().unwrap_or("");
                        run2.count(&format!("diag:{ek}"), 1);
                        let nlabels = r["labels"].as_array().map(|a| a.len()).unwrap_or(0);
                        if nlabels > 0 {
                            run2.count("diagnostic_spans_checked", nlabels as i64);
                        }
                        if ek.contains("MaxParsingDepth") {
                            run2.count("depth_cap_diagnostics", 1);
                        }
                    }
                    if r["span_ok"] == false {
                        run2.count("span_outside_input_observed", 1);
                        let sig = format!("span_outside_input:{}", r["err_kind"].as_str().unwrap_or(""));
                        sp2.lock().unwrap().entry(sig).or_insert((i, r.clone()));
                    }
                }
                "panic" => {
                    run2.count(&format!("panics_{stack}"), 1);
                    if let Some(p) = PanicRec::from_json(&r["panic"]) {
                        pan2.lock().unwrap().entry(format!("{}@{}", p.signature(), stack)).or_insert((i, r.clone(), p));
                    }
                }
                _ => {}
            }
            let _ = (class, kind);
        }
        Outcome::Done(d) => {
            run2.eval();
            let class = d["class"].as_str().unwrap_or("");
            run2.count(&format!("class:{class}"), 1);
            run2.seen("kinds", d["kind"].as_str().unwrap_or(""));
            if let Some(h) = d.get("hash").and_then(|x| x.as_str()) {
                if d["len"].as_u64().unwrap_or(0) > 0 {
                    run2.nontrivial(hash_str(h));
                }
                let mut m = mx2.lock().unwrap();
                m.0 = m.0.max(d["len"].as_u64().unwrap_or(0));
            }
            if let Some(f) = d.get("frontier").and_then(|x| x.as_u64()) {
                run2.nontrivial(hash_str(d["kind"].as_str().unwrap_or("")));
                fr2.lock().unwrap().insert(d["name"].as_str().unwrap_or("").to_string(), f);
                if f >= 1 {
                    run2.count("frontier_shapes_with_accepted_depth", 1);
                }
                if f >= 1 && f < FRONTIER_HI as u64 {
                    run2.count("frontier_shapes_bounded_by_depth_cap", 1);
                }
            }
            if class != "nesting" && class != "flat_run" && class != "lexer_edge" && i % 487 == 3 {
                run2.sample(json!({"case": i, "class": class, "bytes": d["len"]}));
            }
        }
        Outcome::Died { kind, signal, stage, stderr, .. } => {
            run2.eval();
            sus2.lock().unwrap().push(Suspect { i, what: "died", death: Some(kind), signal, stage, stderr });
        }
        Outcome::CpuTimeout { cpu_s, info, .. } => {
            run2.eval();
            let mut st = info.clone();
            st["cpu_s"] = json!(cpu_s);
            sus2.lock().unwrap().push(Suspect { i, what: "cpu_timeout", death: None, signal: None, stage: st, stderr: String::new() });
        }
        Outcome::WallTimeout { stage } => {
            run2.eval();
            sus2.lock().unwrap().push(Suspect { i, what: "wall_timeout", death: None, signal: None, stage, stderr: String::new() });
        }
    });
    run.count("workers_spawned", stats.workers_spawned as i64);
    run.count("workers_died", stats.workers_died as i64);
    for e in &stats.harness_errors {
        run.inconclusive(format!("harness: {e}"));
    }

    // ---- panics (caught in the worker): violation per crash site at the deciding stack ----
    for (key, (i, r, p)) in panics.lock().unwrap().iter() {
        let stack = r["stack"].as_str().unwrap_or("");
        let cspec = plan.spec(*i);
        let mut case = replay_case(&cspec, &plan, &corpus, r);
        if stack != "8MiB" {
            run.note(format!("panic only observed on the {stack} stack (not deciding): {key}: {}", p.message));
            continue;
        }
        if let Some(t) = case.get("input").and_then(|x| x.as_str())
            && args.get("minimize") != Some("0")
        {
            let min = minimise_panic(t, 8 << 20, &p.signature());
            case["minimal_input"] = json!(min);
        }
        case["panic"] = p.to_json();
        run.violation(
            &p.signature(),
            &format!("Parser::parse panicked at {}: {} (input class {}, minimal input {:?})", sub::rel_location(&p.location), sub::trunc(&p.message, 200), r["kind"].as_str().unwrap_or(""), case.get("minimal_input").and_then(|x| x.as_str()).map(|s| sub::trunc(s, 120))),
            case,
        );
    }
    for (sig, (i, r)) in spans.lock().unwrap().iter() {
        let cspec = plan.spec(*i);
        let case = replay_case(&cspec, &plan, &corpus, r);
        run.violation(sig, &format!("syntax diagnostic label {:?} does not lie inside input+\"\\n\" ({} bytes): {}", r["labels"], r["len"], r["msg"].as_str().unwrap_or("")), case);
    }

    // ---- suspects: worker deaths and time-outs, decided by solitary reproduction ----
    let mut sus = suspects.lock().unwrap().clone();
    sus.sort_by_key(|s| s.i);
    let mut confirmed_sigs: BTreeMap<String, u64> = BTreeMap::new();
    let mut culprits: Vec<Json> = vec![];
    let mut unreproduced_timeouts = 0u64;
    for s in &sus {
        let cspec = plan.spec(s.i);
        let stack = stage_str(&s.stage, "stack");
        let kind = stage_str(&s.stage, "kind");
        let depth = s.stage.get("depth").and_then(|x| x.as_u64()).unwrap_or(0);
        culprits.push(json!({"case": s.i, "event": s.what, "death": format!("{:?}", s.death), "signal": s.signal, "stack": stack, "kind": kind, "depth": depth}));
        if s.what == "died" && stack == "2MiB" {
            run.count("deaths_only_on_2MiB_stack", 1);
            run.seen("kinds_overflowing_2MiB_only", &kind);
            continue;
        }
        let sig = match (s.what, &s.death) {
            ("died", Some(DeathKind::StackOverflow)) => format!("stack_overflow:{stack}:{kind}"),
            ("died", Some(DeathKind::AllocFailure)) => format!("alloc_failure:{kind}"),
            ("died", _) => format!("abort:signal{}:{stack}:{kind}", s.signal.unwrap_or(0)),
            _ => format!("nontermination:{kind}"),
        };
        if let Some(n) = confirmed_sigs.get_mut(&sig) {
            *n += 1;
            continue;
        }
        // reproduce alone, three times; time-outs get a 10x CPU budget
        let mut cspec1 = spec.clone();
        if s.what != "died" {
            cspec1.cpu_budget_s = spec.cpu_budget_s * 10.0;
            cspec1.wall_kill_s = cspec1.cpu_budget_s * 6.0;
        }
        if stack == "8MiB" {
            cspec1.sets.push(("only_stack".into(), "8MiB".into()));
        }
        let outs = sub::confirm(&cspec1, s.i, 3);
        let same = outs
            .iter()
            .filter(|o| match (s.what, o) {
                ("died", Outcome::Died { kind, stage, .. }) => Some(kind) == s.death.as_ref() && stage_str(stage, "stack") == stack,
                ("cpu_timeout" | "wall_timeout", Outcome::CpuTimeout { .. } | Outcome::WallTimeout { .. }) => true,
                _ => false,
            })
            .count();
        run.count("suspects_rerun_alone", 1);
        if same < 3 {
            run.count("suspects_not_reproduced", 1);
            if s.what == "died" {
                run.inconclusive(format!("case {} ({kind}, {}): {} reproduced only {same}/3 times alone", s.i, s.what, sig));
            } else {
                // a CPU-time overrun that does not come back with a 10x budget is no evidence of anything
                // (seen on an overloaded machine: page-fault / reclaim time is charged to the process):
                // inconclusive for this case only
                unreproduced_timeouts += 1;
                run.note(format!("case {} ({kind}): CPU budget overrun reproduced {same}/3 alone with the 10x budget — not judged", s.i));
            }
            continue;
        }
        if matches!(s.death, Some(DeathKind::AllocFailure)) {
            run.count("alloc_failure_suspects", 1);
            run.inconclusive(format!("case {} ({kind}): allocation failure under RLIMIT_AS reproduced 3/3; memory exhaustion is not judged by this property", s.i));
            continue;
        }
        confirmed_sigs.insert(sig.clone(), 1);
        let mut case = replay_case(&cspec, &plan, &corpus, &s.stage);
        case["stderr"] = json!(s.stderr);
        case["reproduced_alone"] = json!("3/3");
        let what = match s.what {
            "died" => format!(
                "Parser::parse (or dropping its result) killed the process on a {stack} stack: {:?}, signal {:?}, input kind {kind} depth {depth}, {} bytes; reproduced 3/3 alone; stderr: {}",
                s.death.as_ref().unwrap(),
                s.signal,
                s.stage.get("len").and_then(|x| x.as_u64()).unwrap_or(0),
                sub::trunc(&s.stderr, 160)
            ),
            _ => format!("Parser::parse did not finish within {}s CPU (10x budget), 3/3 alone; input kind {kind} depth {depth}", spec.cpu_budget_s * 10.0),
        };
        run.violation(&sig, &what, case);
    }
    if unreproduced_timeouts * 100 > plan.total() {
        run.inconclusive(format!("{unreproduced_timeouts} of {} cases overran the CPU budget once and not when re-run alone (> 1%)", plan.total()));
    }
    for (sig, n) in &confirmed_sigs {
        if *n > 1 {
            run.note(format!("{sig}: {} further culprits with the same signature were not re-run", n - 1));
        }
    }

    let m = *maxima.lock().unwrap();
    run.set_extra("largest_input_bytes", json!(m.0));
    run.set_extra("deepest_nesting_tried", json!(m.1));
    run.set_extra("deepest_nesting_accepted", json!(m.2));
    run.set_extra("deepest_accepted_nesting_per_shape", json!(*frontiers.lock().unwrap()));
    run.set_extra("worker_death_culprits", json!(culprits.iter().take(60).collect::<Vec<_>>()));
    run.set_extra("stacks", json!({"deciding": "8MiB", "reported_only": "2MiB"}));
    sub::cleanup_scratch();

    // the floors are those of the quick default budget; smaller development budgets are exempt
    let quick_default = args.budget("inputs", 3000, 300_000) >= 3000 && args.budget("pathologies", 170, 2000) >= 170;
    if quick_default {
        run.finish(&[
            ("evaluations", 1000),
            ("parses_8MiB", 1000),
            ("accepted_8MiB", 150),
            ("diagnostic_spans_checked", 400),
            ("depth_cap_diagnostics", 10),
            ("frontier_shapes_with_accepted_depth", 15),
            ("class:flat_run", 12),
            ("class:lexer_edge", 25),
        ]);
    } else {
        run.finish(&[("evaluations", 1)]);
    }
}
