//! Subprocess batches for the crash monitors.
//!
//! A panic can be caught at a thread boundary; a stack overflow, an abort, an
//! allocation failure or a kill cannot.  So every case is executed in a
//! *worker process* (this same binary with `--prop <ID>WORKER`), which writes
//! one JSON line per protocol event to stdout and flushes it immediately:
//!
//! ```text
//! {"t":"begin","i":17}                       case 17 is about to run
//! {"t":"stage","i":17,"stage":"pass2", …}   the stage the case is in (for attribution of a death)
//! {"t":"res",  "i":17, …}                   a partial result (e.g. one stack size)
//! {"t":"done", "i":17, …}                   case finished
//! {"t":"cpu_timeout","i":17,"stage":…}      the worker's own CPU-time watchdog fired; worker exits 3
//! ```
//!
//! When the worker dies, the culprit is the case that has a `begin` but no
//! `done`; the orchestrator reports it with the last stage seen and restarts a
//! worker behind it.  (`confirm` re-runs one case alone.)
//!
//! Worker side: `run_on_thread` (fresh thread with a given stack, panic caught
//! with message, location and the veryl_* frames of the backtrace),
//! `limit_address_space`, `Watchdog` (CPU-time budget per case, measured on the
//! process CPU clock so a loaded machine does not matter).

use serde_json::{Value as Json, json};
use std::collections::HashMap;
use std::io::{BufRead, BufReader, Read, Write};
use std::os::unix::process::ExitStatusExt;
use std::panic::AssertUnwindSafe;
use std::path::PathBuf;
use std::process::{Command, Stdio};
use std::sync::atomic::{AtomicBool, AtomicU64, Ordering};
use std::sync::mpsc;
use std::sync::{Mutex, OnceLock};
use std::thread::ThreadId;
use std::time::Duration;

// ------------------------------------------------------------------------------------------------
// worker side
// ------------------------------------------------------------------------------------------------

#[derive(Debug, Clone)]
pub struct PanicRec {
    pub message: String,
    /// `file:line` as reported by the panic location
    pub location: String,
    /// the first veryl_* symbols on the panicking stack (innermost first)
    pub frames: Vec<String>,
}

impl PanicRec {
    pub fn to_json(&self) -> Json {
        json!({"message": trunc(&self.message, 400), "location": self.location, "frames": self.frames})
    }
    pub fn from_json(v: &Json) -> Option<PanicRec> {
        Some(PanicRec {
            message: v.get("message")?.as_str()?.to_string(),
            location: v.get("location")?.as_str()?.to_string(),
            frames: v
                .get("frames")
                .and_then(|x| x.as_array())
                .map(|a| a.iter().filter_map(|x| x.as_str().map(|s| s.to_string())).collect())
                .unwrap_or_default(),
        })
    }
    /// `panic:<path relative to the repository (or the crate registry)>:<line>`
    pub fn signature(&self) -> String {
        format!("panic:{}", rel_location(&self.location))
    }
}

/// Strip the repository / registry / rustc prefixes from a panic location.
pub fn rel_location(loc: &str) -> String {
    let repo = std::env::var("VERIF_REPO").unwrap_or_else(|_| "/repo".into());
    let repo = format!("{}/", repo.trim_end_matches('/'));
    if let Some(r) = loc.strip_prefix(&repo) {
        return r.to_string();
    }
    if let Some(k) = loc.find("/registry/src/") {
        // …/registry/src/<index>/<crate-version>/src/x.rs:1
        let rest = &loc[k + "/registry/src/".len()..];
        if let Some(s) = rest.find('/') {
            return format!("registry/{}", &rest[s + 1..]);
        }
    }
    if let Some(k) = loc.find("/library/") {
        return format!("rust{}", &loc[k..]);
    }
    loc.to_string()
}

static PANICS: OnceLock<Mutex<HashMap<ThreadId, PanicRec>>> = OnceLock::new();
static WANT_FRAMES: AtomicBool = AtomicBool::new(true);

/// Install the recording panic hook (replaces vcommon's).
pub fn install_hook(with_frames: bool) {
    WANT_FRAMES.store(with_frames, Ordering::Relaxed);
    PANICS.get_or_init(|| Mutex::new(HashMap::new()));
    std::panic::set_hook(Box::new(|info| {
        let msg = if let Some(s) = info.payload().downcast_ref::<&str>() {
            s.to_string()
        } else if let Some(s) = info.payload().downcast_ref::<String>() {
            s.clone()
        } else {
            "<non-string panic payload>".to_string()
        };
        let loc = info
            .location()
            .map(|l| format!("{}:{}", l.file(), l.line()))
            .unwrap_or_else(|| "<unknown>".into());
        let mut frames = vec![];
        if WANT_FRAMES.load(Ordering::Relaxed) {
            let bt = std::backtrace::Backtrace::force_capture().to_string();
            for line in bt.lines() {
                let l = line.trim();
                // "12: veryl_analyzer::conv::…"
                if let Some((_, sym)) = l.split_once(": ")
                    && (sym.starts_with("veryl_") || sym.starts_with("<veryl_"))
                {
                    frames.push(trunc(sym, 160));
                    if frames.len() >= 6 {
                        break;
                    }
                }
            }
        }
        if let Some(m) = PANICS.get() {
            m.lock().unwrap().insert(
                std::thread::current().id(),
                PanicRec {
                    message: msg,
                    location: loc,
                    frames,
                },
            );
        }
    }));
}

/// Run `f` on a fresh thread with exactly `stack` bytes of stack.
pub fn run_on_thread<T: Send + 'static>(stack: usize, f: impl FnOnce() -> T + Send + 'static) -> Result<T, PanicRec> {
    let h = std::thread::Builder::new()
        .stack_size(stack)
        .spawn(move || {
            let r = std::panic::catch_unwind(AssertUnwindSafe(f));
            let id = std::thread::current().id();
            match r {
                Ok(v) => Ok(v),
                Err(_) => Err(PANICS.get().and_then(|m| m.lock().unwrap().remove(&id)).unwrap_or(PanicRec {
                    message: "<panic hook not installed>".into(),
                    location: "<unknown>".into(),
                    frames: vec![],
                })),
            }
        })
        .expect("spawn case thread");
    match h.join() {
        Ok(r) => r,
        // a panic while dropping the payload / in a thread-local destructor
        Err(_) => Err(PanicRec {
            message: "<panic escaped catch_unwind (thread-local destructor?)>".into(),
            location: "<unknown>".into(),
            frames: vec![],
        }),
    }
}

/// `catch_unwind` on the current thread, returning the recorded panic.
pub fn catch<T>(f: impl FnOnce() -> T) -> Result<T, PanicRec> {
    match std::panic::catch_unwind(AssertUnwindSafe(f)) {
        Ok(v) => Ok(v),
        Err(_) => Err(PANICS.get().and_then(|m| m.lock().unwrap().remove(&std::thread::current().id())).unwrap_or(PanicRec {
            message: "<panic hook not installed>".into(),
            location: "<unknown>".into(),
            frames: vec![],
        })),
    }
}

pub fn emit(v: Json) {
    let out = std::io::stdout();
    let mut l = out.lock();
    let _ = writeln!(l, "{v}");
    let _ = l.flush();
}

pub fn limit_address_space(bytes: u64) {
    unsafe {
        let lim = libc::rlimit {
            rlim_cur: bytes as libc::rlim_t,
            rlim_max: bytes as libc::rlim_t,
        };
        libc::setrlimit(libc::RLIMIT_AS, &lim);
        let core = libc::rlimit { rlim_cur: 0, rlim_max: 0 };
        libc::setrlimit(libc::RLIMIT_CORE, &core);
    }
}

pub fn process_cpu_us() -> u64 {
    unsafe {
        let mut ts: libc::timespec = std::mem::zeroed();
        libc::clock_gettime(libc::CLOCK_PROCESS_CPUTIME_ID, &mut ts);
        ts.tv_sec as u64 * 1_000_000 + ts.tv_nsec as u64 / 1000
    }
}

pub fn thread_cpu_us() -> u64 {
    unsafe {
        let mut ts: libc::timespec = std::mem::zeroed();
        libc::clock_gettime(libc::CLOCK_THREAD_CPUTIME_ID, &mut ts);
        ts.tv_sec as u64 * 1_000_000 + ts.tv_nsec as u64 / 1000
    }
}

static WD_CASE: AtomicU64 = AtomicU64::new(u64::MAX);
static WD_START: AtomicU64 = AtomicU64::new(0);
static WD_STAGE: Mutex<String> = Mutex::new(String::new());

/// CPU-time watchdog of a worker: when the running case has consumed more than
/// `budget_s` seconds of *process CPU time* the worker reports it and exits 3.
pub struct Watchdog;
impl Watchdog {
    pub fn start(budget_s: f64) -> Watchdog {
        let budget_us = (budget_s * 1e6) as u64;
        std::thread::Builder::new()
            .name("watchdog".into())
            .spawn(move || {
                loop {
                    std::thread::sleep(Duration::from_millis(50));
                    let i = WD_CASE.load(Ordering::SeqCst);
                    if i == u64::MAX {
                        continue;
                    }
                    let used = process_cpu_us().saturating_sub(WD_START.load(Ordering::SeqCst));
                    if used > budget_us && WD_CASE.load(Ordering::SeqCst) == i {
                        let stage = WD_STAGE.lock().unwrap().clone();
                        emit(json!({"t": "cpu_timeout", "i": i, "stage": stage, "cpu_s": used as f64 / 1e6}));
                        std::process::exit(3);
                    }
                }
            })
            .expect("watchdog");
        Watchdog
    }
    pub fn begin(&self, i: u64) {
        WD_START.store(process_cpu_us(), Ordering::SeqCst);
        *WD_STAGE.lock().unwrap() = String::new();
        WD_CASE.store(i, Ordering::SeqCst);
        emit(json!({"t": "begin", "i": i}));
    }
    /// Announce the stage the case enters (flushed before the stage runs).
    pub fn stage(&self, i: u64, stage: &str, extra: Json) {
        *WD_STAGE.lock().unwrap() = stage.to_string();
        let mut v = json!({"t": "stage", "i": i, "stage": stage});
        if let (Some(o), Some(e)) = (v.as_object_mut(), extra.as_object()) {
            for (k, x) in e {
                o.insert(k.clone(), x.clone());
            }
        }
        emit(v);
    }
    /// Restart the CPU budget (used between independent sub-runs of one case).
    pub fn rearm(&self) {
        WD_START.store(process_cpu_us(), Ordering::SeqCst);
    }
    pub fn end(&self) {
        WD_CASE.store(u64::MAX, Ordering::SeqCst);
    }
}

pub fn parse_range(s: &str) -> (u64, u64) {
    let (a, b) = s.split_once("..").expect("range a..b");
    (a.parse().expect("range start"), b.parse().expect("range end"))
}

pub fn trunc(s: &str, n: usize) -> String {
    if s.len() <= n {
        return s.to_string();
    }
    let mut k = n;
    while !s.is_char_boundary(k) {
        k -= 1;
    }
    format!("{}…", &s[..k])
}

// ------------------------------------------------------------------------------------------------
// orchestrator side
// ------------------------------------------------------------------------------------------------

#[derive(Clone, Debug)]
pub struct Spec {
    pub exe: PathBuf,
    /// value of --prop for the worker mode
    pub worker_prop: String,
    pub seed: u64,
    pub tier: String,
    /// extra `--set k=v` passed through (budgets that influence generation, file=…)
    pub sets: Vec<(String, String)>,
    /// per-case CPU budget enforced inside the worker
    pub cpu_budget_s: f64,
    /// wall-clock silence after which the orchestrator kills the worker (generous)
    pub wall_kill_s: f64,
    /// RLIMIT_AS for the worker, bytes (0 = none)
    pub as_limit: u64,
}

#[derive(Clone, Debug, PartialEq, Eq)]
pub enum DeathKind {
    StackOverflow,
    AllocFailure,
    Other,
}

#[derive(Clone, Debug)]
pub enum Outcome {
    /// a `res` line (partial result) of the case
    Res(Json),
    /// the `done` line of the case
    Done(Json),
    Died {
        kind: DeathKind,
        signal: Option<i32>,
        code: Option<i32>,
        /// last `stage` line of the case (object) or Null
        stage: Json,
        stderr: String,
    },
    CpuTimeout {
        stage: String,
        cpu_s: f64,
        /// last `stage` line of the case
        info: Json,
    },
    WallTimeout {
        stage: Json,
    },
}

#[derive(Default, Debug)]
pub struct BatchStats {
    pub workers_spawned: u64,
    pub workers_died: u64,
    /// worker ended abnormally without a case in flight
    pub harness_errors: Vec<String>,
}

fn classify(stderr: &str) -> DeathKind {
    if stderr.contains("has overflowed its stack") || stderr.contains("stack overflow") {
        DeathKind::StackOverflow
    } else if stderr.contains("memory allocation of") || stderr.contains("capacity overflow") && stderr.contains("alloc") {
        DeathKind::AllocFailure
    } else {
        DeathKind::Other
    }
}

pub fn worker_args(spec: &Spec, a: u64, b: u64) -> Vec<String> {
    let mut v: Vec<String> = vec![
        "--prop".into(),
        spec.worker_prop.clone(),
        "--seed".into(),
        spec.seed.to_string(),
        "--tier".into(),
        spec.tier.clone(),
        "--set".into(),
        format!("range={a}..{b}"),
        "--set".into(),
        format!("cpu_budget={}", spec.cpu_budget_s),
        "--set".into(),
        format!("as_limit={}", spec.as_limit),
    ];
    for (k, x) in &spec.sets {
        v.push("--set".into());
        v.push(format!("{k}={x}"));
    }
    v
}

/// Name the recursion that overflows the stack in case `i`: run the worker
/// under gdb, take the innermost 400 frames at the SIGSEGV and return the most
/// frequent veryl_* function (hash suffix stripped) plus the functions of the
/// cycle.  None when gdb is missing or the run did not fault.
pub fn overflow_site(spec: &Spec, i: u64) -> Option<(String, Vec<String>)> {
    let mut cmd = Command::new("gdb");
    cmd.args(["-q", "-batch", "-ex", "run", "-ex", "bt 400", "--args"]);
    cmd.arg(&spec.exe);
    cmd.args(worker_args(spec, i, i + 1));
    cmd.env_remove("RUST_MIN_STACK");
    cmd.stdin(Stdio::null()).stdout(Stdio::piped()).stderr(Stdio::null());
    let mut child = cmd.spawn().ok()?;
    let mut out = child.stdout.take()?;
    let (tx, rx) = mpsc::channel::<String>();
    std::thread::spawn(move || {
        let mut s = String::new();
        let _ = out.read_to_string(&mut s);
        let _ = tx.send(s);
    });
    let text = match rx.recv_timeout(Duration::from_secs(600)) {
        Ok(t) => t,
        Err(_) => {
            let _ = child.kill();
            let _ = child.wait();
            return None;
        }
    };
    let _ = child.wait();
    if !text.contains("SIGSEGV") {
        return None;
    }
    let mut counts: HashMap<String, (usize, usize)> = HashMap::new(); // name → (count, first index)
    let mut n = 0usize;
    for line in text.lines() {
        let l = line.trim_start();
        if !l.starts_with('#') {
            continue;
        }
        let Some(k) = l.find(" in ") else { continue };
        let rest = &l[k + 4..];
        let name = rest.strip_suffix(" ()").unwrap_or(rest);
        let name = match name.rfind("::h") {
            Some(p) if name.len() - p == 19 => &name[..p],
            _ => name,
        };
        if !(name.starts_with("veryl_") || name.contains("veryl_")) {
            continue;
        }
        let e = counts.entry(name.to_string()).or_insert((0, n));
        e.0 += 1;
        n += 1;
    }
    let mut v: Vec<(String, (usize, usize))> = counts.into_iter().collect();
    if v.is_empty() {
        return None;
    }
    v.sort_by(|a, b| b.1.0.cmp(&a.1.0).then(a.1.1.cmp(&b.1.1)));
    let site = v[0].0.clone();
    let top = v[0].1.0;
    let cycle: Vec<String> = v.iter().filter(|x| x.1.0 * 3 >= top && x.1.0 >= 3).map(|x| trunc(&x.0, 200)).take(8).collect();
    Some((short_fn(&site), cycle))
}

/// Shorten a demangled Rust path for use in a signature: drop crate-internal
/// module paths of generic arguments, keep the function path.
pub fn short_fn(name: &str) -> String {
    let s = name.replace("veryl_parser::generated::veryl_grammar_trait::", "").replace("veryl_parser::veryl_walker::", "");
    trunc(&s, 160)
}

/// Run cases `a..b` in worker processes; `sink(i, outcome)` for every event.
/// Returns after every case in the range has either `Done` or a terminal outcome.
pub fn run_range(spec: &Spec, a: u64, b: u64, sink: &mut dyn FnMut(u64, Outcome)) -> BatchStats {
    let mut st = BatchStats::default();
    let mut start = a;
    let mut idle_failures = 0;
    while start < b {
        let mut cmd = Command::new(&spec.exe);
        cmd.args(worker_args(spec, start, b));
        cmd.stdin(Stdio::null()).stdout(Stdio::piped()).stderr(Stdio::piped());
        // the case threads set their stack sizes explicitly; do not let the
        // environment change anything else
        cmd.env_remove("RUST_MIN_STACK");
        cmd.env("RUST_BACKTRACE", "0");
        let mut child = match cmd.spawn() {
            Ok(c) => c,
            Err(e) => {
                st.harness_errors.push(format!("cannot spawn worker: {e}"));
                return st;
            }
        };
        st.workers_spawned += 1;
        let stdout = child.stdout.take().unwrap();
        let mut stderr = child.stderr.take().unwrap();
        let (tx, rx) = mpsc::channel::<String>();
        let reader = std::thread::spawn(move || {
            let r = BufReader::with_capacity(1 << 16, stdout);
            for line in r.lines() {
                let Ok(line) = line else { break };
                if tx.send(line).is_err() {
                    break;
                }
            }
        });
        let err_reader = std::thread::spawn(move || {
            let mut buf = Vec::new();
            let mut chunk = [0u8; 4096];
            loop {
                match stderr.read(&mut chunk) {
                    Ok(0) | Err(_) => break,
                    Ok(n) => {
                        buf.extend_from_slice(&chunk[..n]);
                        if buf.len() > 16384 {
                            let cut = buf.len() - 8192;
                            buf.drain(..cut);
                        }
                    }
                }
            }
            String::from_utf8_lossy(&buf).into_owned()
        });

        let mut current: Option<u64> = None;
        let mut stage = Json::Null;
        let mut next_expected = start;
        let mut terminal: Option<(u64, Outcome)> = None;
        let mut wall_killed = false;
        loop {
            match rx.recv_timeout(Duration::from_secs_f64(spec.wall_kill_s)) {
                Ok(line) => {
                    let Ok(v) = serde_json::from_str::<Json>(&line) else {
                        continue;
                    };
                    let i = v.get("i").and_then(|x| x.as_u64()).unwrap_or(u64::MAX);
                    match v.get("t").and_then(|x| x.as_str()).unwrap_or("") {
                        "begin" => {
                            current = Some(i);
                            stage = Json::Null;
                        }
                        "stage" => stage = v.clone(),
                        "res" => sink(i, Outcome::Res(v)),
                        "done" => {
                            sink(i, Outcome::Done(v));
                            current = None;
                            next_expected = i + 1;
                        }
                        "cpu_timeout" => {
                            terminal = Some((
                                i,
                                Outcome::CpuTimeout {
                                    stage: v.get("stage").and_then(|x| x.as_str()).unwrap_or("").to_string(),
                                    cpu_s: v.get("cpu_s").and_then(|x| x.as_f64()).unwrap_or(0.0),
                                    info: stage.clone(),
                                },
                            ));
                        }
                        _ => {}
                    }
                }
                Err(mpsc::RecvTimeoutError::Timeout) => {
                    let _ = child.kill();
                    wall_killed = true;
                    break;
                }
                Err(mpsc::RecvTimeoutError::Disconnected) => break,
            }
        }
        let status = child.wait();
        let _ = reader.join();
        let err_text = err_reader.join().unwrap_or_default();
        let (sig, code) = match &status {
            Ok(s) => (s.signal(), s.code()),
            Err(_) => (None, None),
        };
        if let Some((i, o)) = terminal {
            // the worker's own watchdog fired
            sink(i, o);
            start = i + 1;
            idle_failures = 0;
            continue;
        }
        if wall_killed {
            match current {
                Some(i) => {
                    sink(i, Outcome::WallTimeout { stage: stage.clone() });
                    start = i + 1;
                }
                None => {
                    st.harness_errors.push(format!("worker silent for {}s with no case in flight (range {start}..{b})", spec.wall_kill_s));
                    return st;
                }
            }
            continue;
        }
        if code == Some(0) && current.is_none() {
            if next_expected < b {
                st.harness_errors.push(format!("worker exited 0 after case {} of range ..{b}", next_expected));
            }
            break;
        }
        // abnormal end
        st.workers_died += 1;
        match current {
            Some(i) => {
                sink(
                    i,
                    Outcome::Died {
                        kind: classify(&err_text),
                        signal: sig,
                        code,
                        stage: stage.clone(),
                        stderr: trunc(err_text.trim(), 600),
                    },
                );
                start = i + 1;
                idle_failures = 0;
            }
            None => {
                idle_failures += 1;
                st.harness_errors.push(format!(
                    "worker ended (signal {sig:?}, code {code:?}) with no case in flight at {next_expected}: {}",
                    trunc(err_text.trim(), 300)
                ));
                if idle_failures >= 2 {
                    return st;
                }
                start = next_expected;
            }
        }
    }
    st
}

/// Run the single case `i` alone `times` times; returns the terminal outcome of each run.
pub fn confirm(spec: &Spec, i: u64, times: usize) -> Vec<Outcome> {
    let mut v = vec![];
    for _ in 0..times {
        let mut last: Option<Outcome> = None;
        let st = run_range(spec, i, i + 1, &mut |_, o| {
            if !matches!(o, Outcome::Res(_)) {
                last = Some(o);
            }
        });
        match last {
            Some(o) => v.push(o),
            None => v.push(Outcome::Died {
                kind: DeathKind::Other,
                signal: None,
                code: None,
                stage: Json::Null,
                stderr: format!("harness: {:?}", st.harness_errors),
            }),
        }
    }
    v
}

/// `confirm` for several (spec, case) pairs at once: every repetition is its own
/// process; budgets are CPU time, so running them side by side does not matter.
pub fn confirm_parallel(items: &[(Spec, u64)], times: usize, jobs: usize) -> Vec<Vec<Outcome>> {
    let work: Vec<(usize, usize)> = (0..items.len()).flat_map(|k| (0..times).map(move |r| (k, r))).collect();
    let next = AtomicU64::new(0);
    let results: Mutex<Vec<Vec<Outcome>>> = Mutex::new(vec![vec![]; items.len()]);
    std::thread::scope(|s| {
        for _ in 0..jobs.max(1).min(work.len().max(1)) {
            s.spawn(|| {
                loop {
                    let w = next.fetch_add(1, Ordering::Relaxed) as usize;
                    if w >= work.len() {
                        break;
                    }
                    let (k, _) = work[w];
                    let o = confirm(&items[k].0, items[k].1, 1).pop().unwrap();
                    results.lock().unwrap()[k].push(o);
                }
            });
        }
    });
    results.into_inner().unwrap()
}

/// Signatures listed as "known" for `prop` in the known-findings file.
pub fn known_signatures(path: &std::path::Path, prop: &str) -> std::collections::HashSet<String> {
    let mut out = std::collections::HashSet::new();
    if let Ok(t) = std::fs::read_to_string(path)
        && let Ok(v) = serde_json::from_str::<Json>(&t)
        && let Some(list) = v.get("findings").and_then(|x| x.as_array())
    {
        for f in list {
            if f.get("property").and_then(|x| x.as_str()) == Some(prop) && f.get("status").and_then(|x| x.as_str()) == Some("known") {
                if let Some(s) = f.get("signature").and_then(|x| x.as_str()) {
                    out.insert(s.to_string());
                }
            }
        }
    }
    out
}

/// Distribute `ranges` over `jobs` orchestrator threads.
pub fn run_parallel<F>(spec: &Spec, ranges: Vec<(u64, u64)>, jobs: usize, sink: F) -> BatchStats
where
    F: Fn(u64, Outcome) + Sync,
{
    let next = AtomicU64::new(0);
    let total = Mutex::new(BatchStats::default());
    std::thread::scope(|s| {
        for _ in 0..jobs.max(1) {
            s.spawn(|| {
                loop {
                    let k = next.fetch_add(1, Ordering::Relaxed) as usize;
                    if k >= ranges.len() {
                        break;
                    }
                    let (a, b) = ranges[k];
                    let st = run_range(spec, a, b, &mut |i, o| sink(i, o));
                    let mut t = total.lock().unwrap();
                    t.workers_spawned += st.workers_spawned;
                    t.workers_died += st.workers_died;
                    t.harness_errors.extend(st.harness_errors);
                }
            });
        }
    });
    total.into_inner().unwrap()
}

pub fn split_ranges(a: u64, b: u64, batch: u64) -> Vec<(u64, u64)> {
    let mut v = vec![];
    let mut x = a;
    while x < b {
        let y = (x + batch.max(1)).min(b);
        v.push((x, y));
        x = y;
    }
    v
}

/// Write `cases` (a JSON array) to a scratch file for file-mode workers.
pub fn write_case_file(tag: &str, cases: &Json) -> PathBuf {
    let dir = PathBuf::from(format!("/verif/scratch/mon_crash_{}", std::process::id()));
    let _ = std::fs::create_dir_all(&dir);
    static N: AtomicU64 = AtomicU64::new(0);
    let p = dir.join(format!("{tag}_{}.json", N.fetch_add(1, Ordering::Relaxed)));
    std::fs::write(&p, serde_json::to_string(cases).unwrap()).expect("write case file");
    p
}

pub fn cleanup_scratch() {
    let dir = PathBuf::from(format!("/verif/scratch/mon_crash_{}", std::process::id()));
    let _ = std::fs::remove_dir_all(dir);
}

/// Classic ddmin over a list of chunks; `test(candidate)` returns true when the
/// failure still reproduces.  Bounded by `max_tests` predicate evaluations.
pub fn ddmin<T: Clone>(items: Vec<T>, max_tests: usize, test: &mut dyn FnMut(&[T]) -> bool) -> Vec<T> {
    let mut cur = items;
    let mut n = 2usize;
    let mut tests = 0usize;
    while cur.len() >= 2 && tests < max_tests {
        let chunk = cur.len().div_ceil(n);
        let mut reduced = false;
        // try complements (remove one chunk)
        let mut k = 0;
        while k * chunk < cur.len() && tests < max_tests {
            let lo = k * chunk;
            let hi = (lo + chunk).min(cur.len());
            let mut cand = Vec::with_capacity(cur.len() - (hi - lo));
            cand.extend_from_slice(&cur[..lo]);
            cand.extend_from_slice(&cur[hi..]);
            tests += 1;
            if !cand.is_empty() && test(&cand) {
                cur = cand;
                n = n.saturating_sub(1).max(2);
                reduced = true;
                break;
            }
            k += 1;
        }
        if !reduced {
            if n >= cur.len() {
                break;
            }
            n = (n * 2).min(cur.len());
        }
    }
    cur
}
