//! C20 — invariant walk over a `GateModule` and independent recomputation of the
//! area / timing reports.  Nothing here calls the synthesizer's analysis code;
//! library figures are read through the public `CellLibrary` accessors only.

use crate::gateval::{ALL_KINDS, arity_by_name};
use std::collections::HashMap;
use veryl_synthesizer::analysis::{AreaReport, Endpoint, StepKind, TimingReport};
use veryl_synthesizer::ir::{CellKind, GateModule, NetDriver, NetId, PortDir};
use veryl_synthesizer::library::CellLibrary;

#[derive(Clone, Debug)]
pub struct Finding {
    /// stable class name (part of the violation signature)
    pub class: String,
    pub detail: String,
}

#[derive(Default, Clone, Debug)]
pub struct WfStats {
    pub nets: u64,
    pub used_nets: u64,
    pub cells: u64,
    pub ffs: u64,
    pub ram_blocks: u64,
    pub compound_cells: u64,
    pub path_steps: u64,
    pub path_nonempty: bool,
    pub path_through_ram: bool,
    pub depth_is_path_stages: bool,
    pub depth_is_endpoint_levels: bool,
    pub depth_is_global_levels: bool,
    pub depth: usize,
    pub delay: f64,
    pub kinds: Vec<&'static str>,
    /// longest arrival at a pin the report does not treat as an endpoint (FF reset pin …) exceeded the report
    pub non_endpoint_pin_longer: bool,
}

fn f(class: &str, detail: String) -> Finding {
    Finding { class: class.to_string(), detail }
}

fn close(a: f64, b: f64) -> bool {
    let scale = a.abs().max(b.abs());
    (a - b).abs() <= 1e-9 * scale + 1e-12
}

#[derive(Clone, Copy, PartialEq, Eq, Debug)]
enum Sd {
    Const,
    Input,
    Cell(usize),
    Ff(usize),
    Ram(usize, usize, usize),
}

pub fn check(m: &GateModule, area: &AreaReport, timing: &TimingReport, lib: &dyn CellLibrary) -> (Vec<Finding>, WfStats) {
    let mut out: Vec<Finding> = vec![];
    let mut st = WfStats::default();
    let n = m.nets.len();
    st.nets = n as u64;
    st.cells = m.cells.len() as u64;
    st.ffs = m.ffs.len() as u64;
    st.ram_blocks = m.ram_blocks.len() as u64;

    // ---- (1) ids in range -------------------------------------------------
    let mut range_ok = true;
    let mut chk = |net: NetId, what: String, out: &mut Vec<Finding>| {
        if net as usize >= n {
            range_ok = false;
            if out.len() < 20 {
                out.push(f("net-id-out-of-range", format!("{what} references n{net} but the module has {n} nets")));
            }
        }
    };
    for (i, c) in m.cells.iter().enumerate() {
        chk(c.output, format!("cell{i} output"), &mut out);
        for &x in &c.inputs {
            chk(x, format!("cell{i} input"), &mut out);
        }
    }
    for (i, ff) in m.ffs.iter().enumerate() {
        chk(ff.clock, format!("ff{i} clock"), &mut out);
        chk(ff.d, format!("ff{i} d"), &mut out);
        chk(ff.q, format!("ff{i} q"), &mut out);
        if let Some(r) = &ff.reset {
            chk(r.net, format!("ff{i} reset"), &mut out);
        }
    }
    for (ri, r) in m.ram_blocks.iter().enumerate() {
        chk(r.clock, format!("ram{ri} clock"), &mut out);
        for (pi, wp) in r.write_ports.iter().enumerate() {
            for &x in wp.addr.iter().chain(wp.data.iter()).chain(std::iter::once(&wp.enable)).chain(wp.mask.iter().flatten()) {
                chk(x, format!("ram{ri} w{pi}"), &mut out);
            }
        }
        for (pi, rp) in r.read_ports.iter().enumerate() {
            for &x in rp.addr.iter().chain(rp.data.iter()) {
                chk(x, format!("ram{ri} r{pi}"), &mut out);
            }
        }
    }
    for p in &m.ports {
        for &x in &p.nets {
            chk(x, format!("port {}", p.name), &mut out);
        }
    }
    if n < 2 {
        out.push(f("reserved-nets-missing", format!("module has {n} nets; nets 0/1 are the constant rails")));
        return (out, st);
    }
    if !range_ok {
        return (out, st); // everything below indexes by net id
    }

    // ---- (2) arity ---------------------------------------------------------
    for &k in ALL_KINDS.iter() {
        if k.arity() != arity_by_name(k) {
            out.push(f("arity-table", format!("CellKind::{k:?}.arity() = {} but the cell has {} pins by definition", k.arity(), arity_by_name(k))));
        }
    }
    let mut kinds_seen: Vec<&'static str> = vec![];
    for (i, c) in m.cells.iter().enumerate() {
        if c.inputs.len() != c.kind.arity() {
            out.push(f("cell-arity", format!("cell{i} {} has {} inputs, arity is {}", c.kind.symbol(), c.inputs.len(), c.kind.arity())));
        }
        if !kinds_seen.contains(&c.kind.symbol()) {
            kinds_seen.push(c.kind.symbol());
        }
        if arity_by_name(c.kind) >= 3 && c.kind != CellKind::Mux2 {
            st.compound_cells += 1;
        }
    }
    st.kinds = kinds_seen;

    // ---- (3) structural drivers ---------------------------------------------
    let mut drivers: Vec<Vec<Sd>> = vec![Vec::new(); n];
    drivers[0].push(Sd::Const);
    drivers[1].push(Sd::Const);
    for p in &m.ports {
        if matches!(p.dir, PortDir::Input | PortDir::Inout) {
            for &net in &p.nets {
                if !drivers[net as usize].contains(&Sd::Input) {
                    drivers[net as usize].push(Sd::Input);
                }
            }
        }
    }
    for (i, c) in m.cells.iter().enumerate() {
        drivers[c.output as usize].push(Sd::Cell(i));
    }
    for (i, ff) in m.ffs.iter().enumerate() {
        drivers[ff.q as usize].push(Sd::Ff(i));
    }
    for (ri, r) in m.ram_blocks.iter().enumerate() {
        for (pi, rp) in r.read_ports.iter().enumerate() {
            for (bi, &net) in rp.data.iter().enumerate() {
                drivers[net as usize].push(Sd::Ram(ri, pi, bi));
            }
        }
    }
    let mut used = vec![false; n];
    let mut used_by: HashMap<usize, String> = HashMap::new();
    {
        let mut mark = |net: NetId, who: String| {
            if !used[net as usize] {
                used[net as usize] = true;
                used_by.insert(net as usize, who);
            }
        };
        for (i, c) in m.cells.iter().enumerate() {
            for &x in &c.inputs {
                mark(x, format!("cell{i} {}", c.kind.symbol()));
            }
        }
        for (i, ff) in m.ffs.iter().enumerate() {
            mark(ff.d, format!("ff{i}.d"));
            mark(ff.clock, format!("ff{i}.clock"));
            if let Some(r) = &ff.reset {
                mark(r.net, format!("ff{i}.reset"));
            }
        }
        m.for_each_ram_input_net(|x| mark(x, "ram input".to_string()));
        for p in &m.ports {
            if matches!(p.dir, PortDir::Output | PortDir::Inout) {
                for &x in &p.nets {
                    mark(x, format!("output port {}", p.name));
                }
            }
        }
    }
    for i in 0..n {
        if used[i] {
            st.used_nets += 1;
        }
        let k = drivers[i].len();
        if k > 1 {
            out.push(f(
                "net-multiple-drivers",
                format!("net n{i} is driven by {k} elements: {:?}{}", drivers[i], if used[i] { "" } else { " (net is not read)" }),
            ));
        } else if k == 0 && used[i] {
            out.push(f("used-net-undriven", format!("net n{i} is read by {} but nothing drives it", used_by.get(&i).cloned().unwrap_or_default())));
        }
        if out.len() > 40 {
            break;
        }
    }

    // ---- (4) NetDriver bookkeeping ------------------------------------------
    for i in 0..n {
        let rec = &m.nets[i].driver;
        let ok = match rec {
            NetDriver::Const(b) => i == (*b as usize),
            NetDriver::PortInput => drivers[i].contains(&Sd::Input),
            NetDriver::Cell(ci) => *ci < m.cells.len() && m.cells[*ci].output as usize == i,
            NetDriver::FfQ(fi) => *fi < m.ffs.len() && m.ffs[*fi].q as usize == i,
            NetDriver::RamRead(r, p, b) => m
                .ram_blocks
                .get(*r)
                .and_then(|x| x.read_ports.get(*p))
                .and_then(|x| x.data.get(*b))
                .map(|&d| d as usize == i)
                .unwrap_or(false),
            NetDriver::Undriven => drivers[i].is_empty(),
        };
        if !ok && out.len() < 60 {
            out.push(f(
                "netdriver-bookkeeping",
                format!("net n{i} records driver {rec:?} but the structure says {:?}{}", drivers[i], if used[i] { "" } else { " (net is not read)" }),
            ));
        }
    }

    // ---- (5) no combinational cycle; levelise --------------------------------
    // node ids: cells 0..C, then async RAM read ports
    let ncell = m.cells.len();
    let mut ram_nodes: Vec<(usize, usize)> = vec![];
    let mut ram_node_of: HashMap<(usize, usize), usize> = HashMap::new();
    for (ri, r) in m.ram_blocks.iter().enumerate() {
        for (pi, rp) in r.read_ports.iter().enumerate() {
            if !rp.sync {
                ram_node_of.insert((ri, pi), ncell + ram_nodes.len());
                ram_nodes.push((ri, pi));
            }
        }
    }
    let nnode = ncell + ram_nodes.len();
    let node_inputs = |nd: usize| -> &[NetId] {
        if nd < ncell {
            &m.cells[nd].inputs
        } else {
            let (ri, pi) = ram_nodes[nd - ncell];
            &m.ram_blocks[ri].read_ports[pi].addr
        }
    };
    let node_of_net = |net: NetId| -> Option<usize> {
        // first structural driver decides (multiple drivers were reported above)
        match drivers[net as usize].first() {
            Some(Sd::Cell(c)) => Some(*c),
            Some(Sd::Ram(r, p, _)) => ram_node_of.get(&(*r, *p)).copied(),
            _ => None,
        }
    };
    let mut indeg = vec![0u32; nnode];
    let mut succ: Vec<Vec<u32>> = vec![Vec::new(); nnode];
    for nd in 0..nnode {
        for &inp in node_inputs(nd) {
            if let Some(src) = node_of_net(inp) {
                succ[src].push(nd as u32);
                indeg[nd] += 1;
            }
        }
    }
    let mut order: Vec<usize> = Vec::with_capacity(nnode);
    let mut queue: Vec<usize> = (0..nnode).filter(|&i| indeg[i] == 0).collect();
    let mut head = 0;
    while head < queue.len() {
        let x = queue[head];
        head += 1;
        order.push(x);
        for &s in &succ[x] {
            indeg[s as usize] -= 1;
            if indeg[s as usize] == 0 {
                queue.push(s as usize);
            }
        }
    }
    let acyclic = order.len() == nnode;
    if !acyclic {
        let stuck: Vec<String> = (0..nnode)
            .filter(|&i| indeg[i] > 0)
            .take(6)
            .map(|i| if i < ncell { format!("cell{i} {}", m.cells[i].kind.symbol()) } else { format!("ram read {:?}", ram_nodes[i - ncell]) })
            .collect();
        out.push(f("combinational-cycle", format!("{} of {nnode} combinational nodes lie on or behind a cycle, e.g. {}", nnode - order.len(), stuck.join(", "))));
    }

    // ---- (6) area ------------------------------------------------------------
    {
        let mut comb = 0.0f64;
        let mut per_kind: HashMap<&'static str, (usize, f64)> = HashMap::new();
        for c in &m.cells {
            let a = lib.info(c.kind).area;
            comb += a;
            let e = per_kind.entry(c.kind.symbol()).or_insert((0, 0.0));
            e.0 += 1;
            e.1 += a;
        }
        let seq = m.ffs.len() as f64 * lib.ff_area();
        let bits: usize = m.ram_blocks.iter().map(|r| r.depth * r.width).sum();
        let mem = bits as f64 * lib.sram_model().bit_area;
        let total = comb + seq + mem;
        let mut cmp = |name: &str, got: f64, want: f64| {
            if !close(got, want) {
                out.push(f(&format!("area-{name}"), format!("AreaReport.{name} = {got} but Σ library areas = {want} ({} cells, {} FFs, {bits} RAM bits)", m.cells.len(), m.ffs.len())));
            }
        };
        cmp("total", area.total, total);
        cmp("combinational", area.combinational, comb);
        cmp("sequential", area.sequential, seq);
        cmp("memory", area.memory, mem);
        if area.ff_count != m.ffs.len() {
            out.push(f("area-ff_count", format!("AreaReport.ff_count = {} but the netlist has {} FFs", area.ff_count, m.ffs.len())));
        }
        if area.ram_bits != bits {
            out.push(f("area-ram_bits", format!("AreaReport.ram_bits = {} but the RAM blocks store {bits} bits", area.ram_bits)));
        }
        let mut rows = 0usize;
        for (kind, count, a) in &area.by_kind {
            rows += count;
            match per_kind.get(kind.symbol()) {
                Some((c, ar)) if c == count && close(*a, *ar) => {}
                other => out.push(f("area-by_kind", format!("AreaReport.by_kind row {} ×{count} area {a} but the netlist has {other:?}", kind.symbol()))),
            }
        }
        if rows != m.cells.len() || area.by_kind.len() != per_kind.len() {
            out.push(f("area-by_kind", format!("AreaReport.by_kind covers {rows} cells in {} rows; the netlist has {} cells of {} kinds", area.by_kind.len(), m.cells.len(), per_kind.len())));
        }
    }

    // ---- (7) timing ----------------------------------------------------------
    if acyclic {
        let sram = lib.sram_model();
        let node_delay = |nd: usize| -> f64 {
            if nd < ncell {
                lib.info(m.cells[nd].kind).delay
            } else {
                let depth = m.ram_blocks[ram_nodes[nd - ncell].0].depth;
                sram.access_base + sram.access_per_log2_depth * (depth.max(2) as f64).log2()
            }
        };
        let node_outputs = |nd: usize| -> Vec<NetId> {
            if nd < ncell {
                vec![m.cells[nd].output]
            } else {
                let (ri, pi) = ram_nodes[nd - ncell];
                m.ram_blocks[ri].read_ports[pi].data.clone()
            }
        };
        let mut arr = vec![0.0f64; n];
        let mut lvl = vec![0usize; n]; // stages, Buf not counted
        let mut lvl_b = vec![0usize; n]; // stages, Buf counted
        for &nd in &order {
            let mut a = 0.0f64;
            let mut l = 0usize;
            let mut lb = 0usize;
            for &inp in node_inputs(nd) {
                a = a.max(arr[inp as usize]);
                l = l.max(lvl[inp as usize]);
                lb = lb.max(lvl_b[inp as usize]);
            }
            let is_buf = nd < ncell && m.cells[nd].kind == CellKind::Buf;
            for o in node_outputs(nd) {
                arr[o as usize] = a + node_delay(nd);
                lvl[o as usize] = l + usize::from(!is_buf);
                lvl_b[o as usize] = lb + 1;
            }
        }
        // endpoints as the report defines them: FF D, output/inout port bits, RAM write-port pins
        let mut endpoints: Vec<NetId> = vec![];
        for ff in &m.ffs {
            endpoints.push(ff.d);
        }
        for p in &m.ports {
            if matches!(p.dir, PortDir::Output | PortDir::Inout) {
                endpoints.extend(p.nets.iter().copied());
            }
        }
        for r in &m.ram_blocks {
            for wp in &r.write_ports {
                endpoints.extend(wp.addr.iter().chain(wp.data.iter()).chain(std::iter::once(&wp.enable)).chain(wp.mask.iter().flatten()).copied());
            }
        }
        let worst = endpoints.iter().map(|&e| arr[e as usize]).fold(0.0f64, f64::max);
        let global_lvl = endpoints.iter().map(|&e| lvl[e as usize]).max().unwrap_or(0);
        let global_lvl_b = endpoints.iter().map(|&e| lvl_b[e as usize]).max().unwrap_or(0);
        // pins the report does not list as endpoints (FF clock/reset, RAM clock, async read address with unused data)
        let mut other_worst = 0.0f64;
        for ff in &m.ffs {
            other_worst = other_worst.max(arr[ff.clock as usize]);
            if let Some(r) = &ff.reset {
                other_worst = other_worst.max(arr[r.net as usize]);
            }
        }
        st.non_endpoint_pin_longer = other_worst > worst + 1e-9;
        st.delay = timing.critical_path_delay;
        st.depth = timing.critical_path_depth;

        if !close(timing.critical_path_delay, worst) {
            out.push(f(
                "timing-delay",
                format!(
                    "TimingReport.critical_path_delay = {} but the longest arrival over {} endpoints is {} (independent longest-path)",
                    timing.critical_path_delay,
                    endpoints.len(),
                    worst
                ),
            ));
        }
        let path = &timing.critical_path;
        st.path_steps = path.len() as u64;
        if endpoints.is_empty() {
            if !path.is_empty() || timing.critical_path_depth != 0 {
                out.push(f("timing-path-without-endpoints", format!("netlist has no endpoints but the report has {} steps / depth {}", path.len(), timing.critical_path_depth)));
            }
        } else if path.is_empty() {
            out.push(f("timing-path-missing", format!("netlist has {} endpoints but the report carries no critical path", endpoints.len())));
        } else {
            st.path_nonempty = true;
            // step kinds agree with the structure
            for (k, s) in path.iter().enumerate() {
                if s.net as usize >= n {
                    out.push(f("timing-path-net-range", format!("step {k} names n{} (module has {n} nets)", s.net)));
                    return (out, st);
                }
                let ok = match &s.kind {
                    StepKind::StartPoint => !matches!(drivers[s.net as usize].first(), Some(Sd::Cell(_)) | Some(Sd::Ff(_))),
                    StepKind::FfOutput(i) => m.ffs.get(*i).map(|x| x.q == s.net).unwrap_or(false),
                    StepKind::CellOutput(i, kind) => m.cells.get(*i).map(|c| c.output == s.net && c.kind == *kind).unwrap_or(false),
                    StepKind::RamReadOutput(r) => m.ram_blocks.get(*r).map(|x| x.read_ports.iter().any(|p| p.data.contains(&s.net))).unwrap_or(false),
                    StepKind::FfInput(i) => m.ffs.get(*i).map(|x| x.d == s.net).unwrap_or(false),
                    StepKind::PortOutput => m.ports.iter().any(|p| matches!(p.dir, PortDir::Output | PortDir::Inout) && p.nets.contains(&s.net)),
                    StepKind::RamWriteInput(r) => m
                        .ram_blocks
                        .get(*r)
                        .map(|x| x.write_ports.iter().any(|wp| wp.addr.contains(&s.net) || wp.data.contains(&s.net) || wp.enable == s.net || wp.mask.iter().flatten().any(|&q| q == s.net)))
                        .unwrap_or(false),
                };
                if !ok {
                    out.push(f("timing-path-step-kind", format!("step {k} ({:?} at n{}) does not match the netlist", s.kind, s.net)));
                }
            }
            // the last step is the endpoint marker; the steps before it are nets along the path
            let last = path.last().unwrap();
            let is_end_kind = matches!(last.kind, StepKind::FfInput(_) | StepKind::PortOutput | StepKind::RamWriteInput(_));
            if !is_end_kind {
                out.push(f("timing-path-end", format!("the path ends in {:?}, not at an endpoint", last.kind)));
            }
            match (&timing.endpoint, &last.kind) {
                (Some(Endpoint::Ff(a)), StepKind::FfInput(b)) if a == b => {}
                (Some(Endpoint::Port), StepKind::PortOutput) => {}
                (Some(Endpoint::RamWrite(a)), StepKind::RamWriteInput(b)) if a == b => {}
                (e, k) => out.push(f("timing-endpoint-mismatch", format!("TimingReport.endpoint = {e:?} but the path ends in {k:?}"))),
            }
            let nets: Vec<NetId> = {
                let mut v: Vec<NetId> = path.iter().map(|s| s.net).collect();
                if is_end_kind && v.len() >= 2 && v[v.len() - 1] == v[v.len() - 2] {
                    v.pop();
                } else if is_end_kind && v.len() >= 2 {
                    out.push(f("timing-path-connectivity", format!("endpoint marker n{} does not repeat the last path net n{}", v[v.len() - 1], v[v.len() - 2])));
                }
                v
            };
            // connectivity + the path's own delay / stage count
            let mut sum = 0.0f64;
            let mut stages = 0usize;
            let mut stages_b = 0usize;
            let mut connected = true;
            let first = nets[0];
            if node_of_net(first).is_some() {
                out.push(f("timing-path-start", format!("the path starts at n{first}, which is driven by combinational logic (not a start point)")));
            }
            for w in nets.windows(2) {
                let (a, b) = (w[0], w[1]);
                match node_of_net(b) {
                    Some(nd) if node_inputs(nd).contains(&a) => {
                        sum += node_delay(nd);
                        let is_buf = nd < ncell && m.cells[nd].kind == CellKind::Buf;
                        stages += usize::from(!is_buf);
                        stages_b += 1;
                        if nd >= ncell {
                            st.path_through_ram = true;
                        }
                    }
                    _ => {
                        connected = false;
                        out.push(f("timing-path-connectivity", format!("consecutive path nets n{a} → n{b}: n{b}'s driver does not read n{a}")));
                        break;
                    }
                }
            }
            if connected {
                if !close(sum, timing.critical_path_delay) {
                    out.push(f(
                        "timing-path-delay",
                        format!("the reported path accumulates {sum} ns of cell delay but critical_path_delay = {}", timing.critical_path_delay),
                    ));
                }
                for s in path.iter() {
                    if !close(s.arrival, arr[s.net as usize]) {
                        out.push(f("timing-step-arrival", format!("step at n{} reports arrival {} but the longest arrival there is {}", s.net, s.arrival, arr[s.net as usize])));
                        break;
                    }
                }
                let end = *nets.last().unwrap();
                let d = timing.critical_path_depth;
                st.depth_is_path_stages = d == stages || d == stages_b;
                st.depth_is_endpoint_levels = d == lvl[end as usize] || d == lvl_b[end as usize];
                st.depth_is_global_levels = d == global_lvl || d == global_lvl_b;
                if !(st.depth_is_path_stages || st.depth_is_endpoint_levels || st.depth_is_global_levels) {
                    out.push(f(
                        "timing-depth",
                        format!(
                            "critical_path_depth = {d}; stages on the reported path = {stages} (with Buf {stages_b}), most levels into its endpoint = {}, most levels into any endpoint = {global_lvl}",
                            lvl[end as usize]
                        ),
                    ));
                }
            }
        }
    }
    (out, st)
}
