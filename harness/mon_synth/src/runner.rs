//! One workload case end to end: generate → real analyzer → RTL trace from the
//! real simulator → real synthesizer per (library × RamConfig) → gateval trace
//! compare (C19) and/or invariant walk (C20).  Must run on a fresh thread.

use crate::gateval::{Eval, EvalError, EvalStats, X};
use crate::wellformed::{Finding, WfStats};
use crate::workload::{Case, LIBS, gen_case, ram_configs, reset_active_high};
use vcommon::pipeline::{analyze_one, default_metadata};
use vcommon::rng::hash_str;
use vcommon::{Json, Rng, json};
use veryl_simulator::Config;
use veryl_synthesizer::ir::{GateModule, PortDir};
use veryl_synthesizer::{SynthesizerError, library_for, synthesize_with};
use vgen::sim::{Stimulus, TVal, Trace, stimulus};
use vgen::Design;

#[derive(Clone, Debug)]
pub struct Opts {
    pub cycles: usize,
    pub thorough: bool,
    pub do_eval: bool,
    pub do_wf: bool,
    /// indices into LIBS
    pub libs: Vec<usize>,
    /// at most this many RamConfigs per case (env arms use fewer)
    pub max_ram_cfgs: usize,
    pub arm: String,
    /// test-only: sabotage of the harness side to prove the monitor can fire
    pub sabotage: Option<String>,
}

#[derive(Clone, Debug)]
pub struct Mismatch {
    pub cycle: usize,
    pub output: String,
    pub bit: usize,
    pub gate: String,
    pub rtl: String,
    pub in_reset_cycle: bool,
    /// every output that differs in that cycle
    pub all_outputs: Vec<String>,
}

#[derive(Clone, Debug, Default)]
pub struct GateRun {
    pub bits_compared: u64,
    pub bits_gate_x: u64,
    pub bits_rtl_xz: u64,
    pub cycles: usize,
    pub mismatch: Option<Mismatch>,
    pub stats: EvalStats,
}

#[derive(Clone, Debug, Default)]
pub struct NetlistInfo {
    pub cells: usize,
    pub ffs: usize,
    pub rams: usize,
    pub ram_bits: usize,
    pub ram_read_ports: usize,
    pub ram_write_ports: usize,
    pub ram_masked_ports: usize,
    pub compound: usize,
    pub mux2: usize,
    pub ffs_without_reset: usize,
    pub ffs_reset_to_one: usize,
    pub ff_flavours: Vec<String>,
}

pub struct ConfigOut {
    pub lib: &'static str,
    pub ram_cfg: String,
    pub synth_err: Option<String>,
    pub info: NetlistInfo,
    pub eval: Option<Result<GateRun, String>>,
    pub wf: Option<(Vec<Finding>, WfStats)>,
    pub secs: f64,
}

pub struct CaseOut {
    pub i: u64,
    pub kind: String,
    pub status: String,
    pub design: Option<Design>,
    pub stim: Option<Stimulus>,
    pub rtl_varies: bool,
    pub cfgs: Vec<ConfigOut>,
    /// other simulator engines (no FF optimisation / JIT / 4-state) do not reproduce the reference
    /// trace up to the first mismatching cycle: the RTL side is not trustworthy for this design
    pub rtl_engines_disagree: Option<String>,
    /// instances with at least one port tied to a constant / partly constant value (hierarchy templates)
    pub const_tied: usize,
    /// compound cells (AO21/AO22/OA21/… and AND3/OR3 families) in the children's own netlists, i.e. cells that
    /// already exist when the parent flattens the child and ties its inputs; (all compound, AO22 only)
    pub child_compound: (usize, usize),
    /// construction-time counters of the case (see `workload::Case::counters`)
    pub counters: Vec<(String, i64)>,
}

pub fn netlist_info(m: &GateModule) -> NetlistInfo {
    let mut n = NetlistInfo { cells: m.cells.len(), ffs: m.ffs.len(), rams: m.ram_blocks.len(), ..Default::default() };
    for c in &m.cells {
        let a = crate::gateval::arity_by_name(c.kind);
        if c.kind == veryl_synthesizer::ir::CellKind::Mux2 {
            n.mux2 += 1;
        } else if a >= 3 {
            n.compound += 1;
        }
    }
    for f in &m.ffs {
        match &f.reset {
            None => n.ffs_without_reset += 1,
            Some(r) => {
                let s = format!("{}-{}-{}", f.clock_edge, r.polarity, if r.sync { "sync" } else { "async" });
                if !n.ff_flavours.contains(&s) {
                    n.ff_flavours.push(s);
                }
            }
        }
        if f.reset_value {
            n.ffs_reset_to_one += 1;
        }
    }
    for r in &m.ram_blocks {
        n.ram_bits += r.depth * r.width;
        n.ram_read_ports += r.read_ports.len();
        n.ram_write_ports += r.write_ports.len();
        n.ram_masked_ports += r.write_ports.iter().filter(|w| w.mask.is_some()).count();
    }
    n
}

fn tbit(v: &TVal, b: usize) -> (u8, bool) {
    let w = b / 64;
    let s = b % 64;
    (((v.payload[w] >> s) & 1) as u8, (v.xz[w] >> s) & 1 == 1)
}

fn trits(ev: &Eval, nets: &[u32]) -> String {
    nets.iter().rev().map(|&n| match ev.get(n) { 0 => '0', 1 => '1', _ => 'x' }).collect()
}

/// Drive the netlist with the same protocol `vgen::sim::run_on` uses on the RTL:
/// set data inputs, one clock edge (reset held at its active level around the
/// edge in reset cycles), reset released, sample outputs.
pub fn run_gate(m: &GateModule, d: &Design, stim: &Stimulus, rtl: &Trace, rst_high: bool, sabotage: Option<&str>) -> Result<GateRun, EvalError> {
    let mut ev = Eval::new(m)?;
    let find = |name: &str, dir_in: bool| {
        m.ports.iter().find(|p| p.path.len() == 1 && p.name.to_string() == name && (matches!(p.dir, PortDir::Input) == dir_in))
    };
    let clk = find(&d.clock, true).and_then(|p| p.nets.first().copied());
    let rst = find(&d.reset, true).and_then(|p| p.nets.first().copied());
    if let Some(c) = clk {
        ev.check_single_clock(c)?;
        ev.set(c, 0);
    } else if !m.ffs.is_empty() || !m.ram_blocks.is_empty() {
        return Err(EvalError::Unsupported("state elements but no clock port".into()));
    }
    let mut in_nets = vec![];
    for p in &d.inputs {
        let gp = find(&p.name, true).ok_or_else(|| EvalError::Unsupported(format!("input port {} missing in netlist", p.name)))?;
        if gp.nets.len() != p.width {
            return Err(EvalError::Unsupported(format!("input port {} has {} nets, design says {}", p.name, gp.nets.len(), p.width)));
        }
        in_nets.push(gp.nets.clone());
    }
    let mut out_nets = vec![];
    for p in &d.outputs {
        let gp = find(&p.name, false).ok_or_else(|| EvalError::Unsupported(format!("output port {} missing in netlist", p.name)))?;
        if gp.nets.len() != p.width {
            return Err(EvalError::Unsupported(format!("output port {} has {} nets, design says {}", p.name, gp.nets.len(), p.width)));
        }
        out_nets.push(gp.nets.clone());
    }
    let (lvl_on, lvl_off) = if rst_high { (1u8, 0u8) } else { (0u8, 1u8) };
    if let Some(r) = rst {
        ev.set(r, lvl_off);
    }
    let mut run = GateRun::default();
    for (c, cyc) in stim.cycles.iter().enumerate() {
        for (k, v) in cyc.inputs.iter().enumerate() {
            for (b, &net) in in_nets[k].iter().enumerate() {
                ev.set(net, tbit(v, b).0);
            }
        }
        if let Some(r) = rst {
            ev.set(r, if cyc.reset { lvl_on } else { lvl_off });
        }
        ev.clock_edge()?;
        if let Some(r) = rst {
            ev.set(r, lvl_off);
        }
        ev.settle_with_async()?;
        run.cycles += 1;
        let row = &rtl.steps[c];
        for (o, nets) in out_nets.iter().enumerate() {
            for (b, &net) in nets.iter().enumerate() {
                let (rb, rx) = tbit(&row[o], b);
                if rx {
                    run.bits_rtl_xz += 1;
                    continue;
                }
                let mut g = ev.get(net);
                if g == X {
                    run.bits_gate_x += 1;
                    continue;
                }
                if sabotage == Some("flip_output_bit") && c == 7 && o == 0 && b == 0 {
                    g ^= 1;
                }
                run.bits_compared += 1;
                if g != rb && run.mismatch.is_none() {
                    run.mismatch = Some(Mismatch {
                        cycle: c,
                        output: d.outputs[o].name.clone(),
                        bit: b,
                        gate: format!("{}'b{}", nets.len(), trits(&ev, nets)),
                        rtl: row[o].hex(),
                        in_reset_cycle: cyc.reset,
                        all_outputs: vec![],
                    });
                }
                if g != rb
                    && let Some(mm) = run.mismatch.as_mut()
                    && !mm.all_outputs.contains(&d.outputs[o].name)
                {
                    mm.all_outputs.push(d.outputs[o].name.clone());
                }
            }
        }
        if run.mismatch.is_some() {
            break;
        }
    }
    run.stats = ev.stats.clone();
    Ok(run)
}

pub fn synth_err_class(e: &SynthesizerError) -> String {
    match e {
        SynthesizerError::TopModuleNotFound { .. } => "top_module_not_found".into(),
        SynthesizerError::Unsupported { kind, .. } => {
            let s = format!("{kind:?}");
            let head: String = s.chars().take_while(|c| c.is_alphanumeric()).collect();
            format!("unsupported:{head}")
        }
        SynthesizerError::UnknownWidth { .. } => "unknown_width".into(),
        SynthesizerError::DynamicSelect { .. } => "dynamic_select".into(),
        SynthesizerError::Internal { message } => format!("internal:{}", message.chars().take(60).collect::<String>()),
    }
}

pub fn rst_is_high(d: &Design) -> bool {
    reset_active_high(&d.text)
}

pub fn run_case(seed: u64, i: u64, o: &Opts) -> CaseOut {
    let case: Case = gen_case(seed, i);
    run_prepared(seed, i, case, o)
}

pub fn run_prepared(seed: u64, i: u64, case: Case, o: &Opts) -> CaseOut {
    let mut out = CaseOut { i, kind: case.kind.clone(), status: String::new(), design: None, stim: None, rtl_varies: false, cfgs: vec![], rtl_engines_disagree: None, const_tied: case.const_tied, child_compound: (0, 0), counters: case.counters.clone() };
    let d = case.design.clone();
    let md = default_metadata();
    let a = match analyze_one(&d.text, &md) {
        Err(e) => {
            out.status = format!("parse_error: {e:?}");
            out.design = Some(d);
            return out;
        }
        Ok(a) => a,
    };
    let codes = a.error_codes();
    if !codes.is_empty() {
        out.status = format!("analyzer_rejected: {}", codes.join(","));
        out.design = Some(d);
        return out;
    }
    let mut rng = Rng::for_case(seed, "C19-stim", i);
    let stim = stimulus(&d, &mut rng, o.cycles);
    let rtl = if o.do_eval {
        let mut cfg = Config::default();
        match std::env::var("PROBE_SIMCFG").as_deref() {
            Ok("noffopt") => cfg.disable_ff_opt = true,
            Ok("jit") => cfg.use_jit = true,
            Ok("4state") => cfg.use_4state = true,
            _ => {}
        }
        match vgen::sim::run(&a.ir, &d, &cfg, &stim) {
            Ok(t) => Some(t),
            Err(e) => {
                out.status = format!("sim_build_error: {}", e.lines().next().unwrap_or(""));
                out.design = Some(d);
                return out;
            }
        }
    } else {
        None
    };
    if let Some(t) = &rtl {
        out.rtl_varies = t.steps.iter().skip(3).any(|s| Some(s) != t.steps.get(2));
    }
    out.status = "ok".into();
    let top = veryl_parser::resource_table::insert_str(&d.top);
    let rst_high = rst_is_high(&d);
    for child in &case.children {
        let cid = veryl_parser::resource_table::insert_str(child);
        if let Ok(r) = veryl_synthesizer::synthesize(&a.ir, cid, veryl_metadata::Library::Sky130) {
            let ni = netlist_info(&r.gate_ir.module);
            out.child_compound.0 += ni.compound;
            out.child_compound.1 += r.gate_ir.module.cells.iter().filter(|c| c.kind == veryl_synthesizer::ir::CellKind::Ao22).count();
        }
    }
    let cfgs = ram_configs(&case, i, o.thorough);
    for (cname, cfg) in cfgs.into_iter().take(o.max_ram_cfgs.max(1)) {
        for &li in &o.libs {
            let (lib, lname) = LIBS[li];
            let t0 = std::time::Instant::now();
            let mut co = ConfigOut { lib: lname, ram_cfg: cname.clone(), synth_err: None, info: NetlistInfo::default(), eval: None, wf: None, secs: 0.0 };
            match synthesize_with(&a.ir, top, lib, cfg) {
                Err(e) => co.synth_err = Some(synth_err_class(&e)),
                Ok(res) => {
                    let m = &res.gate_ir.module;
                    co.info = netlist_info(m);
                    if o.do_wf {
                        let mut area = res.area.clone();
                        if o.sabotage.as_deref() == Some("area_plus_one") {
                            area.total += 1.0;
                        }
                        co.wf = Some(crate::wellformed::check(m, &area, &res.timing, library_for(lib)));
                    }
                    if let Some(rtl) = &rtl {
                        co.eval = Some(run_gate(m, &d, &stim, rtl, rst_high, o.sabotage.as_deref()).map_err(|e| format!("{e:?}")));
                    }
                }
            }
            co.secs = t0.elapsed().as_secs_f64();
            out.cfgs.push(co);
        }
    }
    // A mismatch is only C19's to judge when the RTL reference is stable across the simulator's own
    // engines; where they disagree among themselves (C02/C03's subject) the case is counted, not judged.
    let first_bad = out.cfgs.iter().filter_map(|c| c.eval.as_ref().and_then(|e| e.as_ref().ok()).and_then(|g| g.mismatch.as_ref()).map(|m| m.cycle)).max();
    if let (Some(upto), Some(reference)) = (first_bad, &rtl) {
        for (name, cfg) in [
            ("disable_ff_opt", Config { disable_ff_opt: true, ..Default::default() }),
            ("jit", Config { use_jit: true, ..Default::default() }),
            ("4state", Config { use_4state: true, ..Default::default() }),
        ] {
            // an engine that panics (a JIT lowering crash is C02's finding) simply does not vote
            let alt = std::panic::catch_unwind(std::panic::AssertUnwindSafe(|| vgen::sim::run(&a.ir, &d, &cfg, &stim)));
            if let Ok(Ok(t)) = alt {
                'cmp: for c in 0..=upto.min(t.steps.len().saturating_sub(1)) {
                    for (x, y) in t.steps[c].iter().zip(reference.steps[c].iter()) {
                        for w in 0..x.payload.len() {
                            let known = !x.xz[w] & !y.xz[w];
                            if (x.payload[w] ^ y.payload[w]) & known != 0 {
                                out.rtl_engines_disagree = Some(format!("engine {name} differs from the reference interpreter at cycle {c}"));
                                break 'cmp;
                            }
                        }
                    }
                }
            }
            if out.rtl_engines_disagree.is_some() {
                break;
            }
        }
    }
    out.design = Some(d);
    out.stim = Some(stim);
    out
}

pub fn stim_json(stim: &Stimulus, upto: usize) -> Json {
    let rows: Vec<Json> = stim
        .cycles
        .iter()
        .take(upto + 1)
        .enumerate()
        .map(|(c, cy)| json!({"cycle": c, "reset": cy.reset, "inputs": cy.inputs.iter().map(|v| v.hex()).collect::<Vec<_>>()}))
        .collect();
    Json::Array(rows)
}

pub fn design_hash(d: &Design) -> u64 {
    hash_str(&d.text)
}
