//! C20 — synthesized netlists are well-formed and the reports match them.
//!
//! Rides on C19's workload (same generator, same case indices, same libraries,
//! RamConfigs and env arms).  Every `SynthResult` is walked at the quiescent point
//! (after `synthesize_with` returned): see `wellformed.rs` for the invariants.

use crate::c19::{ARMS, arm_libs, opts_for, set_arm};
use crate::runner::{CaseOut, Opts, design_hash, run_case};
use std::sync::Arc;
use vcommon::pool::{PanicInfo, STACK_64M, par_cases};
use vcommon::rng::hash_str;
use vcommon::{Args, Json, Run, json};

pub fn main(args: Args) {
    let run = Arc::new(Run::new(
        args.clone(),
        "exploration",
        "cases = every GateModule + AreaReport + TimingReport returned by synthesize_with on C19's workload (DesignGen designs and the \
         targeted templates, 4 libraries x RamConfig variants x env arms default / VERYL_SYNTH_NO_RAM / VERYL_SYNTH_NO_RESTRUCTURE); each is \
         walked for net-id range, cell arity, one structural driver per used net, NetDriver bookkeeping in both directions, combinational \
         acyclicity (cells + async RAM reads), area = sum of library figures, critical path connectivity / delay = independent longest path \
         / depth; non-trivial = the netlist has >= 1 cell and a non-empty critical path; distinct = distinct (design text, library, \
         RamConfig, arm)",
    ));
    run.assume("library figures are read through CellLibrary::{info, ff_area, sram_model}; the tables themselves are trusted");
    run.assume("timing endpoints are the ones analysis.rs documents: FF D pins, output/inout port bits, RAM write-port pins; start points have arrival 0");
    run.assume("critical_path_depth is accepted when it equals the stage count of the reported path, or the most levels into that endpoint, or the most levels into any endpoint (Buf counted or not) — the text leaves the reading open (DESIGN 7a)");

    let seed = args.seed;
    if let Some(rp) = &args.replay {
        let v: Json = serde_json::from_str(&std::fs::read_to_string(rp).expect("replay file")).expect("replay json");
        let i = v["case"]["case_index"].as_u64().expect("case_index");
        let rseed = v["seed"].as_u64().unwrap_or(seed);
        let arm = v["case"]["arm"].as_str().unwrap_or("default").to_string();
        set_arm(ARMS.iter().find(|a| a.0 == arm).and_then(|a| a.1));
        let mut o = opts_for(&args, &arm, false, true);
        o.thorough = v["tier"].as_str() == Some("thorough");
        o.libs = vec![0, 1, 2, 3];
        o.max_ram_cfgs = 8;
        let o2 = o.clone();
        let r = vcommon::pool::fresh_thread(STACK_64M, move || run_case(rseed, i, &o2));
        run.eval();
        report(&run, &o, i, r);
        run.finish(&[]);
    }

    let n = args.budget("cases", 147, 4200);
    for (arm, var) in ARMS.iter() {
        set_arm(*var);
        let o = opts_for(&args, arm, false, true);
        let run2 = run.clone();
        let o2 = o.clone();
        let o3 = o.clone();
        par_cases(
            n,
            args.jobs,
            STACK_64M,
            move |i| {
                let mut oo = o2.clone();
                if oo.libs.is_empty() {
                    oo.libs = arm_libs(i);
                }
                run_case(seed, i, &oo)
            },
            move |i, r| report(&run2, &o3, i, r),
        );
    }
    set_arm(None);
    run.finish(&[
        ("netlists_checked", 300),
        ("nets_checked", 100_000),
        ("cells_checked", 50_000),
        ("critical_paths_checked", 200),
        ("area_reports_with_ff", 60),
        ("area_reports_with_ram", 10),
        ("libraries", 4),
        ("arms", 3),
        ("frozen_registers", 6),
        ("frozen_ff_feeds_ff_directly", 8),
    ]);
}

pub fn report(run: &Run, o: &Opts, i: u64, r: Result<CaseOut, PanicInfo>) {
    let arm = o.arm.as_str();
    let out = match r {
        Err(p) => {
            run.count("cases_panicked_not_judged", 1);
            run.note(format!("case {i} arm {arm}: panic at {}: {}", p.location, p.message.chars().take(160).collect::<String>()));
            return;
        }
        Ok(o) => o,
    };
    if out.status != "ok" {
        run.count(&format!("not_run_{}", out.status.split(':').next().unwrap_or("")), 1);
        return;
    }
    let d = out.design.as_ref().unwrap();
    run.seen("arms", arm);
    if arm == "default" && out.cfgs.iter().any(|c| c.wf.is_some()) {
        for (name, n) in &out.counters {
            run.count(name, *n);
        }
    }
    for c in &out.cfgs {
        if let Some(e) = &c.synth_err {
            run.count("synth_rejections", 1);
            run.seen("synth_rejection_kinds", e);
            continue;
        }
        let Some((findings, st)) = &c.wf else { continue };
        run.eval();
        run.count("netlists_checked", 1);
        run.seen("libraries", c.lib);
        run.seen("template_kinds", &out.kind);
        run.count("nets_checked", st.nets as i64);
        run.count("used_nets_checked", st.used_nets as i64);
        run.count("cells_checked", st.cells as i64);
        run.count("ffs_checked", st.ffs as i64);
        run.count("ram_blocks_checked", st.ram_blocks as i64);
        run.count("compound_cells_checked", st.compound_cells as i64);
        for k in &st.kinds {
            run.seen("cell_kinds", k);
        }
        if st.ffs > 0 {
            run.count("area_reports_with_ff", 1);
        }
        if st.ram_blocks > 0 {
            run.count("area_reports_with_ram", 1);
        }
        if st.path_nonempty {
            run.count("critical_paths_checked", 1);
            run.count("critical_path_steps_checked", st.path_steps as i64);
            if st.path_through_ram {
                run.count("critical_paths_through_ram_read", 1);
            }
            if st.depth_is_path_stages {
                run.count("depth_equals_stages_on_reported_path", 1);
            }
            if st.depth_is_endpoint_levels {
                run.count("depth_equals_most_levels_into_endpoint", 1);
            }
            if st.depth_is_global_levels {
                run.count("depth_equals_most_levels_into_any_endpoint", 1);
            }
            if st.depth_is_endpoint_levels && !st.depth_is_path_stages {
                run.count("depth_differs_from_reported_path_stage_count", 1);
            }
            if !st.depth_is_global_levels {
                run.count("depth_is_not_the_global_level_maximum", 1);
            }
        }
        if st.non_endpoint_pin_longer {
            run.count("ff_clock_or_reset_pin_cone_longer_than_report", 1);
        }
        if st.cells > 0 && st.path_nonempty {
            run.nontrivial(hash_str(&format!("{}|{}|{}|{arm}", design_hash(d), c.lib, c.ram_cfg)));
        }
        if findings.is_empty() && (st.ram_blocks > 0 || i % 9 == 0) && c.lib == "sky130" {
            run.sample(json!({
                "case_index": i, "kind": out.kind, "arm": arm, "library": c.lib, "ram_config": c.ram_cfg,
                "nets": st.nets, "cells": st.cells, "ffs": st.ffs, "ram_blocks": st.ram_blocks, "cell_kinds": st.kinds,
                "critical_path_delay": st.delay, "critical_path_depth": st.depth, "path_steps": st.path_steps,
                "design": d.text,
            }));
        }
        let mut seen = std::collections::HashSet::new();
        for f in findings {
            run.count("findings_observed", 1);
            if !seen.insert(f.class.clone()) {
                continue;
            }
            run.violation(
                &format!("{}:{}", f.class, out.kind),
                &format!("case {i} ({}) {arm}/{}/{}: {}", out.kind, c.lib, c.ram_cfg, f.detail),
                json!({"case_index": i, "arm": arm, "library": c.lib, "ram_config": c.ram_cfg, "kind": out.kind, "class": f.class, "detail": f.detail,
                       "netlist": {"nets": st.nets, "cells": st.cells, "ffs": st.ffs, "ram_blocks": st.ram_blocks}, "design": d.text}),
            );
        }
    }
}
