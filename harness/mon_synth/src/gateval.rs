//! gateval — a deliberately simple evaluator for a `GateModule`.
//!
//! Written from the doc comments in `crates/synthesizer/src/ir.rs` only:
//!   * cell truth tables (`CellKind` docs; `Mux2` inputs = [sel, d_when_sel_0, d_when_sel_1]),
//!   * `FfCell`: Q takes D on its clock edge; with a `ResetSpec` the FF takes `reset_value`
//!     while the reset net sits at its active polarity (sync: sampled at the edge,
//!     async: level sensitive),
//!   * `RamBlock`: write ports commit on the clock edge when `enable` is high, bit i written
//!     where `mask[i]` is high (no mask = whole word); async read ports are combinational,
//!     sync read ports register the word at the edge.
//!
//! Values are three-valued (0, 1, X).  X is "the netlist does not define this":
//! undriven nets, RAM words never written, out-of-range addresses, state whose
//! next value depends on something the IR docs leave open.  A cell with X inputs
//! yields a known value only when every completion of the X inputs agrees.
//!
//! The evaluator derives *its own* driver table from the structure (cell outputs,
//! FF q, RAM read data, input ports); it never reads `NetInfo::driver`.

use std::collections::HashMap;
use veryl_synthesizer::ir::{CellKind, ClockEdge, GateModule, NetId, PortDir, ResetPolarity};

pub const X: u8 = 2;

pub const ALL_KINDS: [CellKind; 22] = [
    CellKind::Buf,
    CellKind::Not,
    CellKind::And2,
    CellKind::Or2,
    CellKind::Nand2,
    CellKind::Nor2,
    CellKind::Xor2,
    CellKind::Xnor2,
    CellKind::And3,
    CellKind::Or3,
    CellKind::Nand3,
    CellKind::Nor3,
    CellKind::Ao21,
    CellKind::Aoi21,
    CellKind::Oa21,
    CellKind::Oai21,
    CellKind::Ao31,
    CellKind::Aoi31,
    CellKind::Ao22,
    CellKind::Aoi22,
    CellKind::Oai22,
    CellKind::Mux2,
];

/// Number of inputs by the *name* of the cell (independent of `CellKind::arity`).
pub fn arity_by_name(kind: CellKind) -> usize {
    use CellKind::*;
    match kind {
        Buf | Not => 1,
        And2 | Or2 | Nand2 | Nor2 | Xor2 | Xnor2 => 2,
        And3 | Or3 | Nand3 | Nor3 => 3,
        Ao21 | Aoi21 | Oa21 | Oai21 => 3,
        Mux2 => 3,
        Ao31 | Aoi31 => 4,
        Ao22 | Aoi22 | Oai22 => 4,
    }
}

/// Two-valued cell function, straight from the ir.rs doc comments (A, B, C, D = inputs 0..3).
pub fn cell_fn(kind: CellKind, x: &[bool]) -> bool {
    use CellKind::*;
    match kind {
        Buf => x[0],
        Not => !x[0],
        And2 => x[0] & x[1],
        Or2 => x[0] | x[1],
        Nand2 => !(x[0] & x[1]),
        Nor2 => !(x[0] | x[1]),
        Xor2 => x[0] ^ x[1],
        Xnor2 => !(x[0] ^ x[1]),
        And3 => x[0] & x[1] & x[2],
        Or3 => x[0] | x[1] | x[2],
        Nand3 => !(x[0] & x[1] & x[2]),
        Nor3 => !(x[0] | x[1] | x[2]),
        Ao21 => (x[0] & x[1]) | x[2],
        Aoi21 => !((x[0] & x[1]) | x[2]),
        Oa21 => (x[0] | x[1]) & x[2],
        Oai21 => !((x[0] | x[1]) & x[2]),
        Ao31 => (x[0] & x[1] & x[2]) | x[3],
        Aoi31 => !((x[0] & x[1] & x[2]) | x[3]),
        Ao22 => (x[0] & x[1]) | (x[2] & x[3]),
        Aoi22 => !((x[0] & x[1]) | (x[2] & x[3])),
        Oai22 => !((x[0] | x[1]) & (x[2] | x[3])),
        // inputs = [sel, d_when_sel_0, d_when_sel_1]
        Mux2 => {
            if x[0] {
                x[2]
            } else {
                x[1]
            }
        }
    }
}

fn kind_index(kind: CellKind) -> usize {
    ALL_KINDS.iter().position(|k| *k == kind).expect("kind")
}

/// 3-valued tables: `table[kind][Σ v_i·3^i]`.
pub struct Tables {
    t: Vec<[u8; 81]>,
}

impl Tables {
    pub fn new() -> Tables {
        // sensitivity aid (never set by a registered check): evaluate Mux2 with its data pins swapped
        let swap_mux = std::env::var("MON_SYNTH_SABOTAGE").as_deref() == Ok("swap_mux");
        let mut t = vec![[X; 81]; ALL_KINDS.len()];
        for (ki, &kind) in ALL_KINDS.iter().enumerate() {
            let n = arity_by_name(kind);
            let total = 3usize.pow(n as u32);
            for code in 0..total {
                let mut vals = [0u8; 4];
                let mut c = code;
                for v in vals.iter_mut().take(n) {
                    *v = (c % 3) as u8;
                    c /= 3;
                }
                // enumerate completions of X inputs
                let xs: Vec<usize> = (0..n).filter(|&i| vals[i] == X).collect();
                let mut seen0 = false;
                let mut seen1 = false;
                for m in 0..(1usize << xs.len()) {
                    let mut b = [false; 4];
                    for i in 0..n {
                        b[i] = vals[i] == 1;
                    }
                    for (k, &xi) in xs.iter().enumerate() {
                        b[xi] = (m >> k) & 1 == 1;
                    }
                    if swap_mux && kind == CellKind::Mux2 {
                        b.swap(1, 2);
                    }
                    if cell_fn(kind, &b[..n]) {
                        seen1 = true;
                    } else {
                        seen0 = true;
                    }
                }
                t[ki][code] = match (seen0, seen1) {
                    (true, false) => 0,
                    (false, true) => 1,
                    _ => X,
                };
            }
        }
        Tables { t }
    }
    #[inline]
    pub fn eval(&self, ki: usize, ins: &[u8]) -> u8 {
        let mut code = 0usize;
        let mut mul = 1usize;
        for &v in ins {
            code += v as usize * mul;
            mul *= 3;
        }
        self.t[ki][code]
    }
}

#[derive(Clone, Copy, Debug, PartialEq, Eq)]
pub enum Drv {
    None,
    Const(bool),
    Input,
    Cell(u32),
    FfQ(u32),
    RamRead(u32, u32, u32),
}

#[derive(Debug, Clone)]
pub enum EvalError {
    /// structural problem (C20 judges these; C19 only counts them)
    Malformed(String),
    /// a shape this evaluator does not model (mixed clock edges, derived clocks …)
    Unsupported(String),
}

#[derive(Clone, Copy)]
enum Node {
    Cell(u32),
    RamRead(u32, u32),
}

/// Structure derived from the module, independent of `NetInfo::driver`.
pub struct Structure {
    pub drv: Vec<Drv>,
    /// number of structural drivers claimed per net
    pub ndrv: Vec<u32>,
    order: Vec<Node>,
    /// longest chain (in nodes) — informational
    pub comb_nodes: usize,
}

pub fn derive_drivers(m: &GateModule) -> Result<(Vec<Drv>, Vec<u32>), EvalError> {
    let n = m.nets.len();
    let mut drv = vec![Drv::None; n];
    let mut ndrv = vec![0u32; n];
    fn claim(drv: &mut [Drv], ndrv: &mut [u32], net: NetId, d: Drv, what: &str) -> Result<(), EvalError> {
        let i = net as usize;
        if i >= drv.len() {
            return Err(EvalError::Malformed(format!("{what}: net n{net} out of range ({} nets)", drv.len())));
        }
        ndrv[i] += 1;
        if drv[i] == Drv::None {
            drv[i] = d;
        }
        Ok(())
    }
    if n >= 2 {
        claim(&mut drv, &mut ndrv, 0, Drv::Const(false), "const0")?;
        claim(&mut drv, &mut ndrv, 1, Drv::Const(true), "const1")?;
    }
    for p in &m.ports {
        if matches!(p.dir, PortDir::Input | PortDir::Inout) {
            for &net in &p.nets {
                // an input port bit listed twice (or tied to a rail) counts once
                if (net as usize) < n && matches!(drv[net as usize], Drv::Input | Drv::Const(_)) {
                    continue;
                }
                claim(&mut drv, &mut ndrv, net, Drv::Input, "input port")?;
            }
        }
    }
    for (i, c) in m.cells.iter().enumerate() {
        claim(&mut drv, &mut ndrv, c.output, Drv::Cell(i as u32), "cell output")?;
    }
    for (i, f) in m.ffs.iter().enumerate() {
        claim(&mut drv, &mut ndrv, f.q, Drv::FfQ(i as u32), "ff q")?;
    }
    for (ri, r) in m.ram_blocks.iter().enumerate() {
        for (pi, rp) in r.read_ports.iter().enumerate() {
            for (bi, &net) in rp.data.iter().enumerate() {
                claim(&mut drv, &mut ndrv, net, Drv::RamRead(ri as u32, pi as u32, bi as u32), "ram read data")?;
            }
        }
    }
    Ok((drv, ndrv))
}

impl Structure {
    pub fn new(m: &GateModule) -> Result<Structure, EvalError> {
        let (drv, ndrv) = derive_drivers(m)?;
        let n = m.nets.len();
        for (i, &k) in ndrv.iter().enumerate() {
            if k > 1 {
                return Err(EvalError::Malformed(format!("net n{i} has {k} structural drivers")));
            }
        }
        // combinational nodes: cells and async RAM read ports
        let mut nodes: Vec<Node> = Vec::new();
        let mut cell_node: Vec<u32> = Vec::with_capacity(m.cells.len());
        for i in 0..m.cells.len() {
            cell_node.push(nodes.len() as u32);
            nodes.push(Node::Cell(i as u32));
        }
        let mut ram_node: HashMap<(u32, u32), u32> = HashMap::new();
        for (ri, r) in m.ram_blocks.iter().enumerate() {
            for (pi, rp) in r.read_ports.iter().enumerate() {
                if !rp.sync {
                    ram_node.insert((ri as u32, pi as u32), nodes.len() as u32);
                    nodes.push(Node::RamRead(ri as u32, pi as u32));
                }
            }
        }
        let node_of_net = |net: NetId| -> Option<u32> {
            match drv[net as usize] {
                Drv::Cell(c) => Some(cell_node[c as usize]),
                Drv::RamRead(r, p, _) => ram_node.get(&(r, p)).copied(),
                _ => None,
            }
        };
        let inputs_of = |nd: &Node| -> Vec<NetId> {
            match nd {
                Node::Cell(c) => m.cells[*c as usize].inputs.clone(),
                Node::RamRead(r, p) => m.ram_blocks[*r as usize].read_ports[*p as usize].addr.clone(),
            }
        };
        let mut indeg = vec![0u32; nodes.len()];
        let mut succ: Vec<Vec<u32>> = vec![Vec::new(); nodes.len()];
        for (ni, nd) in nodes.iter().enumerate() {
            for inp in inputs_of(nd) {
                if inp as usize >= n {
                    return Err(EvalError::Malformed(format!("input net n{inp} out of range")));
                }
                if let Some(src) = node_of_net(inp) {
                    succ[src as usize].push(ni as u32);
                    indeg[ni] += 1;
                }
            }
        }
        let mut order = Vec::with_capacity(nodes.len());
        let mut queue: Vec<u32> = (0..nodes.len() as u32).filter(|&i| indeg[i as usize] == 0).collect();
        let mut head = 0;
        while head < queue.len() {
            let x = queue[head];
            head += 1;
            order.push(nodes[x as usize]);
            for &s in &succ[x as usize] {
                indeg[s as usize] -= 1;
                if indeg[s as usize] == 0 {
                    queue.push(s);
                }
            }
        }
        if order.len() != nodes.len() {
            return Err(EvalError::Malformed(format!(
                "combinational cycle: {} of {} nodes cannot be ordered",
                nodes.len() - order.len(),
                nodes.len()
            )));
        }
        Ok(Structure { drv, ndrv, comb_nodes: nodes.len(), order })
    }
}

#[derive(Clone, Debug, PartialEq, Eq)]
struct WriteSample {
    enable: u8,
    addr: Vec<u8>,
    data: Vec<u8>,
    mask: Option<Vec<u8>>,
}

/// What the state elements would capture at a clock edge, given the current net values.
#[derive(Clone, Debug, PartialEq, Eq)]
pub struct Sample {
    ff_next: Vec<u8>,
    ram_writes: Vec<Vec<WriteSample>>,
    sync_reads: Vec<Vec<Option<Vec<u8>>>>,
}

#[derive(Default, Clone, Debug)]
pub struct EvalStats {
    pub ram_writes_committed: u64,
    pub ram_masked_writes: u64,
    pub ram_reads_known: u64,
    pub ram_reads_x: u64,
    pub ram_oob_reads: u64,
    pub ram_oob_writes: u64,
    /// two enabled write ports of one RAM hit the same word (overlapping bits) in one edge
    pub ram_write_collisions: u64,
    /// state whose captured value depended on whether an async reset acts before the edge
    pub reset_order_ambiguous_bits: u64,
    pub ff_updates: u64,
    pub ff_resets: u64,
}

pub struct Eval<'a> {
    pub m: &'a GateModule,
    pub st: Structure,
    tables: Tables,
    kind_idx: Vec<u8>,
    pub val: Vec<u8>,
    /// per RAM: depth × width trits
    pub ram: Vec<Vec<u8>>,
    pub stats: EvalStats,
}

fn asserted(v: u8, pol: ResetPolarity) -> u8 {
    match (v, pol) {
        (X, _) => X,
        (1, ResetPolarity::ActiveHigh) | (0, ResetPolarity::ActiveLow) => 1,
        _ => 0,
    }
}

fn merge(a: u8, b: u8) -> u8 {
    if a == b { a } else { X }
}

/// Known address → Some(value); any X bit → None.
fn addr_value(bits: &[u8]) -> Option<usize> {
    let mut v = 0usize;
    for (i, &b) in bits.iter().enumerate() {
        match b {
            0 => {}
            1 => {
                if i >= usize::BITS as usize - 1 {
                    return Some(usize::MAX);
                }
                v |= 1 << i
            }
            _ => return None,
        }
    }
    Some(v)
}

impl<'a> Eval<'a> {
    pub fn new(m: &'a GateModule) -> Result<Eval<'a>, EvalError> {
        let st = Structure::new(m)?;
        for (i, c) in m.cells.iter().enumerate() {
            if c.inputs.len() != arity_by_name(c.kind) {
                return Err(EvalError::Malformed(format!(
                    "cell{i} {} has {} inputs, expected {}",
                    c.kind.symbol(),
                    c.inputs.len(),
                    arity_by_name(c.kind)
                )));
            }
        }
        let n = m.nets.len();
        let chk = |net: NetId, what: &str| -> Result<(), EvalError> {
            if net as usize >= n { Err(EvalError::Malformed(format!("{what} net n{net} out of range"))) } else { Ok(()) }
        };
        for f in &m.ffs {
            chk(f.clock, "ff clock")?;
            chk(f.d, "ff d")?;
            chk(f.q, "ff q")?;
            if let Some(r) = &f.reset {
                chk(r.net, "ff reset")?;
            }
        }
        for r in &m.ram_blocks {
            chk(r.clock, "ram clock")?;
            for wp in &r.write_ports {
                for &x in wp.addr.iter().chain(wp.data.iter()) {
                    chk(x, "ram write")?;
                }
                chk(wp.enable, "ram write enable")?;
                if let Some(mk) = &wp.mask {
                    for &x in mk {
                        chk(x, "ram mask")?;
                    }
                    if mk.len() != wp.data.len() {
                        return Err(EvalError::Malformed("ram mask length != data length".into()));
                    }
                }
            }
            for rp in &r.read_ports {
                for &x in rp.addr.iter().chain(rp.data.iter()) {
                    chk(x, "ram read")?;
                }
            }
        }
        for p in &m.ports {
            for &x in &p.nets {
                chk(x, "port")?;
            }
        }
        // a net that something reads (cell input, FF D / clock / reset pin, RAM pin, output port bit) but that no
        // element drives can never carry the RTL's value: refuse instead of silently evaluating it as X
        {
            let undriven = |net: NetId| st.drv[net as usize] == Drv::None;
            let mut bad: Option<String> = None;
            let mut see = |net: NetId, who: String| {
                if bad.is_none() && undriven(net) {
                    bad = Some(format!("net n{net} read by {who} has no driver"));
                }
            };
            for (i, c) in m.cells.iter().enumerate() {
                for &x in &c.inputs {
                    see(x, format!("cell{i} {}", c.kind.symbol()));
                }
            }
            for (i, f) in m.ffs.iter().enumerate() {
                see(f.d, format!("ff{i}.d"));
                see(f.clock, format!("ff{i}.clock"));
                if let Some(r) = &f.reset {
                    see(r.net, format!("ff{i}.reset"));
                }
            }
            m.for_each_ram_input_net(|x| see(x, "a RAM pin".to_string()));
            for p in &m.ports {
                if matches!(p.dir, PortDir::Output | PortDir::Inout) {
                    for &x in &p.nets {
                        see(x, format!("output port {}", p.name));
                    }
                }
            }
            if let Some(b) = bad {
                return Err(EvalError::Malformed(format!("used net without driver: {b}")));
            }
        }
        let mut val = vec![X; n];
        if n >= 2 {
            val[0] = 0;
            val[1] = 1;
        }
        let ram = m.ram_blocks.iter().map(|r| vec![X; r.depth * r.width]).collect();
        let kind_idx = m.cells.iter().map(|c| kind_index(c.kind) as u8).collect();
        Ok(Eval { m, st, tables: Tables::new(), kind_idx, val, ram, stats: EvalStats::default() })
    }

    /// All state elements must be clocked by `clk` itself and on one common edge.
    pub fn check_single_clock(&self, clk: NetId) -> Result<(), EvalError> {
        let mut edge: Option<ClockEdge> = None;
        let mut see = |c: NetId, e: ClockEdge| -> Result<(), EvalError> {
            if c != clk {
                return Err(EvalError::Unsupported(format!("state element clocked by n{c}, not the clock port n{clk}")));
            }
            match edge {
                None => edge = Some(e),
                Some(x) if x != e => return Err(EvalError::Unsupported("mixed clock edges".into())),
                _ => {}
            }
            Ok(())
        };
        for f in &self.m.ffs {
            see(f.clock, f.clock_edge)?;
        }
        for r in &self.m.ram_blocks {
            see(r.clock, r.clock_edge)?;
        }
        Ok(())
    }

    pub fn set(&mut self, net: NetId, v: u8) {
        self.val[net as usize] = v;
    }
    pub fn get(&self, net: NetId) -> u8 {
        self.val[net as usize]
    }

    fn read_word(&mut self, ri: usize, addr: &[u8]) -> Vec<u8> {
        let m: &'a GateModule = self.m;
        let r = &m.ram_blocks[ri];
        let w = r.width;
        match addr_value(addr) {
            Some(a) if a < r.depth => {
                let word = self.ram[ri][a * w..(a + 1) * w].to_vec();
                if word.iter().any(|&b| b == X) {
                    self.stats.ram_reads_x += 1;
                } else {
                    self.stats.ram_reads_known += 1;
                }
                word
            }
            Some(_) => {
                // outside the declared depth: the IR does not say what a macro returns
                self.stats.ram_oob_reads += 1;
                vec![X; w]
            }
            None => {
                // partially unknown address: known only where every candidate word agrees
                let xs: Vec<usize> = (0..addr.len()).filter(|&i| addr[i] == X).collect();
                self.stats.ram_reads_x += 1;
                if xs.len() > 4 {
                    return vec![X; w];
                }
                let base: usize = addr.iter().enumerate().filter(|(_, b)| **b == 1).map(|(i, _)| 1usize << i).sum();
                let mut acc: Option<Vec<u8>> = None;
                for mm in 0..(1usize << xs.len()) {
                    let mut a = base;
                    for (k, &xi) in xs.iter().enumerate() {
                        if (mm >> k) & 1 == 1 {
                            a |= 1 << xi;
                        }
                    }
                    let word = if a < r.depth { self.ram[ri][a * w..(a + 1) * w].to_vec() } else { vec![X; w] };
                    acc = Some(match acc {
                        None => word,
                        Some(p) => p.iter().zip(word.iter()).map(|(&x, &y)| merge(x, y)).collect(),
                    });
                }
                acc.unwrap_or_else(|| vec![X; w])
            }
        }
    }

    /// Evaluate all combinational nodes in topological order.
    pub fn settle(&mut self) {
        let m: &'a GateModule = self.m;
        for oi in 0..self.st.order.len() {
            match self.st.order[oi] {
                Node::Cell(ci) => {
                    let c = &m.cells[ci as usize];
                    let mut ins = [0u8; 4];
                    for (k, &n) in c.inputs.iter().enumerate() {
                        ins[k] = self.val[n as usize];
                    }
                    let v = self.tables.eval(self.kind_idx[ci as usize] as usize, &ins[..c.inputs.len()]);
                    self.val[c.output as usize] = v;
                }
                Node::RamRead(ri, pi) => {
                    let rp = &m.ram_blocks[ri as usize].read_ports[pi as usize];
                    let addr: Vec<u8> = rp.addr.iter().map(|&n| self.val[n as usize]).collect();
                    let word = self.read_word(ri as usize, &addr);
                    for (b, &n) in rp.data.iter().enumerate() {
                        self.val[n as usize] = word.get(b).copied().unwrap_or(X);
                    }
                }
            }
        }
    }

    /// Level-sensitive async resets: force Q of every FF whose async reset is
    /// asserted; returns whether any Q changed.
    pub fn apply_async_resets(&mut self) -> bool {
        let mut changed = false;
        let m: &'a GateModule = self.m;
        for f in &m.ffs {
            if let Some(r) = &f.reset
                && !r.sync
            {
                let a = asserted(self.val[r.net as usize], r.polarity);
                let rv = f.reset_value as u8;
                let q = self.val[f.q as usize];
                let nq = match a {
                    1 => rv,
                    0 => q,
                    _ => merge(q, rv),
                };
                if nq != q {
                    self.val[f.q as usize] = nq;
                    changed = true;
                }
            }
        }
        changed
    }

    pub fn settle_with_async(&mut self) -> Result<(), EvalError> {
        self.settle();
        for _ in 0..16 {
            if !self.apply_async_resets() {
                return Ok(());
            }
            self.settle();
        }
        Err(EvalError::Unsupported("async reset network does not stabilise".into()))
    }

    /// What every state element would capture if the clock edge happened now.
    pub fn sample(&self) -> Sample {
        let mut ff_next = Vec::with_capacity(self.m.ffs.len());
        for f in &self.m.ffs {
            let d = self.val[f.d as usize];
            let nq = match &f.reset {
                None => d,
                Some(r) => {
                    let rv = f.reset_value as u8;
                    match asserted(self.val[r.net as usize], r.polarity) {
                        1 => rv,
                        0 => d,
                        _ => merge(d, rv),
                    }
                }
            };
            ff_next.push(nq);
        }
        let g = |ns: &Vec<NetId>| -> Vec<u8> { ns.iter().map(|&n| self.val[n as usize]).collect() };
        let ram_writes = self
            .m
            .ram_blocks
            .iter()
            .map(|r| {
                r.write_ports
                    .iter()
                    .map(|wp| WriteSample {
                        enable: self.val[wp.enable as usize],
                        addr: g(&wp.addr),
                        data: g(&wp.data),
                        mask: wp.mask.as_ref().map(g),
                    })
                    .collect()
            })
            .collect();
        let sync_reads = self
            .m
            .ram_blocks
            .iter()
            .map(|r| r.read_ports.iter().map(|rp| if rp.sync { Some(g(&rp.addr)) } else { None }).collect())
            .collect();
        Sample { ff_next, ram_writes, sync_reads }
    }

    /// Commit one clock edge.  `alt` is an alternative legal sampling of the same
    /// edge (see `clock_edge`); where the two disagree the state becomes X.
    fn commit(&mut self, s: &Sample, alt: Option<&Sample>) {
        let m: &'a GateModule = self.m;
        // sync read ports register the *old* contents; a same-edge write to the same word
        // makes the result unknown (read-during-write is not specified by ir.rs)
        let mut sync_words: Vec<(usize, usize, Vec<u8>)> = vec![];
        for (ri, ports) in s.sync_reads.iter().enumerate() {
            for (pi, a) in ports.iter().enumerate() {
                if let Some(addr) = a {
                    let mut word = self.read_word(ri, addr);
                    if let Some(al) = alt
                        && al.sync_reads[ri][pi].as_ref() != Some(addr)
                    {
                        word = vec![X; word.len()];
                    }
                    let r = &m.ram_blocks[ri];
                    for ws in &s.ram_writes[ri] {
                        if ws.enable != 0 {
                            let same = match (addr_value(&ws.addr), addr_value(addr)) {
                                (Some(x), Some(y)) => x == y,
                                _ => true,
                            };
                            if same {
                                word = vec![X; r.width];
                            }
                        }
                    }
                    sync_words.push((ri, pi, word));
                }
            }
        }
        // flip-flops
        for (i, f) in m.ffs.iter().enumerate() {
            let mut nq = s.ff_next[i];
            if let Some(al) = alt
                && al.ff_next[i] != nq
            {
                self.stats.reset_order_ambiguous_bits += 1;
                nq = X;
            }
            if let Some(r) = &f.reset
                && asserted(self.val[r.net as usize], r.polarity) == 1
            {
                self.stats.ff_resets += 1;
            }
            self.stats.ff_updates += 1;
            self.val[f.q as usize] = nq;
        }
        // RAM writes, in port order; collisions between ports are recorded
        for ri in 0..m.ram_blocks.len() {
            let (depth, w) = (m.ram_blocks[ri].depth, m.ram_blocks[ri].width);
            let mut touched: Vec<(usize, Vec<bool>)> = vec![];
            for (pi, ws) in s.ram_writes[ri].iter().enumerate() {
                let mut ws = ws.clone();
                if let Some(al) = alt {
                    let o = &al.ram_writes[ri][pi];
                    if *o != ws {
                        self.stats.reset_order_ambiguous_bits += 1;
                        // either sampling may be the real one: weaken to "may write"
                        ws.enable = merge(ws.enable, o.enable);
                        if ws.enable == 0 {
                            continue;
                        }
                        ws.enable = X;
                        if ws.addr != o.addr {
                            ws.addr = ws.addr.iter().zip(o.addr.iter()).map(|(&a, &b)| merge(a, b)).collect();
                        }
                        ws.data = ws.data.iter().zip(o.data.iter()).map(|(&a, &b)| merge(a, b)).collect();
                        ws.mask = match (&ws.mask, &o.mask) {
                            (Some(a), Some(b)) => Some(a.iter().zip(b.iter()).map(|(&x, &y)| merge(x, y)).collect()),
                            _ => ws.mask.clone(),
                        };
                    }
                }
                if ws.enable == 0 {
                    continue;
                }
                let words: Vec<usize> = match addr_value(&ws.addr) {
                    Some(a) if a < depth => vec![a],
                    Some(_) => {
                        self.stats.ram_oob_writes += 1;
                        vec![]
                    }
                    None => (0..depth).collect(),
                };
                let certain_addr = words.len() == 1 && addr_value(&ws.addr).is_some();
                if ws.mask.is_some() {
                    self.stats.ram_masked_writes += 1;
                }
                self.stats.ram_writes_committed += 1;
                for &a in &words {
                    let mut bits = vec![false; w];
                    for b in 0..w {
                        let mk = match &ws.mask {
                            None => 1,
                            Some(mv) => mv.get(b).copied().unwrap_or(0),
                        };
                        if mk == 0 {
                            continue;
                        }
                        bits[b] = true;
                        let old = self.ram[ri][a * w + b];
                        let newv = ws.data.get(b).copied().unwrap_or(X);
                        let definite = ws.enable == 1 && mk == 1 && certain_addr;
                        self.ram[ri][a * w + b] = if definite { newv } else { merge(old, newv) };
                    }
                    if let Some((_, prev)) = touched.iter().find(|(pa, pb)| *pa == a && pb.iter().zip(bits.iter()).any(|(x, y)| *x && *y)) {
                        let _ = prev;
                        self.stats.ram_write_collisions += 1;
                    }
                    touched.push((a, bits));
                }
            }
        }
        for (ri, pi, word) in sync_words {
            let rp = &m.ram_blocks[ri].read_ports[pi];
            for (b, &n) in rp.data.iter().enumerate() {
                self.val[n as usize] = word.get(b).copied().unwrap_or(X);
            }
        }
    }

    /// One active clock edge with the current input/reset levels.
    ///
    /// When an asynchronous reset is asserted around the edge, a reset-less state
    /// element may capture values computed either before or after the reset has
    /// acted on the other flip-flops (the RTL simulator fires both events in one
    /// step; silicon would reset first).  Both samplings are computed and state
    /// that depends on the order becomes X.
    pub fn clock_edge(&mut self) -> Result<(), EvalError> {
        self.settle();
        let s0 = self.sample();
        self.settle_with_async()?;
        let s1 = self.sample();
        if s0 == s1 {
            self.commit(&s1, None);
        } else {
            self.commit(&s1, Some(&s0));
        }
        self.settle_with_async()
    }
}

/// Self-test on hand-written netlists.  Returns a list of failures (empty = ok).
pub fn self_test() -> Vec<String> {
    use veryl_synthesizer::ir::*;
    let mut fails = vec![];
    let mut expect = |name: &str, got: u8, want: u8| {
        if got != want {
            fails.push(format!("{name}: got {got}, want {want}"));
        }
    };
    fn net(m: &mut GateModule) -> NetId {
        m.nets.push(NetInfo { driver: NetDriver::Undriven, origin: None });
        (m.nets.len() - 1) as NetId
    }
    fn base() -> GateModule {
        let mut m = GateModule::default();
        net(&mut m);
        net(&mut m);
        m
    }
    fn cell(m: &mut GateModule, kind: CellKind, inputs: Vec<NetId>) -> NetId {
        let o = net(m);
        m.cells.push(Cell { kind, inputs, output: o });
        o
    }
    let sid = veryl_parser::resource_table::insert_str("p");
    let port = |m: &mut GateModule, dir: PortDir, nets: Vec<NetId>| {
        m.ports.push(GatePort { name: sid, path: vec![sid], dir, nets });
    };

    // 1. hand truth tables of the compound cells, written out explicitly
    let hand: &[(CellKind, &[u8])] = &[
        // index = Σ input_i << i ; value = output
        (CellKind::Ao21, &[0, 0, 0, 1, 1, 1, 1, 1]),
        (CellKind::Aoi21, &[1, 1, 1, 0, 0, 0, 0, 0]),
        (CellKind::Oa21, &[0, 0, 0, 0, 0, 1, 1, 1]),
        (CellKind::Oai21, &[1, 1, 1, 1, 1, 0, 0, 0]),
        (CellKind::Mux2, &[0, 0, 1, 0, 0, 1, 1, 1]),
        (CellKind::And3, &[0, 0, 0, 0, 0, 0, 0, 1]),
        (CellKind::Nor3, &[1, 0, 0, 0, 0, 0, 0, 0]),
        (CellKind::Ao22, &[0, 0, 0, 1, 0, 0, 0, 1, 0, 0, 0, 1, 1, 1, 1, 1]),
        (CellKind::Oai22, &[1, 1, 1, 1, 1, 0, 0, 0, 1, 0, 0, 0, 1, 0, 0, 0]),
        (CellKind::Ao31, &[0, 0, 0, 0, 0, 0, 0, 1, 1, 1, 1, 1, 1, 1, 1, 1]),
        (CellKind::Xnor2, &[1, 0, 0, 1]),
        (CellKind::Nand2, &[1, 1, 1, 0]),
    ];
    for (kind, tt) in hand {
        let n = arity_by_name(*kind);
        let mut m = base();
        let ins: Vec<NetId> = (0..n).map(|_| net(&mut m)).collect();
        port(&mut m, PortDir::Input, ins.clone());
        let o = cell(&mut m, *kind, ins.clone());
        port(&mut m, PortDir::Output, vec![o]);
        match Eval::new(&m) {
            Err(e) => expect(&format!("{kind:?} build {e:?}"), 1, 0),
            Ok(mut ev) => {
                for code in 0..(1usize << n) {
                    for (i, &x) in ins.iter().enumerate() {
                        ev.set(x, ((code >> i) & 1) as u8);
                    }
                    ev.settle();
                    expect(&format!("{kind:?}[{code}]"), ev.get(o), tt[code]);
                }
            }
        }
    }
    // 2. X propagation: And2(0, X) = 0, Or2(1, X) = 1, Xor2(1, X) = X, Mux2(X, 1, 1) = 1
    {
        let mut m = base();
        let a = net(&mut m);
        let b = net(&mut m);
        port(&mut m, PortDir::Input, vec![a, b]); // b is never set: an input left at X
        let o1 = cell(&mut m, CellKind::And2, vec![a, b]);
        let o2 = cell(&mut m, CellKind::Or2, vec![a, b]);
        let o3 = cell(&mut m, CellKind::Xor2, vec![a, b]);
        let o4 = cell(&mut m, CellKind::Mux2, vec![b, a, a]);
        let mut ev = Eval::new(&m).unwrap();
        ev.set(a, 0);
        ev.settle();
        expect("and(0,X)", ev.get(o1), 0);
        expect("or(0,X)", ev.get(o2), X);
        ev.set(a, 1);
        ev.settle();
        expect("or(1,X)", ev.get(o2), 1);
        expect("xor(1,X)", ev.get(o3), X);
        expect("mux(X,1,1)", ev.get(o4), 1);
    }
    // 3. cells listed out of topological order still evaluate; a cycle is rejected
    {
        let mut m = base();
        let a = net(&mut m);
        port(&mut m, PortDir::Input, vec![a]);
        let mid = net(&mut m);
        let out = net(&mut m);
        m.cells.push(Cell { kind: CellKind::Not, inputs: vec![mid], output: out });
        m.cells.push(Cell { kind: CellKind::Not, inputs: vec![a], output: mid });
        let mut ev = Eval::new(&m).unwrap();
        ev.set(a, 1);
        ev.settle();
        expect("out-of-order chain", ev.get(out), 1);
        let mut c = base();
        let p = net(&mut c);
        let q = net(&mut c);
        c.cells.push(Cell { kind: CellKind::Not, inputs: vec![q], output: p });
        c.cells.push(Cell { kind: CellKind::Not, inputs: vec![p], output: q });
        expect("cycle rejected", Eval::new(&c).is_err() as u8, 1);
        let mut d = base();
        let p = net(&mut d);
        let z = net(&mut d);
        port(&mut d, PortDir::Input, vec![p]);
        d.cells.push(Cell { kind: CellKind::Not, inputs: vec![p], output: z });
        d.cells.push(Cell { kind: CellKind::Buf, inputs: vec![p], output: z });
        expect("double driver rejected", Eval::new(&d).is_err() as u8, 1);
    }
    // 4. flip-flops: sync high reset to 1, async low reset to 0, no reset
    {
        let cd = veryl_analyzer::symbol::ClockDomain::None;
        let mut m = base();
        let clk = net(&mut m);
        let rst = net(&mut m);
        let d = net(&mut m);
        port(&mut m, PortDir::Input, vec![clk, rst, d]);
        let q_sync = net(&mut m);
        let q_async = net(&mut m);
        let q_none = net(&mut m);
        let mk = |reset: Option<ResetSpec>, q: NetId, rv: bool| FfCell {
            clock: clk,
            clock_edge: ClockEdge::Posedge,
            reset,
            d,
            q,
            reset_value: rv,
            clock_domain: cd,
            origin: None,
        };
        m.ffs.push(mk(Some(ResetSpec { net: rst, polarity: ResetPolarity::ActiveHigh, sync: true }), q_sync, true));
        m.ffs.push(mk(Some(ResetSpec { net: rst, polarity: ResetPolarity::ActiveLow, sync: false }), q_async, false));
        m.ffs.push(mk(None, q_none, false));
        let mut ev = Eval::new(&m).unwrap();
        expect("single clock", ev.check_single_clock(clk).is_ok() as u8, 1);
        ev.set(rst, 1);
        ev.set(d, 0);
        ev.settle_with_async().unwrap();
        expect("ff q before any edge is X", ev.get(q_sync), X);
        ev.clock_edge().unwrap();
        expect("sync-high reset asserted -> reset_value 1", ev.get(q_sync), 1);
        expect("async-low reset deasserted -> d", ev.get(q_async), 0);
        expect("no reset -> d", ev.get(q_none), 0);
        ev.set(d, 1);
        ev.clock_edge().unwrap();
        expect("sync-high still asserted beats d", ev.get(q_sync), 1);
        expect("async-low deasserted -> d=1", ev.get(q_async), 1);
        expect("no reset -> d=1", ev.get(q_none), 1);
        ev.set(rst, 0);
        ev.settle_with_async().unwrap();
        expect("async-low asserted acts without a clock", ev.get(q_async), 0);
        expect("sync reset needs the edge", ev.get(q_sync), 1);
        ev.set(d, 0);
        ev.clock_edge().unwrap();
        expect("sync-high deasserted -> d=0", ev.get(q_sync), 0);
        expect("async-low asserted holds reset_value", ev.get(q_async), 0);
        ev.set(d, 1);
        ev.clock_edge().unwrap();
        expect("async-low asserted holds reset_value over d=1", ev.get(q_async), 0);
        expect("sync-high deasserted -> d=1", ev.get(q_sync), 1);
        ev.set(rst, 1);
        ev.set(d, 0);
        ev.clock_edge().unwrap();
        expect("sync-high asserted beats d=0", ev.get(q_sync), 1);
        expect("async-low released -> d=0", ev.get(q_async), 0);
    }
    // 5. RAM: 4x2, one masked write port, one async and one sync read port
    {
        let mut m = base();
        let clk = net(&mut m);
        let we = net(&mut m);
        let wa: Vec<NetId> = (0..2).map(|_| net(&mut m)).collect();
        let wd: Vec<NetId> = (0..2).map(|_| net(&mut m)).collect();
        let wm: Vec<NetId> = (0..2).map(|_| net(&mut m)).collect();
        let ra: Vec<NetId> = (0..2).map(|_| net(&mut m)).collect();
        let mut all = vec![clk, we];
        all.extend(wa.iter().chain(wd.iter()).chain(wm.iter()).chain(ra.iter()));
        port(&mut m, PortDir::Input, all);
        let rd_a: Vec<NetId> = (0..2).map(|_| net(&mut m)).collect();
        let rd_s: Vec<NetId> = (0..2).map(|_| net(&mut m)).collect();
        let inv = cell(&mut m, CellKind::Not, vec![rd_a[0]]);
        m.ram_blocks.push(RamBlock {
            name: sid,
            depth: 4,
            width: 2,
            clock: clk,
            clock_edge: ClockEdge::Posedge,
            read_ports: vec![
                RamReadPort { addr: ra.clone(), data: rd_a.clone(), sync: false },
                RamReadPort { addr: ra.clone(), data: rd_s.clone(), sync: true },
            ],
            write_ports: vec![RamWritePort { addr: wa.clone(), data: wd.clone(), enable: we, mask: Some(wm.clone()) }],
        });
        let mut ev = Eval::new(&m).unwrap();
        let setv = |ev: &mut Eval, ns: &[NetId], v: usize| {
            for (i, &n) in ns.iter().enumerate() {
                ev.set(n, ((v >> i) & 1) as u8);
            }
        };
        ev.set(we, 1);
        setv(&mut ev, &wa, 2);
        setv(&mut ev, &wd, 0b11);
        setv(&mut ev, &wm, 0b01);
        setv(&mut ev, &ra, 2);
        ev.settle();
        expect("unwritten word reads X", ev.get(rd_a[0]), X);
        ev.clock_edge().unwrap();
        expect("masked write: bit0 written", ev.get(rd_a[0]), 1);
        expect("masked write: bit1 retained (X)", ev.get(rd_a[1]), X);
        expect("cell downstream of async read", ev.get(inv), 0);
        expect("sync read registered the pre-write word or X", ev.get(rd_s[0]), X);
        setv(&mut ev, &wd, 0b00);
        setv(&mut ev, &wm, 0b10);
        ev.clock_edge().unwrap();
        expect("second write: bit1 = 0", ev.get(rd_a[1]), 0);
        expect("second write: bit0 kept", ev.get(rd_a[0]), 1);
        ev.set(we, 0);
        setv(&mut ev, &wd, 0b10);
        setv(&mut ev, &wm, 0b11);
        ev.clock_edge().unwrap();
        expect("enable low: no write", ev.get(rd_a[1]), 0);
        expect("sync read, no write this edge: word registered", ev.get(rd_s[0]), 1);
        expect("sync read bit1", ev.get(rd_s[1]), 0);
        setv(&mut ev, &ra, 1);
        ev.settle();
        expect("other word still X", ev.get(rd_a[0]), X);
        expect("sync read holds until the edge", ev.get(rd_s[0]), 1);
    }
    fails
}
