//! C19 — synthesized netlists behave like the RTL (translation validation per program).
//!
//! Event that refutes: after reset, some output bit of `gateval(GateModule)` that is
//! known (not X) differs from the real simulator's 2-state value on the RTL in some
//! cycle, for some library × RamConfig × env arm.  Oracle: the real simulator
//! (`Config::default()`) on the analyzer IR vs gateval (own evaluator written from
//! the ir.rs docs) on the netlist, same stimulus, same reset protocol.

use crate::runner::{CaseOut, Opts, design_hash, run_case, stim_json};
use std::sync::Arc;
use vcommon::pool::{PanicInfo, STACK_64M, par_cases};
use vcommon::{Args, Json, Run, json};

pub const ARMS: [(&str, Option<&str>); 3] =
    [("default", None), ("VERYL_SYNTH_NO_RAM", Some("VERYL_SYNTH_NO_RAM")), ("VERYL_SYNTH_NO_RESTRUCTURE", Some("VERYL_SYNTH_NO_RESTRUCTURE"))];

/// Env toggles are read with `env::var_os` on every call (conv.rs:112, :1128), so
/// they can be switched between phases — but only while no worker thread exists.
pub fn set_arm(var: Option<&str>) {
    for (_, v) in ARMS.iter() {
        if let Some(v) = v {
            unsafe { std::env::remove_var(v) };
        }
    }
    if let Some(v) = var {
        unsafe { std::env::set_var(v, "1") };
    }
}

pub fn opts_for(args: &Args, arm: &str, do_eval: bool, do_wf: bool) -> Opts {
    let thorough = args.thorough();
    Opts {
        cycles: args.budget("cycles", 40, 160) as usize,
        thorough,
        do_eval,
        do_wf,
        libs: if arm == "default" { vec![0, 1, 2, 3] } else { vec![] },
        max_ram_cfgs: if arm == "default" { 8 } else { 2 },
        arm: arm.to_string(),
        sabotage: args.get("sabotage").map(|s| s.to_string()),
    }
}

/// libraries for a non-default arm: two of the four, rotating with the case index
pub fn arm_libs(i: u64) -> Vec<usize> {
    vec![(i % 4) as usize, ((i + 2) % 4) as usize]
}

pub fn main(args: Args) {
    let run = Arc::new(Run::new(
        args.clone(),
        "translation_validation",
        "programs = DesignGen designs (basic / default / wide / explicit clock+reset types, `for` statements off) and targeted templates \
         (multiply/divide, shifts, wide muxes, case decoding, counters, prefix-friendly scans, arrays written in always_ff at a runtime \
         index, 3-level hierarchy incl. child memories, interfaces/modports, reset/clock flavours with non-zero and >64-bit reset values, \
         enum FSM + function), filtered by the real analyzer and by `synth` itself; each accepted program is synthesized for 4 libraries \
         x RamConfig variants on both sides of its array sizes and port counts x env arms (default, VERYL_SYNTH_NO_RAM, \
         VERYL_SYNTH_NO_RESTRUCTURE) and every netlist is run against the RTL trace of the real simulator on a random reset+input \
         stimulus; non-trivial = at least one netlist was evaluated, >= 50% of its output bits were comparable (not X) and the RTL trace \
         is not constant after reset; distinct = distinct design texts",
    ));
    run.assume("the 2-state interpreter (Config::default) is the RTL reference; C01/C02/C18 judge the simulator itself");
    run.assume("gateval implements the cell/FF/RAM semantics documented in synthesizer/src/ir.rs (self-test on hand netlists runs first)");
    run.assume("a gate-side X (unwritten RAM word, FF without reset before its first known write, state that depends on whether an async reset acts before or after the same edge) is not comparable and is skipped and counted");
    run.assume("when two enabled write ports of one RAM hit the same word in one edge, later ports win (program order); such runs are counted as ram_write_collisions");

    let fails = crate::gateval::self_test();
    // MON_SYNTH_SKIP_SELFTEST exists only to demonstrate that a wrong evaluator would be noticed by the traces too
    if !fails.is_empty() && std::env::var_os("MON_SYNTH_SKIP_SELFTEST").is_none() {
        for f in &fails {
            run.note(format!("gateval self-test: {f}"));
        }
        run.inconclusive(format!("gateval self-test failed ({} checks)", fails.len()));
        run.finish(&[]);
    }
    run.count("gateval_selftest_ok", 1);

    let seed = args.seed;
    if let Some(rp) = &args.replay {
        let v: Json = serde_json::from_str(&std::fs::read_to_string(rp).expect("replay file")).expect("replay json");
        let i = v["case"]["case_index"].as_u64().expect("case_index");
        let rseed = v["seed"].as_u64().unwrap_or(seed);
        let arm = v["case"]["arm"].as_str().unwrap_or("default").to_string();
        let var = ARMS.iter().find(|a| a.0 == arm).and_then(|a| a.1);
        set_arm(var);
        let mut o = opts_for(&args, &arm, true, false);
        o.cycles = v["case"]["cycles"].as_u64().unwrap_or(o.cycles as u64) as usize;
        o.thorough = v["tier"].as_str() == Some("thorough");
        o.libs = vec![0, 1, 2, 3];
        o.max_ram_cfgs = 8;
        let o2 = o.clone();
        let r = vcommon::pool::fresh_thread(STACK_64M, move || run_case(rseed, i, &o2));
        run.eval();
        report(&run, &o, i, r);
        run.finish(&[]);
    }

    let n = args.budget("cases", 147, 4200);
    for (arm, var) in ARMS.iter() {
        if let Some(only) = args.get("arm")
            && only != *arm
        {
            continue;
        }
        set_arm(*var);
        let o = opts_for(&args, arm, true, false);
        let run2 = run.clone();
        let o2 = o.clone();
        let o3 = o.clone();
        par_cases(
            n,
            args.jobs,
            STACK_64M,
            move |i| {
                let mut oo = o2.clone();
                if oo.libs.is_empty() {
                    oo.libs = arm_libs(i);
                }
                run_case(seed, i, &oo)
            },
            move |i, r| {
                run2.eval();
                report(&run2, &o3, i, r);
            },
        );
    }
    set_arm(None);
    run.finish(&[
        ("programs", 40),
        ("disagreements_checked", 300),
        ("output_bits_compared", 200_000),
        ("netlists_with_ff", 60),
        ("netlists_with_ram", 10),
        ("netlists_with_compound_cells", 100),
        ("libraries", 4),
        ("arms", 3),
        ("template_kinds", 10),
        ("instances_with_constant_tied_ports", 15),
        ("compound_cells_in_flattened_children", 15),
        ("ao22_cells_in_flattened_children", 3),
        ("frozen_registers", 6),
        ("frozen_ff_feeds_ff_directly", 8),
    ]);
}

pub fn report(run: &Run, o: &Opts, i: u64, r: Result<CaseOut, PanicInfo>) {
    let arm = o.arm.as_str();
    let out = match r {
        Err(p) => {
            // a panic of the synthesizer/simulator on an accepted design is C11's business, not a trace disagreement
            run.count("cases_panicked_not_judged", 1);
            run.note(format!("case {i} arm {arm}: panic at {}: {}", p.location, p.message.chars().take(160).collect::<String>()));
            return;
        }
        Ok(o) => o,
    };
    if out.status != "ok" {
        let key = out.status.split(':').next().unwrap_or("").to_string();
        run.count(&format!("not_run_{key}"), 1);
        if arm == "default" {
            run.seen("analyzer_rejections", &format!("{}:{}", out.kind, out.status.chars().take(90).collect::<String>()));
            if !out.kind.starts_with("dg_") {
                run.note(format!("case {i} ({}): template not accepted: {}", out.kind, out.status.chars().take(200).collect::<String>()));
            }
        }
        return;
    }
    let d = out.design.as_ref().unwrap();
    let stim = out.stim.as_ref().unwrap();
    let mut evaluated = 0u64;
    let mut compared = 0u64;
    let mut skipped = 0u64;
    run.seen("arms", arm);
    for c in &out.cfgs {
        if let Some(e) = &c.synth_err {
            run.count("synth_rejections", 1);
            run.seen("synth_rejection_kinds", e);
            continue;
        }
        run.count("netlists", 1);
        run.count(&format!("netlists_arm_{arm}"), 1);
        run.seen("libraries", c.lib);
        run.count(&format!("netlists_lib_{}", c.lib), 1);
        run.seen("ram_configs", &c.ram_cfg.split(|ch: char| ch.is_ascii_digit()).next().unwrap_or("").to_string());
        if c.info.ffs > 0 {
            run.count("netlists_with_ff", 1);
        }
        if c.info.rams > 0 {
            run.count("netlists_with_ram", 1);
            run.count("ram_blocks", c.info.rams as i64);
            if c.info.ram_masked_ports > 0 {
                run.count("netlists_with_masked_ram_port", 1);
            }
            if c.info.ram_write_ports > c.info.rams {
                run.count("netlists_with_multi_write_ram", 1);
            }
        }
        if c.info.compound > 0 {
            run.count("netlists_with_compound_cells", 1);
        }
        if c.info.ffs_reset_to_one > 0 {
            run.count("netlists_with_nonzero_reset_value", 1);
        }
        if c.info.ffs_without_reset > 0 {
            run.count("netlists_with_unreset_ff", 1);
        }
        for f in &c.info.ff_flavours {
            run.seen("ff_flavours", f);
        }
        run.count("cells_evaluated_designs", c.info.cells as i64);
        match &c.eval {
            None => {}
            Some(Err(e)) => {
                let key = if e.starts_with("Malformed") { "gateval_malformed_netlist" } else { "gateval_unsupported_shape" };
                run.count(key, 1);
                run.seen("gateval_refusals", &e.chars().take(100).collect::<String>());
                if e.contains("used net without driver") {
                    // the netlist reads a net nothing drives: whatever it computes there, it is not the RTL's value
                    run.violation(
                        &format!("netlist-reads-undriven-net:{}", out.kind),
                        &format!("case {i} ({}) {arm}/{}/{}: {e}", out.kind, c.lib, c.ram_cfg),
                        json!({"case_index": i, "arm": arm, "library": c.lib, "ram_config": c.ram_cfg, "cycles": o.cycles, "kind": out.kind,
                               "detail": e, "netlist": {"cells": c.info.cells, "ffs": c.info.ffs, "ram_blocks": c.info.rams}, "design": d.text}),
                    );
                }
            }
            Some(Ok(g)) => {
                evaluated += 1;
                compared += g.bits_compared;
                skipped += g.bits_gate_x;
                run.count("disagreements_checked", 1);
                run.count("output_bits_compared", g.bits_compared as i64);
                run.count("output_bits_skipped_gate_x", g.bits_gate_x as i64);
                run.count("output_bits_skipped_rtl_xz", g.bits_rtl_xz as i64);
                run.count("cycles_compared", g.cycles as i64);
                run.count("ram_writes_committed", g.stats.ram_writes_committed as i64);
                run.count("ram_masked_writes_committed", g.stats.ram_masked_writes as i64);
                run.count("ram_reads_known", g.stats.ram_reads_known as i64);
                run.count("ram_write_collisions", g.stats.ram_write_collisions as i64);
                run.count("reset_order_ambiguous_bits", g.stats.reset_order_ambiguous_bits as i64);
                run.count("ff_resets_applied", g.stats.ff_resets as i64);
                if let Some(m) = &g.mismatch {
                    run.count("trace_mismatches", 1);
                    if g.stats.ram_write_collisions > 0 {
                        // port order between colliding write ports is not specified by ir.rs
                        run.count("mismatch_after_ram_write_collision_not_judged", 1);
                        run.note(format!("case {i} {arm}/{}/{}: mismatch after a same-word write collision — not judged", c.lib, c.ram_cfg));
                        continue;
                    }
                    if let Some(why) = &out.rtl_engines_disagree {
                        // the simulator's own engines disagree on this design: C02/C03's subject, no stable RTL reference here
                        run.count("mismatches_not_judged_rtl_engines_disagree", 1);
                        run.seen("rtl_engine_disagreement_cases", &format!("{}:{i}", out.kind));
                        run.note(format!("case {i} ({}) {arm}: netlist/RTL mismatch not judged — {why}", out.kind));
                        continue;
                    }
                    let phase = if m.in_reset_cycle || m.cycle < 2 { "reset-state" } else { "running" };
                    let ramtag = if c.info.rams > 0 { "ram" } else { "noram" };
                    // probes of known defect classes and vgen's DesignGen (which mixes several of them)
                    // are keyed by kind alone; everything else also by phase and RAM presence
                    let sig = if out.kind.starts_with("known_") || out.kind.starts_with("simdefect_") || out.kind.starts_with("dg_") {
                        format!("trace-mismatch:{}", out.kind)
                    } else {
                        format!("trace-mismatch:{}:{phase}:{ramtag}", out.kind)
                    };
                    run.violation(
                        &sig,
                        &format!(
                            "case {i} ({}) {arm}/{}/{}: cycle {} output {} bit {}: netlist {} vs RTL {}",
                            out.kind, c.lib, c.ram_cfg, m.cycle, m.output, m.bit, m.gate, m.rtl
                        ),
                        json!({
                            "case_index": i, "arm": arm, "library": c.lib, "ram_config": c.ram_cfg, "cycles": o.cycles,
                            "kind": out.kind, "features": d.features,
                            "mismatch": {"cycle": m.cycle, "output": m.output, "bit": m.bit, "netlist_value": m.gate, "rtl_value": m.rtl, "reset_asserted_in_that_cycle": m.in_reset_cycle},
                            "netlist": {"cells": c.info.cells, "ffs": c.info.ffs, "ram_blocks": c.info.rams, "ffs_reset_to_one": c.info.ffs_reset_to_one},
                            "stimulus_up_to_mismatch": stim_json(stim, m.cycle),
                            "design": d.text,
                        }),
                    );
                }
            }
        }
    }
    if evaluated > 0 {
        if arm == "default" && out.const_tied > 0 {
            run.count("hierarchy_designs_with_constant_tie_offs", 1);
            run.count("instances_with_constant_tied_ports", out.const_tied as i64);
            run.count("compound_cells_in_flattened_children", out.child_compound.0 as i64);
            run.count("ao22_cells_in_flattened_children", out.child_compound.1 as i64);
        }
        if arm == "default" {
            for (name, n) in &out.counters {
                run.count(name, *n);
            }
        }
        if arm == "default" {
            run.count("programs", 1);
            run.seen("template_kinds", &out.kind);
            for f in &d.features {
                run.seen("features", f);
            }
        }
        if out.rtl_varies && compared >= skipped {
            run.nontrivial(design_hash(d));
        }
        if compared < skipped {
            run.count("programs_mostly_x_skipped", 1);
        }
        let c0 = &out.cfgs[0];
        if arm == "default" && (i % 7 == 0 || c0.info.rams > 0) {
            run.sample(json!({
                "case_index": i, "kind": out.kind, "features": d.features, "cycles": o.cycles,
                "configs": out.cfgs.iter().map(|c| format!("{}/{}: {} cells {} ffs {} rams{}", c.lib, c.ram_cfg, c.info.cells, c.info.ffs, c.info.rams,
                    c.synth_err.as_ref().map(|e| format!(" REJECTED {e}")).unwrap_or_default())).collect::<Vec<_>>(),
                "bits_compared": compared, "bits_skipped_x": skipped,
                "first_cycles": stim_json(stim, 3),
                "design": d.text,
            }));
        }
    }
}
