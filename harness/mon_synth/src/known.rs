//! Small dedicated probes, one per *known* synthesizer defect class (notes/C19.md).
//! They keep each class observable under its own signature while the rest of the
//! workload (`cleangen`, the templates) stays clear of them.

use crate::workload::{B, Case};
use vcommon::Rng;

pub const KNOWN: [&str; 14] = [
    "known_width_div",
    "known_width_shr",
    "known_width_index",
    "known_sign_mix",
    "known_ashr_unsigned",
    "known_nba_read_after_write",
    "known_reset_indexed",
    "known_reset_wide",
    "known_cond_multibit",
    "known_cast_trunc",
    "known_allones_literal",
    "simdefect_fn_arg_context",
    "known_signed_compare",
    "known_signed_part_select",
];

pub fn probe(rng: &mut Rng, which: u64) -> Case {
    let k = (which % KNOWN.len() as u64) as usize;
    let kind = KNOWN[k];
    let mut b = B::new(kind);
    match k {
        0 => {
            // divisor wider than the assignment target: operands are truncated to the target width first
            let wn = 2 + rng.usize(6);
            let ww = wn + 1 + rng.usize(6);
            let a = b.input(wn, false);
            let c = b.input(ww, false);
            let o = b.output(wn, false);
            let op = if rng.bool() { "/" } else { "%" };
            b.b(&format!("    assign {o} = {a} {op} ({c} | 1);"));
        }
        1 => {
            let ww = 6 + rng.usize(10);
            let wn = 2 + rng.usize(ww - 3);
            let a = b.input(ww, false);
            let s = b.input(3, false);
            let o = b.output(wn, false);
            if rng.bool() {
                b.b(&format!("    assign {o} = {a} >> {s};"));
            } else {
                b.b(&format!("    assign {o} = {a} >> {};", 1 + rng.usize(ww - wn)));
            }
        }
        2 => {
            // index expression evaluated at clog2(n) bits
            let n = *rng.pick(&[3usize, 5, 6, 7, 10]);
            let wi = 5 + rng.usize(4);
            let x = b.input(n.max(4), false);
            let i = b.input(wi, false);
            let o = b.output(1, false);
            b.b(&format!("    assign {o} = {x}[{i} % {n}];"));
        }
        3 => {
            let ws = 3 + rng.usize(6);
            let wo = ws + 2 + rng.usize(6);
            let a = b.input(ws, true);
            let u = b.input(2 + rng.usize(3), false);
            let o = b.output(wo, false);
            let op = *rng.pick(&["^", "+", "|"]);
            b.b(&format!("    assign {o} = {a} {op} {{{u} repeat 1}};"));
        }
        4 => {
            let w = 4 + rng.usize(10);
            let a = b.input(w, false);
            let s = b.input(3, false);
            let o = b.output(w, false);
            b.b(&format!("    assign {o} = {a} >>> {s};"));
        }
        5 => {
            b.has_ff = true;
            let w = 3 + rng.usize(6);
            let lim = b.input(w, false);
            let o0 = b.output(w, false);
            let o1 = b.output(1, false);
            b.d(&format!("    var n: logic<{w}>;\n    var f: logic;"));
            b.b(&format!(
                "    always_ff {{\n        if_reset {{\n            n = 0;\n            f = 0;\n        }} else {{\n            n = n + 1;\n            f = n >= {lim};\n        }}\n    }}\n    assign {o0} = n;\n    assign {o1} = f;"
            ));
        }
        6 => {
            b.has_ff = true;
            let w = 2 + rng.usize(8);
            let en = b.input(1, false);
            let d = b.input(w, false);
            let o0 = b.output(w, false);
            let o1 = b.output(w, false);
            let v0 = 1 + rng.below((1u64 << w) - 1);
            let v1 = 1 + rng.below((1u64 << w) - 1);
            b.d(&format!("    var ra: logic<{w}> [2];"));
            b.b(&format!(
                "    always_ff {{\n        if_reset {{\n            ra[0] = {w}'d{v0};\n            ra[1] = {w}'d{v1};\n        }} else if {en} {{\n            ra[0] = {d};\n        }}\n    }}\n    assign {o0} = ra[0];\n    assign {o1} = ra[1];"
            ));
        }
        7 => {
            b.has_ff = true;
            let w = 65 + rng.usize(30);
            let d = b.input(w, false);
            let o = b.output(w, false);
            let hi = 1 + rng.below(0xff) % ((1u64 << (w - 64).min(8)) - 1).max(1);
            b.d(&format!("    var r: logic<{w}>;"));
            b.b(&format!(
                "    always_ff {{\n        if_reset {{\n            r = {w}'h{hi:x}{:016x};\n        }} else {{\n            r = r ^ {d};\n        }}\n    }}\n    assign {o} = r;",
                rng.next_u64()
            ));
        }
        8 => {
            let w = 2 + rng.usize(6);
            let c = b.input(w, false);
            let x = b.input(4, false);
            let o = b.output(4, false);
            b.b(&format!("    assign {o} = if {c} ? {x} : ~{x};"));
        }
        9 => {
            let w = 6 + rng.usize(8);
            let m = 2 + rng.usize(w - 3);
            let a = b.input(w, false);
            let c = b.input(w, false);
            let o = b.output(w, false);
            b.b(&format!("    assign {o} = (({a} + {c}) as {m});"));
        }
        10 => {
            // '1 (all ones at the context width) is synthesized as the value 1
            let w = 3 + rng.usize(20);
            let s = b.input(1, false);
            let x = b.input(w, false);
            let o = b.output(w, false);
            b.b(&format!("    assign {o} = if {s} ? '1 : {x};"));
        }
        11 => {
            // root cause on the RTL side: the simulator evaluates a function argument expression at its own
            // width instead of the formal's (IEEE 1800 assignment-like context); the netlist follows IEEE
            let wa = 4 + rng.usize(4);
            let wi = 2 + rng.usize(wa - 3);
            let i = b.input(wi, false);
            let o = b.output(wa + 2, false);
            b.d(&format!("    function f0 (\n        a0: input logic<{wa}>,\n    ) -> logic<{}> {{\n        return a0 + 1;\n    }}", wa + 1));
            b.b(&format!("    assign {o} = f0(({i} << {i}));"));
        }
        12 => {
            // both operands signed: the comparison must be signed whatever the target's type is
            let w = 3 + rng.usize(8);
            let a = b.input(w, true);
            let c = b.input(w, true);
            let o = b.output(1 + rng.usize(6), false);
            let op = *rng.pick(&["<:", "<=", ">:", ">="]);
            b.b(&format!("    assign {o} = {a} {op} {c};"));
        }
        13 => {
            // a bit / part select of a signed variable is unsigned: it must be zero-extended
            let w = 3 + rng.usize(6);
            let a = b.input(w, true);
            let o = b.output(w + 3, false);
            let hi = 1 + rng.usize(w - 2);
            b.b(&format!("    assign {o} = {a}[{hi}:0];"));
        }
        _ => unreachable!(),
    }
    b.finish(kind)
}
