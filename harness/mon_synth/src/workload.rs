//! Workload shared by C19 / C20 / C21: DesignGen designs in the synthesizable
//! subset plus targeted templates (multiply/divide, shifts, wide muxes, case
//! decoding, counters, prefix-friendly scans, RAM-shaped arrays, hierarchy,
//! interfaces, reset/clock flavours, FSMs).  Case `i` of seed `S` is always the
//! same design + stimulus for all three checks (stream name "C19").

use vcommon::Rng;
use veryl_metadata::Library;
use veryl_synthesizer::RamConfig;
use vgen::design::{Design, GenOpts, Port, generate};

pub const LIBS: [(Library, &str); 4] =
    [(Library::Sky130, "sky130"), (Library::Asap7, "asap7"), (Library::Gf180mcu, "gf180mcu"), (Library::IhpSg13g2, "ihp-sg13g2")];

pub struct Case {
    pub kind: String,
    pub design: Design,
    /// stored bits of every unpacked array that is written in an always_ff (RAM candidates)
    pub arrays: Vec<usize>,
    /// ports (reads, writes) of the largest candidate, for the port-limit configs
    pub ports: (usize, usize),
    /// child modules (fixed widths, no parameters) that the top instantiates — synthesized on their own to
    /// count the compound cells that exist *before* flattening
    pub children: Vec<String>,
    /// instances of the top (and of nested children) with at least one port tied to a constant / partly constant value
    pub const_tied: usize,
    /// construction-time facts about the design that go into the evidence as counters
    pub counters: Vec<(String, i64)>,
}

fn ty(w: usize, signed: bool) -> String {
    let s = if signed { "signed " } else { "" };
    if w == 1 { format!("{s}logic") } else { format!("{s}logic<{w}>") }
}

pub fn clog2(n: usize) -> usize {
    let mut b = 0;
    while (1usize << b) < n {
        b += 1;
    }
    b.max(1)
}

pub struct B {
    pub pre: String,
    pub decl: String,
    pub body: String,
    pub inputs: Vec<Port>,
    pub outputs: Vec<Port>,
    pub feats: Vec<String>,
    pub has_ff: bool,
    pub arrays: Vec<usize>,
    pub ports: (usize, usize),
    pub clk_ty: String,
    pub rst_ty: String,
    pub children: Vec<String>,
    pub const_tied: usize,
    pub counters: Vec<(String, i64)>,
}

impl B {
    pub fn new(name: &str) -> B {
        B {
            pre: String::new(),
            decl: String::new(),
            body: String::new(),
            inputs: vec![],
            outputs: vec![],
            feats: vec![name.to_string()],
            has_ff: false,
            arrays: vec![],
            ports: (0, 0),
            clk_ty: "clock".into(),
            rst_ty: "reset".into(),
            children: vec![],
            const_tied: 0,
            counters: vec![],
        }
    }
    pub fn tally(&mut self, name: &str, n: i64) {
        match self.counters.iter_mut().find(|c| c.0 == name) {
            Some(c) => c.1 += n,
            None => self.counters.push((name.to_string(), n)),
        }
    }
    pub fn feat(&mut self, f: &str) {
        if !self.feats.iter().any(|x| x == f) {
            self.feats.push(f.to_string());
        }
    }
    pub fn input(&mut self, w: usize, signed: bool) -> String {
        // i8 / i16 / i32 / i64 are type keywords
        let n = self.inputs.len();
        let name = if matches!(n, 8 | 16 | 32 | 64) { format!("in{n}") } else { format!("i{n}") };
        self.inputs.push(Port { name: name.clone(), width: w, signed, output: false });
        name
    }
    pub fn output(&mut self, w: usize, signed: bool) -> String {
        let name = format!("o{}", self.outputs.len());
        self.outputs.push(Port { name: name.clone(), width: w, signed, output: true });
        name
    }
    pub fn d(&mut self, s: &str) {
        self.decl.push_str(s);
        self.decl.push('\n');
    }
    pub fn b(&mut self, s: &str) {
        self.body.push_str(s);
        self.body.push('\n');
    }
    pub fn finish(self, kind: &str) -> Case {
        let mut text = String::new();
        text.push_str(&self.pre);
        text.push_str("module Top (\n");
        text.push_str(&format!("    i_clk: input {},\n    i_rst: input {},\n", self.clk_ty, self.rst_ty));
        for p in &self.inputs {
            text.push_str(&format!("    {}: input {},\n", p.name, ty(p.width, p.signed)));
        }
        for p in &self.outputs {
            text.push_str(&format!("    {}: output {},\n", p.name, ty(p.width, p.signed)));
        }
        text.push_str(") {\n");
        text.push_str(&self.decl);
        text.push_str(&self.body);
        text.push_str("}\n");
        Case {
            kind: kind.to_string(),
            design: Design {
                text,
                top: "Top".into(),
                clock: "i_clk".into(),
                reset: "i_rst".into(),
                inputs: self.inputs,
                outputs: self.outputs,
                features: self.feats,
                has_ff: self.has_ff,
            },
            arrays: self.arrays,
            ports: self.ports,
            children: self.children,
            const_tied: self.const_tied,
            counters: self.counters,
        }
    }
}

fn lit(rng: &mut Rng, w: usize) -> String {
    let v = match rng.below(4) {
        0 => 0u64,
        1 => u64::MAX,
        _ => rng.next_u64(),
    };
    let v = if w >= 64 { v } else { v & ((1u64 << w) - 1) };
    format!("{w}'h{v:x}")
}

// ---------------------------------------------------------------- templates

fn t_muldiv(rng: &mut Rng) -> Case {
    let mut b = B::new("muldiv");
    let signed = rng.chance(1, 3);
    let m1 = if rng.chance(1, 5) { 30 } else { 11 };
    let m2 = if rng.chance(1, 5) { 20 } else { 11 };
    let w1 = 2 + rng.usize(m1);
    let w2 = 2 + rng.usize(m2);
    let a = b.input(w1, signed);
    let c = b.input(w2, signed);
    if signed {
        b.feat("signed");
    }
    let n = 2 + rng.usize(3);
    for _ in 0..n {
        match rng.below(7) {
            0 | 1 => {
                let wo = w1.max(w2) + rng.usize(w1.min(w2) + 2);
                let o = b.output(wo, signed);
                b.b(&format!("    assign {o} = {a} * {c};"));
                b.feat("mul");
            }
            2 => {
                let k = 3 + rng.below(200);
                let o = b.output(w1 + 8, signed);
                b.b(&format!("    assign {o} = {a} * {k};"));
                b.feat("mul_const");
            }
            3 => {
                let o = b.output(w1.max(w2) + rng.usize(3), signed);
                b.b(&format!("    assign {o} = {a} / ({c} | 1);"));
                b.feat("div");
            }
            4 => {
                let o = b.output(w1.max(w2) + rng.usize(3), signed);
                b.b(&format!("    assign {o} = {a} % ({c} | 1);"));
                b.feat("mod");
            }
            5 => {
                // the literal must fit the operand width (a wider divisor is the known width defect)
                let maxk = (1u64 << (if signed { w1 - 1 } else { w1 }).min(5)) - 1;
                let k = if maxk <= 2 { 1 } else { 2 + rng.below(maxk - 1) };
                let o = b.output(w1, signed);
                let op = if rng.bool() { "/" } else { "%" };
                b.b(&format!("    assign {o} = {a} {op} {k};"));
                b.feat("divmod_const");
            }
            _ if b.has_ff || signed => {
                let wo = w1.max(w2) + 1;
                let o = b.output(wo, signed);
                b.b(&format!("    assign {o} = {a} + {c};"));
            }
            _ => {
                // multiply-accumulate through a register (unsigned operands: acc is unsigned)
                let wo = w1 + w2;
                let o = b.output(wo, false);
                b.d(&format!("    var acc: logic<{wo}>;"));
                b.b(&format!(
                    "    always_ff {{\n        if_reset {{\n            acc = 0;\n        }} else {{\n            acc = acc + {a} * {c};\n        }}\n    }}\n    assign {o} = acc;"
                ));
                b.has_ff = true;
                b.feat("mac");
            }
        }
    }
    b.finish("muldiv")
}

fn t_shift(rng: &mut Rng) -> Case {
    let mut b = B::new("shift");
    let signed = rng.chance(1, 2);
    let mw = if rng.chance(1, 4) { 80 } else { 30 };
    let w = 2 + rng.usize(mw);
    let ws = 1 + rng.usize(8);
    let a = b.input(w, signed);
    let s = b.input(ws, false);
    if signed {
        b.feat("signed");
    }
    let n = 2 + rng.usize(4);
    for _ in 0..n {
        let op = if signed { *rng.pick(&["<<", ">>", ">>>", "<<<"]) } else { *rng.pick(&["<<", ">>", "<<<", ">>"]) };
        let right = op.starts_with('>');
        let wo = if rng.chance(1, 3) {
            w + rng.usize(12)
        } else if !right && rng.chance(1, 4) {
            1 + rng.usize(w)
        } else {
            w
        };
        let o = b.output(wo, signed && rng.bool());
        match rng.below(3) {
            0 => {
                let k = rng.below((w + 4) as u64);
                b.b(&format!("    assign {o} = {a} {op} {k};"));
                b.feat("shift_const");
            }
            _ => {
                b.b(&format!("    assign {o} = {a} {op} {s};"));
                b.feat("shift_var");
            }
        }
        if op == ">>>" {
            b.feat("arith_shift_right");
        }
    }
    b.finish("shift")
}

fn t_widemux(rng: &mut Rng) -> Case {
    let mut b = B::new("widemux");
    let w = 1 + rng.usize(16);
    let pow2 = rng.bool();
    let n = if pow2 { 1usize << (2 + rng.usize(3)) } else { 5 + rng.usize(16) };
    let ws = clog2(n) + if pow2 { 0 } else { rng.usize(2) };
    let d = b.input(n * w, false);
    let sel = b.input(ws, false);
    let dflt = b.input(w, false);
    let o = b.output(w, false);
    let mut arms = String::new();
    for k in 0..n {
        arms.push_str(&format!("        {k}: {d}[{}+:{w}],\n", k * w));
    }
    b.b(&format!("    assign {o} = case {sel} {{\n{arms}        default: {dflt},\n    }};"));
    b.feat("case_expr_mux");
    if pow2 {
        let o2 = b.output(w, false);
        b.d(&format!("    var arr: logic<{w}> [{n}];"));
        for k in 0..n {
            b.b(&format!("    assign arr[{k}] = {d}[{}+:{w}] ^ {dflt};", k * w));
        }
        b.b(&format!("    assign {o2} = arr[{sel}];"));
        b.feat("array_dynamic_read");
    }
    if rng.bool() {
        // nested ternary chain
        let o3 = b.output(w, false);
        let mut e = dflt.clone();
        for k in (0..n.min(9)).rev() {
            e = format!("(if {sel} == {k} ? {d}[{}+:{w}] : {e})", k * w);
        }
        b.b(&format!("    assign {o3} = {e};"));
        b.feat("ternary_chain");
    }
    if w > 1 && (1usize << ws) <= n * w && rng.bool() {
        // the index cannot leave the vector (an out-of-range select is X in SV: nothing to compare)
        let o4 = b.output(1, false);
        b.b(&format!("    assign {o4} = {d}[{sel}];"));
        b.feat("dynamic_bit_select");
    }
    b.finish("widemux")
}

fn t_decode(rng: &mut Rng) -> Case {
    let mut b = B::new("decode");
    let wop = 3 + rng.usize(4);
    let w = 4 + rng.usize(20);
    let op = b.input(wop, false);
    let x = b.input(w, false);
    let y = b.input(w, false);
    let wo = 4 + rng.usize(13);
    let o0 = b.output(wo, false);
    let o1 = b.output(w, false);
    let mut s = String::new();
    s.push_str(&format!("    always_comb {{\n        {o0} = 0;\n        {o1} = {x};\n        case {op} {{\n"));
    let mut next = 0u64;
    let arms = 3 + rng.usize(6);
    for _ in 0..arms {
        let lo = next + rng.below(2);
        let hi = lo + rng.below(3);
        next = hi + 1;
        if hi >= (1u64 << wop) {
            break;
        }
        let label = match rng.below(3) {
            0 => format!("{lo}"),
            1 => format!("{lo}..={hi}"),
            _ if hi > lo => format!("{lo}, {hi}"),
            _ => format!("{lo}"),
        };
        let e = match rng.below(6) {
            0 => format!("{x} + {y}"),
            1 => format!("{x} - {y}"),
            2 => format!("{x} & {y}"),
            3 => format!("~({x} | {y})"),
            4 => format!("{x} ^ {}", lit(rng, w)),
            _ => format!("{{{y}[0], {x}[{}:1]}}", w - 1),
        };
        s.push_str(&format!("            {label}: {{\n                {o0} = {};\n                {o1} = {e};\n            }}\n", lit(rng, wo)));
    }
    if rng.chance(3, 4) {
        s.push_str(&format!("            default: {{\n                {o0} = {};\n            }}\n", lit(rng, wo)));
    }
    s.push_str("        }\n    }");
    b.b(&s);
    b.feat("case_stmt");
    // one-hot decoder + switch
    let o2 = b.output(1usize << wop.min(4), false);
    b.b(&format!("    assign {o2} = 1 << {op}[{}:0];", wop.min(4) - 1));
    b.feat("onehot_decode");
    let o3 = b.output(3, false);
    b.b(&format!(
        "    always_comb {{\n        switch {{\n            {x} == {y}: {{\n                {o3} = 1;\n            }}\n            {x} <: {y}: {{\n                {o3} = 2;\n            }}\n            {op}[0]: {{\n                {o3} = 4;\n            }}\n            default: {{\n                {o3} = 7;\n            }}\n        }}\n    }}"
    ));
    b.feat("switch_stmt");
    b.finish("decode")
}

fn t_counter(rng: &mut Rng) -> Case {
    let mut b = B::new("counter");
    b.has_ff = true;
    let mw = if rng.chance(1, 4) { 60 } else { 20 };
    let w = 3 + rng.usize(mw);
    let en = b.input(1, false);
    let clr = b.input(1, false);
    let load = b.input(1, false);
    let dv = b.input(w, false);
    let o0 = b.output(w, false);
    b.d(&format!("    var cnt: logic<{w}>;"));
    let init = if rng.bool() { "0".to_string() } else { lit(rng, w.min(64)) };
    let step = match rng.below(5) {
        0 => "cnt - 1".to_string(),
        1 => format!("cnt + {}", 2 + rng.below(5)),
        2 => format!("if {dv}[0] ? cnt + 1 : cnt - 1"),
        _ => "cnt + 1".to_string(),
    };
    let mut s = format!("    always_ff {{\n        if_reset {{\n            cnt = {init};\n        }}");
    let shape = rng.below(4);
    if shape >= 1 {
        s.push_str(&format!(" else if {clr} {{\n            cnt = 0;\n        }}"));
    }
    if shape >= 2 {
        s.push_str(&format!(" else if {load} {{\n            cnt = {dv};\n        }}"));
    }
    if shape == 3 || rng.bool() {
        s.push_str(&format!(" else if {en} {{\n            cnt = {step};\n        }}\n    }}"));
        b.feat("counter_enable");
    } else {
        s.push_str(&format!(" else {{\n            cnt = {step};\n        }}\n    }}"));
        b.feat("counter_free");
    }
    b.b(&s);
    b.b(&format!("    assign {o0} = cnt;"));
    let o1 = b.output(1, false);
    b.b(&format!("    assign {o1} = cnt == {};", lit(rng, w.min(64))));
    if rng.bool() {
        let o2 = b.output(w, false);
        b.b(&format!("    assign {o2} = cnt ^ (cnt >> 1);"));
        b.feat("gray");
    }
    if rng.bool() {
        // a second, free-running counter and a wrap-around comparator
        let w2 = 2 + rng.usize(12);
        let lim = 1 + rng.below((1u64 << w2) - 1);
        let o3 = b.output(w2, false);
        b.d(&format!("    var c2: logic<{w2}>;"));
        b.b(&format!(
            "    always_ff {{\n        if_reset {{\n            c2 = 0;\n        }} else {{\n            if c2 == {lim} {{\n                c2 = 0;\n            }} else {{\n                c2 = c2 + 1;\n            }}\n        }}\n    }}\n    assign {o3} = c2;"
        ));
        b.feat("counter_wrap");
    }
    b.finish("counter")
}

fn t_scan(rng: &mut Rng) -> Case {
    let mut b = B::new("scan");
    let mw = if rng.chance(1, 3) { 120 } else { 28 };
    let w = 4 + rng.usize(mw);
    let x = b.input(w, false);
    let y = b.input(w, false);
    let n = 2 + rng.usize(4);
    let mut used = vec![];
    for _ in 0..n {
        let v = rng.below(10);
        if used.contains(&v) {
            continue;
        }
        used.push(v);
        match v {
            0 | 1 | 2 => {
                let op = ["|", "&", "^"][v as usize];
                let o = b.output(w, false);
                b.b(&format!("    assign {o}[0] = {x}[0];\n    for k in 1..{w} :g{v} {{\n        assign {o}[k] = {o}[k - 1] {op} {x}[k];\n    }}"));
                b.feat(&format!("scan_{}", ["or", "and", "xor"][v as usize]));
            }
            3 => {
                let wi = clog2(w.min(16) + 1);
                let o = b.output(wi, false);
                let ov = b.output(1, false);
                let mut s = format!("    always_comb {{\n        {o} = 0;\n        {ov} = 0;\n");
                for k in 0..w.min(16) {
                    let kw = if k == 0 { "if" } else { "else if" };
                    s.push_str(&format!("        {kw} {x}[{k}] {{\n            {o} = {k};\n            {ov} = 1;\n        }} "));
                }
                s.push_str("\n    }");
                b.b(&s);
                b.feat("priority_encoder");
            }
            4 => {
                let o = b.output(3, false);
                b.b(&format!("    assign {o} = {{&{x}, |{x}, ^{x}}};"));
                b.feat("wide_reduction");
            }
            5 => {
                let o = b.output(w + 1, false);
                b.b(&format!("    assign {o} = {x} + {y};"));
                b.feat("wide_add");
            }
            6 => {
                let o = b.output(4, false);
                b.b(&format!("    assign {o} = {{{x} <: {y}, {x} == {y}, {x} >= {y}, {x} != {y}}};"));
                b.feat("wide_compare");
            }
            7 => {
                let o = b.output(w, false);
                b.b(&format!("    assign {o} = {x} & (-{x});"));
                b.feat("lowest_set_bit");
            }
            8 => {
                let m = w.min(24);
                let wi = clog2(m + 1);
                let o = b.output(wi, false);
                let terms: Vec<String> = (0..m).map(|k| format!("({x}[{k}] as {wi})")).collect();
                b.b(&format!("    assign {o} = {};", terms.join(" + ")));
                b.feat("popcount_chain");
            }
            _ => {
                // long associative chains of one operator over slices
                let m = 3 + rng.usize(6);
                let sw = (w / m).max(1);
                let op = *rng.pick(&["&", "|", "^"]);
                let o = b.output(sw, false);
                let terms: Vec<String> = (0..m).map(|k| format!("{}[{}+:{sw}]", if k % 2 == 0 { &x } else { &y }, (k * sw).min(w - sw))).collect();
                b.b(&format!("    assign {o} = {};", terms.join(&format!(" {op} "))));
                b.feat("assoc_chain");
            }
        }
    }
    b.finish("scan")
}

/// Arrays written in always_ff at a runtime index.  No reset on the array (RAM
/// inference refuses reset arrays); every other register is reset.
fn t_ram(rng: &mut Rng) -> Case {
    let mut b = B::new("ram");
    b.has_ff = true;
    let variant = rng.below(8);
    // sizes sit on both sides of the default 1024-bit floor
    let (depth, w) = match rng.below(6) {
        0 => (4, 4 + rng.usize(5)),
        1 => (8, 4 + rng.usize(13)),
        2 => (16, 8),
        3 => (32, 32),      // 1024: exactly the default floor
        4 => (64, 16 + rng.usize(3)), // ≥1024
        _ => (1usize << (1 + rng.usize(4)), 1 + rng.usize(12)),
    };
    let depth = if variant == 7 { [3usize, 5, 6, 7, 12][rng.usize(5)] } else { depth };
    let aw = clog2(depth);
    b.arrays.push(depth * w);
    let we = b.input(1, false);
    let wa = b.input(aw, false);
    let wd = b.input(w, false);
    let ra = b.input(aw, false);
    b.d(&format!("    var mem: logic<{w}> [{depth}];"));
    let o0 = b.output(w, false);
    b.ports = (1, 1);
    match variant {
        0 | 1 => {
            b.b(&format!("    always_ff {{\n        if {we} {{\n            mem[{wa}] = {wd};\n        }}\n    }}"));
            b.b(&format!("    assign {o0} = mem[{ra}];"));
            b.feat("ram_1r1w");
        }
        2 => {
            // two read addresses, unconditional write
            let ra2 = b.input(aw, false);
            let o1 = b.output(w, false);
            b.b(&format!("    always_ff {{\n        mem[{wa}] = {wd} ^ {{{we} repeat {w}}};\n    }}"));
            b.b(&format!("    assign {o0} = mem[{ra}];\n    assign {o1} = mem[{ra2}] + mem[{ra}];"));
            b.ports = (2, 1);
            b.feat("ram_2r1w");
        }
        3 => {
            // two write sites (second wins on the same address)
            let we2 = b.input(1, false);
            let wa2 = b.input(aw, false);
            b.b(&format!(
                "    always_ff {{\n        if {we} {{\n            mem[{wa}] = {wd};\n        }}\n        if {we2} {{\n            mem[{wa2}] = ~{wd};\n        }}\n    }}"
            ));
            b.b(&format!("    assign {o0} = mem[{ra}];"));
            b.ports = (1, 2);
            b.feat("ram_1r2w");
        }
        4 => {
            // masked read-modify-write
            let mk = b.input(w, false);
            b.b(&format!("    always_ff {{\n        if {we} {{\n            mem[{wa}] = (mem[{wa}] & ~{mk}) | ({wd} & {mk});\n        }}\n    }}"));
            b.b(&format!("    assign {o0} = mem[{ra}];"));
            b.feat("ram_masked_rmw");
        }
        5 if w >= 4 => {
            // lane writes with per-lane enables
            let h = w / 2;
            let be = b.input(2, false);
            b.b(&format!(
                "    always_ff {{\n        if {we} {{\n            if {be}[0] {{\n                mem[{wa}][{}:0] = {wd}[{}:0];\n            }}\n            if {be}[1] {{\n                mem[{wa}][{}:{h}] = {wd}[{}:{h}];\n            }}\n        }}\n    }}",
                h - 1,
                h - 1,
                w - 1,
                w - 1
            ));
            b.b(&format!("    assign {o0} = mem[{ra}];"));
            b.feat("ram_lane_writes");
        }
        6 => {
            // registered read (sync-read style) + write inside a case arm
            let op = b.input(2, false);
            b.d(&format!("    var rq: logic<{w}>;"));
            b.b(&format!(
                "    always_ff {{\n        case {op} {{\n            1: {{\n                mem[{wa}] = {wd};\n            }}\n            2: {{\n                if {we} {{\n                    mem[{wa}] = {wd} + 1;\n                }}\n            }}\n            default: {{\n            }}\n        }}\n    }}"
            ));
            b.b(&format!("    always_ff {{\n        if_reset {{\n            rq = 0;\n        }} else {{\n            rq = mem[{ra}];\n        }}\n    }}\n    assign {o0} = rq;"));
            b.ports = (1, 2);
            b.feat("ram_registered_read_case_write");
        }
        _ => {
            // non power-of-two depth: addresses kept in range by construction
            b.b(&format!("    always_ff {{\n        if {we} && {wa} <: {depth} {{\n            mem[{wa}] = {wd};\n        }}\n    }}"));
            b.b(&format!("    assign {o0} = if {ra} <: {depth} ? mem[{ra}] : 0;"));
            b.feat("ram_npot_depth");
        }
    }
    if rng.bool() {
        // a reset register next to the memory so FF + RAM netlists occur
        let o = b.output(w, false);
        b.d(&format!("    var last: logic<{w}>;"));
        b.b(&format!("    always_ff {{\n        if_reset {{\n            last = {};\n        }} else if {we} {{\n            last = {wd};\n        }}\n    }}\n    assign {o} = last;", lit(rng, w)));
    }
    b.finish("ram")
}

fn t_hier(rng: &mut Rng) -> Case {
    let mut b = B::new("hier");
    b.has_ff = true;
    let w = 2 + rng.usize(12);
    let w2 = 2 + rng.usize(12);
    let op1 = *rng.pick(&["+", "-", "^", "&", "|"]);
    let op2 = *rng.pick(&["+", "-", "^"]);
    b.pre.push_str(&format!(
        "module Leaf #(\n    param W: u32 = 4,\n) (\n    i_clk: input clock,\n    i_rst: input reset,\n    a: input logic<W>,\n    b: input logic<W>,\n    y: output logic<W>,\n) {{\n    var r: logic<W>;\n    always_ff {{\n        if_reset {{\n            r = 0;\n        }} else {{\n            r = a {op1} b;\n        }}\n    }}\n    assign y = r {op2} a;\n}}\n\n"
    ));
    b.pre.push_str(
        "module Mid #(\n    param W: u32 = 4,\n) (\n    i_clk: input clock,\n    i_rst: input reset,\n    a: input logic<W>,\n    b: input logic<W>,\n    y: output logic<W>,\n) {\n    var t: logic<W>;\n    var t2: logic<W>;\n    inst u0: Leaf #(W: W) (\n        i_clk,\n        i_rst,\n        a: a,\n        b: b,\n        y: t,\n    );\n    inst u1: Leaf #(W: W) (\n        i_clk,\n        i_rst,\n        a: t,\n        b: a & b,\n        y: t2,\n    );\n    assign y = t2 - b;\n}\n\n",
    );
    let a = b.input(w, false);
    let c = b.input(w, false);
    let e = b.input(w2, false);
    let o0 = b.output(w, false);
    let o1 = b.output(w, false);
    let o2 = b.output(w2, false);
    b.d(&format!("    var m0: logic<{w}>;\n    var m1: logic<{w}>;\n    var l2: logic<{w2}>;"));
    b.b(&format!("    inst x0: Mid #(W: {w}) (\n        i_clk,\n        i_rst,\n        a: {a},\n        b: {c},\n        y: m0,\n    );"));
    b.b(&format!("    inst x1: Mid #(W: {w}) (\n        i_clk,\n        i_rst,\n        a: m0,\n        b: {a} ^ {c},\n        y: m1,\n    );"));
    b.b(&format!("    inst x2: Leaf #(W: {w2}) (\n        i_clk,\n        i_rst,\n        a: {e},\n        b: ~{e},\n        y: l2,\n    );"));
    b.b(&format!("    assign {o0} = m0;\n    assign {o1} = m1;\n    assign {o2} = l2;"));
    b.feat("three_levels");
    b.feat("repeated_child");
    if rng.bool() {
        // a child that owns a memory: its RAM block must survive flattening
        let depth = 1usize << (2 + rng.usize(3));
        let mw = 2 + rng.usize(10);
        let aw = clog2(depth);
        b.arrays.push(depth * mw);
        b.ports = (1, 1);
        b.pre.push_str(&format!(
            "module MemLeaf (\n    i_clk: input clock,\n    i_rst: input reset,\n    we: input logic,\n    wa: input logic<{aw}>,\n    wd: input logic<{mw}>,\n    ra: input logic<{aw}>,\n    rd: output logic<{mw}>,\n) {{\n    var mem: logic<{mw}> [{depth}];\n    always_ff {{\n        if we {{\n            mem[wa] = wd;\n        }}\n    }}\n    assign rd = mem[ra];\n}}\n\n"
        ));
        let we = b.input(1, false);
        let wa = b.input(aw, false);
        let wd = b.input(mw, false);
        let ra = b.input(aw, false);
        let twice = rng.bool();
        let o3 = b.output(mw, false);
        b.d(&format!("    var rd0: logic<{mw}>;"));
        b.b(&format!("    inst mm0: MemLeaf (\n        i_clk,\n        i_rst,\n        we: {we},\n        wa: {wa},\n        wd: {wd},\n        ra: {ra},\n        rd: rd0,\n    );"));
        if twice {
            b.arrays.push(depth * mw);
            b.d(&format!("    var rd1: logic<{mw}>;"));
            b.b(&format!("    inst mm1: MemLeaf (\n        i_clk,\n        i_rst,\n        we: ~{we},\n        wa: {ra},\n        wd: ~{wd},\n        ra: {wa},\n        rd: rd1,\n    );"));
            b.b(&format!("    assign {o3} = rd0 ^ rd1;"));
            b.feat("two_child_rams");
        } else {
            b.b(&format!("    assign {o3} = rd0;"));
        }
        b.feat("child_ram");
    }
    b.finish("hier")
}

/// Hierarchy with constant tie-offs: small children full of and-or structures, short adders,
/// comparators and muxes (so their own netlists already contain fused compound cells: AO21 / AO22 /
/// OA21 / …) are instantiated several times with some inputs tied to small constants or partly
/// constant concatenations; one child nests two others with tie-offs of its own.  Const-prop of
/// *compound* cells only happens on this path (a parent flattening an already converted child).
fn t_hierc(rng: &mut Rng) -> Case {
    let mut b = B::new("hierc");
    let w = 1 + rng.usize(3); // 1..3 bit operands: ripple carries fuse into AO21/AO22
    let m = (1u64 << w) - 1;
    // ---- children (fixed widths, no parameters)
    b.pre.push_str(&format!(
        "module HcAo (\n    a: input logic<{w}>,\n    b: input logic<{w}>,\n    c: input logic<{w}>,\n    d: input logic<{w}>,\n    y0: output logic<{w}>,\n    y1: output logic<{w}>,\n    y2: output logic<{w}>,\n    y3: output logic<{w}>,\n) {{\n    assign y0 = (a & b) | (c & d);\n    assign y1 = (a & b) | c;\n    assign y2 = (a | b) & (c | d);\n    assign y3 = ~((a & b) | (c & d));\n}}\n\n"
    ));
    let wa = w + 1;
    b.pre.push_str(&format!(
        "module HcAdd (\n    a: input logic<{w}>,\n    b: input logic<{w}>,\n    c: input logic<{w}>,\n    s: output logic<{wa}>,\n    t: output logic<{w}>,\n) {{\n    assign s = a + b;\n    assign t = (a + b) - c;\n}}\n\n"
    ));
    b.pre.push_str(&format!(
        "module HcCmp (\n    a: input logic<{w}>,\n    b: input logic<{w}>,\n    k: input logic,\n    y: output logic<4>,\n    z: output logic<{w}>,\n) {{\n    assign y = {{a <: b, a == b, a >= b, (a != b) & k}};\n    assign z = if k ? (if a <: b ? a : b) : (a ^ b);\n}}\n\n"
    ));
    let registered = rng.bool();
    if registered {
        b.has_ff = true;
        b.pre.push_str(&format!(
            "module HcReg (\n    i_clk: input clock,\n    i_rst: input reset,\n    a: input logic<{w}>,\n    b: input logic<{w}>,\n    e: input logic,\n    q: output logic<{w}>,\n) {{\n    always_ff {{\n        if_reset {{\n            q = 0;\n        }} else if e {{\n            q = (a & b) | (q & ~a);\n        }}\n    }}\n}}\n\n"
        ));
        b.children.push("HcReg".into());
    }
    // two-level nesting: HcMid instantiates HcAdd and HcAo with tie-offs of its own
    let k1 = 1 + rng.below(m.max(1));
    let k2 = rng.below(m + 1);
    b.pre.push_str(&format!(
        "module HcMid (\n    a: input logic<{w}>,\n    b: input logic<{w}>,\n    y: output logic<{wa}>,\n    v: output logic<{w}>,\n) {{\n    var s0: logic<{wa}>;\n    var t0: logic<{w}>;\n    var g0: logic<{w}>;\n    var g1: logic<{w}>;\n    var g2: logic<{w}>;\n    var g3: logic<{w}>;\n    inst m0: HcAdd (\n        a: a,\n        b: {w}'d{k1},\n        c: b,\n        s: s0,\n        t: t0,\n    );\n    inst m1: HcAo (\n        a: t0,\n        b: {w}'d{m},\n        c: {w}'d{k2},\n        d: b,\n        y0: g0,\n        y1: g1,\n        y2: g2,\n        y3: g3,\n    );\n    assign y = s0 ^ {{1'b0, g0}};\n    assign v = g1 ^ g2 ^ g3;\n}}\n\n"
    ));
    b.const_tied += 2;
    for c in ["HcAo", "HcAdd", "HcCmp", "HcMid"] {
        b.children.push(c.to_string());
    }
    // ---- top
    let nlive = 3 + rng.usize(2);
    let live: Vec<String> = (0..nlive).map(|_| b.input(w, false)).collect();
    let k = b.input(1, false);
    // one connection: live signal, small constant, or a partly constant concatenation
    let conn = |rng: &mut Rng, tied: &mut bool| -> String {
        match rng.below(8) {
            0 | 1 | 2 => rng.pick(&live).clone(),
            3 => {
                *tied = true;
                "0".to_string()
            }
            4 => {
                *tied = true;
                format!("{w}'d{}", 1 + rng.below(m.max(1)))
            }
            5 => {
                *tied = true;
                format!("{w}'d{m}")
            }
            6 if w >= 2 => {
                *tied = true;
                let x = rng.pick(&live).clone();
                if rng.bool() { format!("{{1'b{}, {x}[{}:0]}}", rng.below(2), w - 2) } else { format!("{{{x}[{}:1], 1'b{}}}", w - 1, rng.below(2)) }
            }
            _ => format!("({} ^ {})", rng.pick(&live), rng.pick(&live)),
        }
    };
    let n = 6 + rng.usize(5);
    let mut outs: Vec<(String, usize)> = vec![];
    for i in 0..n {
        let mut tied = false;
        match rng.below(if registered { 5 } else { 4 }) {
            0 => {
                let (mut a, mut bb, mut c, mut d) = (conn(rng, &mut tied), conn(rng, &mut tied), conn(rng, &mut tied), conn(rng, &mut tied));
                if rng.bool() {
                    // one product term dead (a 0 leg), the other with one leg tied high or to a small constant:
                    // the fused and-or cell has to fold to the surviving live leg
                    tied = true;
                    let hot = if rng.bool() { format!("{w}'d{m}") } else { format!("{w}'d{}", 1 + rng.below(m.max(1))) };
                    let l1 = rng.pick(&live).clone();
                    let l2 = rng.pick(&live).clone();
                    (a, bb, c, d) = match rng.below(4) {
                        0 => (hot, l1, "0".to_string(), l2),
                        1 => (l1, hot, l2, "0".to_string()),
                        2 => ("0".to_string(), l1, hot, l2),
                        _ => (l1, "0".to_string(), l2, hot),
                    };
                }
                for j in 0..4 {
                    b.d(&format!("    var hi{i}_y{j}: logic<{w}>;"));
                    outs.push((format!("hi{i}_y{j}"), w));
                }
                b.b(&format!("    inst hi{i}: HcAo (\n        a: {a},\n        b: {bb},\n        c: {c},\n        d: {d},\n        y0: hi{i}_y0,\n        y1: hi{i}_y1,\n        y2: hi{i}_y2,\n        y3: hi{i}_y3,\n    );"));
                b.feat("child_and_or");
            }
            1 => {
                let (a, bb, c) = (conn(rng, &mut tied), conn(rng, &mut tied), conn(rng, &mut tied));
                b.d(&format!("    var hi{i}_s: logic<{wa}>;\n    var hi{i}_t: logic<{w}>;"));
                outs.push((format!("hi{i}_s"), wa));
                outs.push((format!("hi{i}_t"), w));
                b.b(&format!("    inst hi{i}: HcAdd (\n        a: {a},\n        b: {bb},\n        c: {c},\n        s: hi{i}_s,\n        t: hi{i}_t,\n    );"));
                b.feat("child_small_adder");
            }
            2 => {
                let (a, bb) = (conn(rng, &mut tied), conn(rng, &mut tied));
                let kk = match rng.below(3) {
                    0 => {
                        tied = true;
                        "1".to_string()
                    }
                    1 => {
                        tied = true;
                        "0".to_string()
                    }
                    _ => k.clone(),
                };
                b.d(&format!("    var hi{i}_y: logic<4>;\n    var hi{i}_z: logic<{w}>;"));
                outs.push((format!("hi{i}_y"), 4));
                outs.push((format!("hi{i}_z"), w));
                b.b(&format!("    inst hi{i}: HcCmp (\n        a: {a},\n        b: {bb},\n        k: {kk},\n        y: hi{i}_y,\n        z: hi{i}_z,\n    );"));
                b.feat("child_compare_mux");
            }
            3 => {
                let (a, bb) = (conn(rng, &mut tied), conn(rng, &mut tied));
                b.d(&format!("    var hi{i}_y: logic<{wa}>;\n    var hi{i}_v: logic<{w}>;"));
                outs.push((format!("hi{i}_y"), wa));
                outs.push((format!("hi{i}_v"), w));
                b.b(&format!("    inst hi{i}: HcMid (\n        a: {a},\n        b: {bb},\n        y: hi{i}_y,\n        v: hi{i}_v,\n    );"));
                b.const_tied += 2; // the two nested instances carry tie-offs of their own
                b.feat("child_two_levels");
            }
            _ => {
                let (a, bb) = (conn(rng, &mut tied), conn(rng, &mut tied));
                let e = if rng.bool() {
                    tied = true;
                    "1".to_string()
                } else {
                    k.clone()
                };
                b.d(&format!("    var hi{i}_q: logic<{w}>;"));
                outs.push((format!("hi{i}_q"), w));
                b.b(&format!("    inst hi{i}: HcReg (\n        i_clk,\n        i_rst,\n        a: {a},\n        b: {bb},\n        e: {e},\n        q: hi{i}_q,\n    );"));
                b.feat("child_registered");
            }
        }
        if tied {
            b.const_tied += 1;
        }
    }
    // every instance output is observable: packed into outputs of at most 60 bits
    let mut cur: Vec<String> = vec![];
    let mut curw = 0;
    let flush = |b: &mut B, cur: &mut Vec<String>, curw: &mut usize| {
        if !cur.is_empty() {
            let o = b.output(*curw, false);
            b.b(&format!("    assign {o} = {{{}}};", cur.join(", ")));
            cur.clear();
            *curw = 0;
        }
    };
    for (name, ww) in outs {
        if curw + ww > 60 {
            flush(&mut b, &mut cur, &mut curw);
        }
        cur.push(name);
        curw += ww;
    }
    flush(&mut b, &mut cur, &mut curw);
    b.finish("hierc")
}

/// Frozen registers: a register that only ever holds its reset value (its write is under `if 1'b0`, under an
/// enable that is a constant 0 — local const, or a child port the parent ties low —, or it is written with
/// itself) is folded to a constant by `eliminate_dq_ffs`; every consumer of its Q has to be rewired.  The
/// consumers here: (a) another register's D pin directly, (b) a register chain, (c) an output, (d) a gate (and a
/// register behind a gate), (e) a memory write port / array element, (f) a child instance port that registers it
/// directly — flat, and with the frozen register living inside a child whose enable the parent ties to 0.
fn t_frozen(rng: &mut Rng) -> Case {
    let mut b = B::new("frozen");
    b.has_ff = true;
    let mw = if rng.chance(1, 4) { 70 } else { 12 };
    let w = 1 + rng.usize(mw);
    let lw = w.min(64);
    let x = b.input(w, false);
    let en = b.input(1, false);
    // child used for (f) and for the hierarchical frozen register
    b.pre.push_str(&format!(
        "module FzSink (\n    i_clk: input clock,\n    i_rst: input reset,\n    d: input logic<{w}>,\n    q: output logic<{w}>,\n) {{\n    always_ff {{\n        if_reset {{\n            q = 0;\n        }} else {{\n            q = d;\n        }}\n    }}\n}}\n\n"
    ));
    b.pre.push_str(&format!(
        "module FzCfg (\n    i_clk: input clock,\n    i_rst: input reset,\n    we: input logic,\n    d: input logic<{w}>,\n    q: output logic<{w}>,\n    q2: output logic<{w}>,\n) {{\n    var r: logic<{w}>;\n    always_ff {{\n        if_reset {{\n            r = {};\n        }} else if we {{\n            r = d;\n        }}\n    }}\n    assign q = r;\n    always_ff {{\n        if_reset {{\n            q2 = 0;\n        }} else {{\n            q2 = r;\n        }}\n    }}\n}}\n\n",
        lit(rng, lw)
    ));
    // memory writes only once the design has left its first reset: what a reset-less element captures from a
    // register *before* that register was ever reset is unconstrained (the netlist may already hold the folded constant)
    b.d("    var rdy: logic;");
    b.b("    always_ff {\n        if_reset {\n            rdy = 0;\n        } else {\n            rdy = 1;\n        }\n    }");
    let nfrozen = 2 + rng.usize(3);
    for k in 0..nfrozen {
        let cfg = format!("cfg{k}");
        let rv = match rng.below(4) {
            0 => "0".to_string(),
            1 => format!("{lw}'h{:x}", if lw == 64 { u64::MAX } else { (1u64 << lw) - 1 }),
            _ => lit(rng, lw),
        };
        // a frozen register WITHOUT reset is left out on purpose: see notes/C20.md (open observation)
        let with_reset = true;
        let _ = rng.chance(1, 6);
        let how = rng.below(5);
        b.tally("frozen_registers", 1);
        if !with_reset {
            b.tally("frozen_registers_without_reset", 1);
        }
        let hier = how == 4 && with_reset;
        if hier {
            // the frozen register lives in a child; only the parent's tie-off makes it constant
            b.d(&format!("    var {cfg}: logic<{w}>;\n    var {cfg}_q2: logic<{w}>;"));
            b.b(&format!("    inst fz{k}: FzCfg (\n        i_clk,\n        i_rst,\n        we: 0,\n        d: {x},\n        q: {cfg},\n        q2: {cfg}_q2,\n    );"));
            let o = b.output(w, false);
            b.b(&format!("    assign {o} = {cfg}_q2;"));
            b.tally("frozen_registers_in_child_with_tied_enable", 1);
            b.tally("frozen_ff_feeds_ff_directly", 1); // q2 = r inside the child
            b.feat("frozen_in_child");
        } else {
            b.d(&format!("    var {cfg}: logic<{w}>;"));
            let body = match how {
                0 | 4 => format!("if 1'b0 {{\n            {cfg} = {x};\n        }}"),
                1 => format!("{{\n            {cfg} = {cfg};\n        }}"),
                2 => {
                    b.d(&format!("    const FZ_EN{k}: logic = 1'b0;"));
                    format!("if FZ_EN{k} {{\n            {cfg} = {x};\n        }}")
                }
                _ => format!("if {en} && 1'b0 {{\n            {cfg} = {x} + 1;\n        }}"),
            };
            b.feat(["frozen_if_const_false", "frozen_self_assign", "frozen_const_enable", "frozen_and_false", "frozen_if_const_false"][how as usize]);
            if with_reset {
                let sep = if how == 1 { "else" } else { "else" };
                b.b(&format!("    always_ff {{\n        if_reset {{\n            {cfg} = {rv};\n        }} {sep} {body}\n    }}"));
            } else if how == 1 {
                b.b(&format!("    always_ff {{\n        {cfg} = {cfg};\n    }}"));
            } else {
                b.b(&format!("    always_ff {{\n        {body}\n    }}"));
            }
        }
        // consumers
        let mut kinds: Vec<u64> = (0..6).collect();
        rng.shuffle(&mut kinds);
        let ncons = 2 + rng.usize(4);
        let mut chosen: Vec<u64> = kinds.into_iter().take(ncons).collect();
        if !chosen.contains(&0) {
            chosen.push(0); // (a) is the shape the seeded defect needs: always present
        }
        for c in chosen {
            match c {
                0 => {
                    let q = format!("{cfg}_a");
                    let o = b.output(w, false);
                    b.d(&format!("    var {q}: logic<{w}>;"));
                    let hdr = *rng.pick(&["always_ff", "always_ff (i_clk)", "always_ff (i_clk, i_rst)"]);
                    b.b(&format!("    {hdr} {{\n        if_reset {{\n            {q} = 0;\n        }} else {{\n            {q} = {cfg};\n        }}\n    }}\n    assign {o} = {q};"));
                    b.tally("frozen_ff_feeds_ff_directly", 1);
                }
                1 => {
                    let n = 2 + rng.usize(3);
                    let o = b.output(w, false);
                    let mut prev = cfg.clone();
                    for j in 0..n {
                        let q = format!("{cfg}_c{j}");
                        b.d(&format!("    var {q}: logic<{w}>;"));
                        b.b(&format!("    always_ff {{\n        if_reset {{\n            {q} = {};\n        }} else {{\n            {q} = {prev};\n        }}\n    }}", if j == 0 { "0".to_string() } else { lit(rng, lw) }));
                        prev = q;
                    }
                    b.b(&format!("    assign {o} = {prev};"));
                    b.tally("frozen_ff_feeds_ff_directly", 1);
                    b.tally("frozen_ff_feeds_register_chain", 1);
                }
                2 => {
                    let o = b.output(w, false);
                    b.b(&format!("    assign {o} = {cfg};"));
                    b.tally("frozen_ff_feeds_output", 1);
                }
                3 => {
                    let o = b.output(w, false);
                    let q = format!("{cfg}_g");
                    b.d(&format!("    var {q}: logic<{w}>;"));
                    let op = *rng.pick(&["^", "&", "|", "+"]);
                    b.b(&format!("    always_ff {{\n        if_reset {{\n            {q} = 0;\n        }} else if {en} {{\n            {q} = {cfg} {op} {x};\n        }}\n    }}\n    assign {o} = {q} ^ ({cfg} {op} {x});"));
                    b.tally("frozen_ff_feeds_gate", 1);
                }
                4 => {
                    let depth = 1usize << (1 + rng.usize(3));
                    let aw = clog2(depth);
                    let wa = b.input(aw, false);
                    let ra = b.input(aw, false);
                    let o = b.output(w, false);
                    let m = format!("{cfg}_mem");
                    b.d(&format!("    var {m}: logic<{w}> [{depth}];"));
                    b.b(&format!("    always_ff {{\n        if {en} && rdy {{\n            {m}[{wa}] = {cfg};\n        }}\n    }}\n    assign {o} = {m}[{ra}];"));
                    b.arrays.push(depth * w);
                    b.ports = (1, 1);
                    b.tally("frozen_ff_feeds_memory_write_data", 1);
                }
                _ => {
                    let o = b.output(w, false);
                    let q = format!("{cfg}_s");
                    b.d(&format!("    var {q}: logic<{w}>;"));
                    b.b(&format!("    inst {cfg}_sink: FzSink (\n        i_clk,\n        i_rst,\n        d: {cfg},\n        q: {q},\n    );\n    assign {o} = {q};"));
                    b.tally("frozen_ff_feeds_ff_directly", 1);
                    b.tally("frozen_ff_feeds_child_register_port", 1);
                }
            }
        }
    }
    b.finish("frozen")
}

fn t_iface(rng: &mut Rng) -> Case {
    let mut b = B::new("iface");
    b.has_ff = true;
    let w = 2 + rng.usize(14);
    b.pre.push_str(&format!(
        "interface Bus {{\n    var valid: logic;\n    var data: logic<{w}>;\n    var ready: logic;\n    modport master {{\n        valid: output,\n        data: output,\n        ready: input,\n    }}\n    modport slave {{\n        valid: input,\n        data: input,\n        ready: output,\n    }}\n}}\n\n"
    ));
    b.pre.push_str(&format!(
        "module Sink (\n    i_clk: input clock,\n    i_rst: input reset,\n    bus: modport Bus::slave,\n    stall: input logic,\n    acc_o: output logic<{w}>,\n) {{\n    var acc: logic<{w}>;\n    assign bus.ready = ~stall;\n    always_ff {{\n        if_reset {{\n            acc = 0;\n        }} else if bus.valid && bus.ready {{\n            acc = acc + bus.data;\n        }}\n    }}\n    assign acc_o = acc;\n}}\n\n"
    ));
    let v = b.input(1, false);
    let d = b.input(w, false);
    let stall = b.input(1, false);
    let o0 = b.output(w, false);
    let o1 = b.output(1, false);
    b.d(&format!("    inst bb: Bus;\n    var acc_w: logic<{w}>;"));
    b.b(&format!("    assign bb.valid = {v};\n    assign bb.data = {d};"));
    b.b(&format!("    inst sk: Sink (\n        i_clk,\n        i_rst,\n        bus: bb,\n        stall: {stall},\n        acc_o: acc_w,\n    );"));
    b.b(&format!("    assign {o0} = acc_w;\n    assign {o1} = bb.ready & bb.valid;"));
    b.feat("modport_child");
    if rng.bool() {
        let o2 = b.output(w, false);
        b.d("    inst b2: Bus;");
        b.b(&format!("    always_comb {{\n        b2.valid = {v} ^ {stall};\n        b2.data = {d} + 1;\n        b2.ready = 1;\n        {o2} = if b2.valid ? b2.data : 0;\n    }}"));
        b.feat("local_interface_wires");
    }
    b.finish("iface")
}

fn t_resets(rng: &mut Rng) -> Case {
    let mut b = B::new("resets");
    b.has_ff = true;
    b.clk_ty = rng.pick(&["clock", "clock_posedge", "clock_negedge"]).to_string();
    b.rst_ty = rng.pick(&["reset", "reset_async_high", "reset_async_low", "reset_sync_high", "reset_sync_low"]).to_string();
    let (c, r) = (b.clk_ty.clone(), b.rst_ty.clone());
    b.feat(&c);
    b.feat(&r);
    let n = 1 + rng.usize(4);
    let en = b.input(1, false);
    for k in 0..n {
        let w = match rng.below(5) {
            0 => 65 + rng.usize(40),
            1 => 1,
            _ => 2 + rng.usize(40),
        };
        let x = b.input(w, false);
        let o = b.output(w, false);
        let name = format!("r{k}");
        b.d(&format!("    var {name}: logic<{w}>;"));
        let rv = match rng.below(5) {
            0 => "0".to_string(),
            1 => "1".to_string(),
            2 if w <= 64 => {
                b.feat("reset_value_all_ones");
                format!("{w}'h{:x}", if w == 64 { u64::MAX } else { (1u64 << w) - 1 })
            }
            _ => lit(rng, w.min(64)),
        };
        if w > 64 {
            b.feat("register_wider_than_64_bits");
        }
        let hdr = match rng.below(3) {
            0 => "always_ff".to_string(),
            1 => "always_ff (i_clk)".to_string(),
            _ => "always_ff (i_clk, i_rst)".to_string(),
        };
        let upd = match rng.below(4) {
            0 => format!("{name} + {x}"),
            1 => format!("{x}"),
            2 => format!("{{{name}[{}:0], {x}[0]}}", w.saturating_sub(2)),
            _ => format!("{name} ^ {x}"),
        };
        let upd = if w == 1 && upd.starts_with('{') { format!("{x}") } else { upd };
        if rng.bool() {
            b.b(&format!("    {hdr} {{\n        if_reset {{\n            {name} = {rv};\n        }} else if {en} {{\n            {name} = {upd};\n        }}\n    }}"));
        } else {
            b.b(&format!("    {hdr} {{\n        if_reset {{\n            {name} = {rv};\n        }} else {{\n            {name} = {upd};\n        }}\n    }}"));
        }
        b.b(&format!("    assign {o} = {name};"));
    }
    if rng.bool() {
        // register array (zero reset), written at a runtime index
        let depth = 1usize << (1 + rng.usize(2));
        let w = 2 + rng.usize(10);
        let aw = clog2(depth);
        let wa = b.input(aw, false);
        let wd = b.input(w, false);
        let o = b.output(w, false);
        b.d(&format!("    var ra: logic<{w}> [{depth}];"));
        let mut s = "    always_ff {\n        if_reset {\n".to_string();
        for k in 0..depth {
            s.push_str(&format!("            ra[{k}] = 0;\n"));
        }
        s.push_str(&format!("        }} else if {en} {{\n            ra[{wa}] = {wd};\n        }}\n    }}"));
        b.b(&s);
        b.b(&format!("    assign {o} = ra[{}] ^ ra[0];", depth - 1));
        b.feat("reset_array_zero");
    }
    b.finish("resets")
}

fn t_fsm(rng: &mut Rng) -> Case {
    let mut b = B::new("fsm");
    b.has_ff = true;
    let w = 3 + rng.usize(10);
    b.pre.push_str("package FsmPkg {\n    enum St: logic<2> {\n        Idle,\n        Run,\n        Hold,\n        Done,\n    }\n}\n\n");
    let go = b.input(1, false);
    let stop = b.input(1, false);
    let lim = b.input(w, false);
    let o0 = b.output(2, false);
    let o1 = b.output(w, false);
    let o2 = b.output(1, false);
    b.d(&format!("    var st: FsmPkg::St;\n    var n: logic<{w}>;"));
    b.b(&format!(
        "    always_ff {{\n        if_reset {{\n            st = FsmPkg::St::Idle;\n            n = 0;\n        }} else {{\n            case st {{\n                FsmPkg::St::Idle: {{\n                    if {go} {{\n                        st = FsmPkg::St::Run;\n                        n = 0;\n                    }}\n                }}\n                FsmPkg::St::Run: {{\n                    if {stop} {{\n                        st = FsmPkg::St::Hold;\n                    }} else if n >= {lim} {{\n                        st = FsmPkg::St::Done;\n                    }}\n                    n = n + 1;\n                }}\n                FsmPkg::St::Hold: {{\n                    if !{stop} {{\n                        st = FsmPkg::St::Run;\n                    }}\n                }}\n                default: {{\n                    st = FsmPkg::St::Idle;\n                }}\n            }}\n        }}\n    }}"
    ));
    b.b(&format!("    assign {o0} = st;\n    assign {o1} = n;\n    assign {o2} = st == FsmPkg::St::Done;"));
    b.feat("enum_case_fsm");
    if rng.bool() {
        let o3 = b.output(w, false);
        b.pre.push_str(&format!(
            "package FnPkg {{\n    function sat_add (\n        a: input logic<{w}>,\n        b: input logic<{w}>,\n    ) -> logic<{w}> {{\n        var s: logic<{}>;\n        s = a + b;\n        if s[{w}] {{\n            return {w}'h{:x};\n        }} else {{\n            return s[{}:0];\n        }}\n    }}\n}}\n\n",
            w + 1,
            (1u64 << w) - 1,
            w - 1
        ));
        b.b(&format!("    assign {o3} = FnPkg::sat_add(n, {lim});"));
        b.feat("function_saturating_add");
    }
    b.finish("fsm")
}

/// DesignGen options restricted to what `synth` accepts (found by probing: `for`
/// statements, `**`, and a few system functions are rejected and only counted).
fn designgen(rng: &mut Rng, i: u64) -> Case {
    let (opts, kind) = match i % 4 {
        0 => (GenOpts { max_width: 40, divmod: rng.bool(), ..GenOpts::basic() }, "dg_basic"),
        1 => (GenOpts { max_width: 48, for_loops: false, ..GenOpts::default() }, "dg_default"),
        2 => (GenOpts { max_width: 140, divmod: false, for_loops: rng.chance(1, 4), ..GenOpts::default() }, "dg_wide"),
        _ => (GenOpts { max_width: 32, explicit_clock_reset: true, for_loops: false, ..GenOpts::default() }, "dg_explicit_clock_reset"),
    };
    let d = generate(rng, &opts);
    let arrays = if d.features.iter().any(|f| f.starts_with("ff_array")) { vec![64] } else { vec![] };
    Case { kind: kind.to_string(), design: d, arrays, ports: (1, 1), children: vec![], const_tied: 0, counters: vec![] }
}

pub const TEMPLATES: [&str; 11] = ["muldiv", "shift", "widemux", "decode", "counter", "scan", "ram", "hier", "iface", "resets", "fsm"];

/// Triage-only override of the case mix (`--set mode=…`); the registered checks never set it.
pub static MODE: std::sync::OnceLock<String> = std::sync::OnceLock::new();

pub fn gen_case(seed: u64, i: u64) -> Case {
    let mut rng = Rng::for_case(seed, "C19", i);
    if let Some(mode) = MODE.get() {
        let base = GenOpts { for_loops: false, max_width: 40, ..GenOpts::default() };
        let opts = match mode.as_str() {
            "comb_unsigned" => GenOpts { signed: false, ffs: (0, 0), instances: false, ..base },
            "comb_signed" => GenOpts { ffs: (0, 0), instances: false, ..base },
            "comb_unsigned_basic" => GenOpts { signed: false, ffs: (0, 0), max_width: 40, ..GenOpts::basic() },
            "ff_unsigned" => GenOpts { signed: false, arrays: false, ..base },
            "tiny" => GenOpts { signed: false, ffs: (0, 0), combs: (0, 1), outputs: (1, 1), inputs: (2, 3), expr_depth: 1, max_width: 10, instances: false, ..base },
            "tiny_signed" => GenOpts { ffs: (0, 0), combs: (0, 1), outputs: (1, 1), inputs: (2, 3), expr_depth: 1, max_width: 10, instances: false, ..base },
            "tiny2" => GenOpts { signed: false, ffs: (0, 0), combs: (0, 1), outputs: (1, 1), inputs: (2, 3), expr_depth: 2, max_width: 10, instances: false, ..base },
            "clean" => return crate::cleangen::clean_case(&mut rng, i),
            "hierc" => return t_hierc(&mut rng),
            "frozen" => return t_frozen(&mut rng),
            "known" => return crate::known::probe(&mut rng, i),
            "tiny_ff" => GenOpts { signed: false, ffs: (1, 1), combs: (0, 0), outputs: (1, 1), inputs: (2, 3), expr_depth: 1, max_width: 10, instances: false, arrays: false, ..base },
            _ => base,
        };
        let d = generate(&mut rng, &opts);
        return Case { kind: format!("dg_{mode}"), design: d, arrays: vec![], ports: (1, 1), children: vec![], const_tied: 0, counters: vec![] };
    }
    // 21 slots: 4 cleangen, 14 templates (RAM twice, hierc, frozen), 1 vgen DesignGen, 2 known-defect probes
    match i % 21 {
        0 => crate::cleangen::clean_case(&mut rng, 0),
        3 => crate::cleangen::clean_case(&mut rng, 1),
        10 => crate::cleangen::clean_case(&mut rng, 2),
        15 => crate::cleangen::clean_case(&mut rng, 3),
        18 => t_hierc(&mut rng),
        5 => designgen(&mut rng, i / 21),
        13 => crate::known::probe(&mut rng, 2 * (i / 21)),
        19 => crate::known::probe(&mut rng, 2 * (i / 21) + 1),
        20 => t_frozen(&mut rng),
        1 => t_muldiv(&mut rng),
        2 => t_shift(&mut rng),
        4 => t_widemux(&mut rng),
        6 => t_decode(&mut rng),
        7 => t_counter(&mut rng),
        8 => t_scan(&mut rng),
        9 => t_ram(&mut rng),
        11 => t_hier(&mut rng),
        12 => t_iface(&mut rng),
        14 => t_resets(&mut rng),
        16 => t_fsm(&mut rng),
        17 => t_ram(&mut rng),
        _ => unreachable!(),
    }
}

/// RAM-inference thresholds to try for one case: the default plus settings on the
/// other side of each array's size / port count.
pub fn ram_configs(case: &Case, i: u64, thorough: bool) -> Vec<(String, RamConfig)> {
    let d = RamConfig::default();
    let mut v = vec![("default".to_string(), d)];
    if case.arrays.is_empty() {
        return v;
    }
    let bmax = *case.arrays.iter().max().unwrap();
    let bmin = *case.arrays.iter().min().unwrap();
    let at = ("min_bits=size".to_string(), RamConfig { min_bits: bmin, ..d });
    let above = ("min_bits=size+1".to_string(), RamConfig { min_bits: bmax + 1, ..d });
    let one = ("min_bits=1".to_string(), RamConfig { min_bits: 1, ..d });
    let (r, w) = case.ports;
    let tight = (
        format!("min_bits=1,max_read_ports={},max_write_ports={}", r.max(2) - 1, w.max(2) - 1),
        RamConfig { min_bits: 1, max_read_ports: r.max(2) - 1, max_write_ports: w.max(2) - 1, ..d },
    );
    let exact = (format!("min_bits=1,max_read_ports={r},max_write_ports={w}"), RamConfig { min_bits: 1, max_read_ports: r.max(1), max_write_ports: w.max(1), ..d });
    if thorough {
        v.push(at);
        v.push(above);
        v.push(if i % 2 == 0 { tight } else { exact });
    } else {
        // the "other side" of the default first, rotating through the rest
        let infers_by_default = bmax >= d.min_bits;
        v.push(match i % 4 {
            0 if infers_by_default => above,
            0 => at,
            1 => one,
            2 => tight,
            _ if infers_by_default => above,
            _ => exact,
        });
    }
    v
}

/// Active level of the top-level reset port, from the declared type (abstract
/// `reset` = active low, as `Config::default()` / default metadata have it).
pub fn reset_active_high(text: &str) -> bool {
    let top = text.rfind("module Top").unwrap_or(0);
    let t = &text[top..];
    if let Some(p) = t.find("i_rst: input ") {
        let rest = &t[p + "i_rst: input ".len()..];
        let tyname: String = rest.chars().take_while(|c| c.is_alphanumeric() || *c == '_').collect();
        return tyname.ends_with("_high");
    }
    false
}
