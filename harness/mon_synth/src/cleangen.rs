//! cleangen — random designs that stay inside the part of the language where the
//! synthesizer's documented shortcuts are sound, so that a disagreement there is a
//! *new* finding and not one of the known defect classes (see notes/C19.md):
//!
//!  * every leaf of an expression is at most as wide as the context it is
//!    evaluated in (the synthesizer evaluates operands at the target width, which
//!    is wrong for `/ % >> >>>` and index expressions when the target is narrower);
//!  * everything is unsigned (mixed signed/unsigned extension is a known defect);
//!  * `>>>` is not used on unsigned operands; conditions are 1 bit wide;
//!  * an always_ff block never reads a variable after assigning it (the
//!    synthesizer gives such reads blocking semantics);
//!  * function arguments are plain signals/selects and unary `-`/`~` never applies to a bare
//!    literal (the *RTL simulator* evaluates those self-determined — see notes/C19.md);
//!  * comb arrays are read at constant indices only (simulator defect, see notes);
//!  * no `as <width>` casts (the synthesizer does not truncate to the cast width);
//!  * if_reset only holds `var = <literal of at most 64 bits>`; register arrays
//!    reset to zero.
//!
//! The known defect classes are exercised separately by `known.rs`.

use crate::workload::{B, Case, clog2};
use vcommon::Rng;

#[derive(Clone, Debug)]
pub struct Sig {
    pub name: String,
    pub width: usize,
}

pub struct CleanOpts {
    pub max_width: usize,
    pub ffs: (usize, usize),
    pub combs: (usize, usize),
    pub depth: usize,
    pub arrays: bool,
    pub functions: bool,
    pub divmod: bool,
    /// triage aid: mirror every internal signal on an extra output
    pub observe_all: bool,
}

struct Func {
    name: String,
    args: Vec<usize>,
    ret: usize,
}

struct G<'a> {
    rng: &'a mut Rng,
    o: CleanOpts,
    funcs: Vec<Func>,
    feats: Vec<String>,
}

impl<'a> G<'a> {
    fn feat(&mut self, f: &str) {
        if !self.feats.iter().any(|x| x == f) {
            self.feats.push(f.to_string());
        }
    }
    fn width(&mut self) -> usize {
        let m = self.o.max_width;
        let w = match self.rng.below(10) {
            0..=4 => 1 + self.rng.usize(8),
            5..=7 => 1 + self.rng.usize(24),
            8 => *self.rng.pick(&[1usize, 2, 8, 16, 31, 32, 33, 63, 64, 65, 100, 128]),
            _ => 1 + self.rng.usize(m),
        };
        w.clamp(1, m)
    }
    fn lit(&mut self, w: usize) -> String {
        let w = w.clamp(1, 64);
        let v = match self.rng.below(5) {
            0 => 0u64,
            1 => 1,
            2 => u64::MAX,
            _ => self.rng.next_u64(),
        };
        let v = if w >= 64 { v } else { v & ((1u64 << w) - 1) };
        match self.rng.below(3) {
            0 => format!("{w}'d{v}"),
            1 => format!("{w}'b{v:b}"),
            _ => format!("{w}'h{v:x}"),
        }
    }
    /// a leaf that is at most `l` bits wide
    fn leaf(&mut self, env: &[Sig], l: usize) -> String {
        if env.is_empty() || self.rng.chance(1, 6) {
            let w = 1 + self.rng.usize(l.min(64));
            return self.lit(w);
        }
        let s = self.rng.pick(env).clone();
        if s.width <= l && self.rng.chance(3, 4) {
            return s.name;
        }
        // constant part select of at most l bits
        let w = 1 + self.rng.usize(s.width.min(l));
        let lo = self.rng.usize(s.width - w + 1);
        self.feat("part_select");
        match self.rng.below(3) {
            0 if w == 1 => format!("{}[{lo}]", s.name),
            1 => format!("{}[{}:{lo}]", s.name, lo + w - 1),
            _ => format!("{}[{lo}+:{w}]", s.name),
        }
    }
    /// like `leaf` but never a literal
    fn var_leaf(&mut self, env: &[Sig], l: usize) -> String {
        for _ in 0..8 {
            let x = self.leaf(env, l);
            if !x.contains('\'') {
                return x;
            }
        }
        let s = self.rng.pick(env).clone();
        if s.width <= l { s.name } else { format!("{}[{}:0]", s.name, l - 1) }
    }
    fn amount(&mut self, env: &[Sig], l: usize) -> String {
        let small: Vec<&Sig> = env.iter().filter(|s| s.width <= 6).collect();
        if !small.is_empty() && self.rng.bool() {
            self.feat("shift_var");
            self.rng.pick(&small).name.clone()
        } else {
            format!("{}", self.rng.below(l as u64 + 2))
        }
    }
    fn boolean(&mut self, env: &[Sig], d: usize) -> String {
        match self.rng.below(8) {
            0 | 1 | 2 | 3 => {
                let m = 1 + self.rng.usize(20.min(self.o.max_width));
                let op = *self.rng.pick(&["==", "!=", "<:", "<=", ">:", ">="]);
                self.feat("compare");
                format!("({} {op} {})", self.expr(env, m, d.min(1)), self.expr(env, m, d.min(1)))
            }
            4 => {
                let s = self.rng.pick(env).clone();
                let op = *self.rng.pick(&["&", "|", "^", "~&", "~|", "~^"]);
                self.feat("reduction");
                format!("({op}{})", s.name)
            }
            5 if d > 0 => {
                let op = *self.rng.pick(&["&&", "||"]);
                self.feat("logical");
                format!("({} {op} {})", self.boolean(env, d - 1), self.boolean(env, d - 1))
            }
            6 if d > 0 => format!("(!{})", self.boolean(env, d - 1)),
            _ => {
                let s = self.rng.pick(env).clone();
                let b = self.rng.usize(s.width);
                if s.width == 1 { s.name } else { format!("{}[{b}]", s.name) }
            }
        }
    }
    /// expression whose every context-determined leaf is at most `l` bits wide
    fn expr(&mut self, env: &[Sig], l: usize, d: usize) -> String {
        if d == 0 || self.rng.chance(1, 6) {
            return self.leaf(env, l);
        }
        let d1 = d - 1;
        match self.rng.below(26) {
            0..=6 => {
                let op = *self.rng.pick(&["+", "-", "&", "|", "^", "~^", "+", "-"]);
                let left = if d1 == 0 { self.var_leaf(env, l) } else { self.expr(env, l, d1) };
                format!("({left} {op} {})", self.expr(env, l, d1))
            }
            7 if l <= 24 => {
                self.feat("mul");
                format!("({} * {})", self.expr(env, l, d1), self.expr(env, l, d1.min(1)))
            }
            8 => {
                let op = *self.rng.pick(&["~", "-"]);
                self.feat("unary");
                let inner = if d1 == 0 { self.var_leaf(env, l) } else { format!("({} + {})", self.var_leaf(env, l), self.expr(env, l, d1 - 1)) };
                format!("({op}{inner})")
            }
            9 | 10 => {
                self.feat("shift_left");
                format!("({} << {})", self.expr(env, l, d1), self.amount(env, l))
            }
            11 | 12 => {
                self.feat("shift_right");
                format!("({} >> {})", self.expr(env, l, d1), self.amount(env, l))
            }
            13 if self.o.divmod && l <= 14 => {
                let op = *self.rng.pick(&["/", "%"]);
                self.feat("divmod");
                format!("({} {op} ({} | {l}'d1))", self.expr(env, l, d1.min(1)), self.expr(env, l, d1.min(1)))
            }
            14 | 15 => {
                self.feat("ternary");
                format!("(if {} ? {} : {})", self.boolean(env, 1), self.expr(env, l, d1), self.expr(env, l, d1))
            }
            16 => self.boolean(env, 1),
            17 if l >= 2 => {
                // concatenation of self-determined items, at most l bits in total
                let mut left = l;
                let mut parts = vec![];
                let n = 2 + self.rng.usize(2);
                for _ in 0..n {
                    if left == 0 {
                        break;
                    }
                    let w = 1 + self.rng.usize(left.min(16));
                    let wanted = self.leaf(env, w);
                    // the leaf may be narrower than w; its real width is at most w
                    parts.push(wanted);
                    left -= w;
                }
                self.feat("concat");
                format!("{{{}}}", parts.join(", "))
            }
            18 if l >= 2 => {
                let k = 2 + self.rng.usize(3);
                let w = (l / k).max(1);
                if w * k > l {
                    return self.leaf(env, l);
                }
                self.feat("replicate");
                format!("{{{} repeat {k}}}", self.leaf(env, w))
            }
            19 => {
                let sel = self.rng.pick(env).clone();
                self.feat("case_expr");
                format!(
                    "(case {} {{ 0: {}, 1, 2: {}, 3..=5: {}, default: {} }})",
                    sel.name,
                    self.expr(env, l, d1),
                    self.expr(env, l, d1),
                    self.expr(env, l, d1),
                    self.expr(env, l, d1)
                )
            }
            20 => {
                // dynamic bit select: power-of-two wide vector indexed by exactly log2 bits
                let cands: Vec<(Sig, Sig)> = env
                    .iter()
                    .filter(|s| s.width >= 2 && s.width.is_power_of_two())
                    .flat_map(|s| env.iter().filter(move |x| x.width == clog2(s.width) && x.name != s.name).map(move |x| (s.clone(), x.clone())))
                    .collect();
                if cands.is_empty() {
                    return self.leaf(env, l);
                }
                let (s, x) = self.rng.pick(&cands).clone();
                self.feat("dynamic_bit_select");
                format!("{}[{}]", s.name, x.name)
            }
            21 if !self.funcs.is_empty() => {
                let fi = self.rng.usize(self.funcs.len());
                let (name, args, ret) = (self.funcs[fi].name.clone(), self.funcs[fi].args.clone(), self.funcs[fi].ret);
                if ret > l {
                    return self.leaf(env, l);
                }
                let a: Vec<String> = args.iter().map(|w| self.var_leaf(env, *w)).collect();
                self.feat("function_call");
                format!("{name}({})", a.join(", "))
            }
            _ => format!("({} + {})", self.expr(env, l, d1), self.expr(env, l, d1)),
        }
    }

    /// Statements that (re)assign `t`.  `self_ok` tells whether `t` may be read
    /// (always_comb after its default: yes; always_ff: only until the first write).
    fn stmts(&mut self, env: &[Sig], t: &Sig, depth: usize, ind: &str, ff: bool, self_ok: &mut bool) -> String {
        let n = 1 + self.rng.usize(2);
        let mut s = String::new();
        for _ in 0..n {
            s.push_str(&self.stmt(env, t, depth, ind, ff, self_ok));
        }
        s
    }
    fn readable(&self, env: &[Sig], t: &Sig, self_ok: bool) -> Vec<Sig> {
        env.iter().filter(|x| x.name != t.name || self_ok).cloned().collect()
    }
    fn assign(&mut self, env: &[Sig], t: &Sig, ind: &str, ff: bool, self_ok: &mut bool) -> String {
        let ed = self.o.depth;
        let r = self.readable(env, t, *self_ok);
        let out = if t.width > 1 && self.rng.chance(1, 5) {
            let hi = self.rng.usize(t.width);
            let lo = self.rng.usize(hi + 1);
            let w = hi - lo + 1;
            self.feat("partial_write");
            let e = self.expr(&r, w, ed);
            if hi == lo { format!("{ind}{}[{hi}] = {e};\n", t.name) } else { format!("{ind}{}[{hi}:{lo}] = {e};\n", t.name) }
        } else if *self_ok && self.rng.chance(1, 6) {
            let op = *self.rng.pick(&["+=", "-=", "&=", "|=", "^="]);
            self.feat("compound_assign");
            format!("{ind}{} {op} {};\n", t.name, self.expr(&r, t.width, ed.min(2)))
        } else {
            format!("{ind}{} = {};\n", t.name, self.expr(&r, t.width, ed))
        };
        if ff {
            *self_ok = false;
        }
        out
    }
    fn stmt(&mut self, env: &[Sig], t: &Sig, depth: usize, ind: &str, ff: bool, self_ok: &mut bool) -> String {
        let ind2 = format!("{ind}    ");
        if depth == 0 {
            return self.assign(env, t, ind, ff, self_ok);
        }
        match self.rng.below(10) {
            0..=3 => self.assign(env, t, ind, ff, self_ok),
            4 | 5 => {
                self.feat("if_stmt");
                let r = self.readable(env, t, *self_ok);
                let mut s = format!("{ind}if {} {{\n", self.boolean(&r, 1));
                s.push_str(&self.stmts(env, t, depth - 1, &ind2, ff, self_ok));
                if self.rng.bool() {
                    let r = self.readable(env, t, *self_ok);
                    s.push_str(&format!("{ind}}} else if {} {{\n", self.boolean(&r, 1)));
                    s.push_str(&self.stmts(env, t, depth - 1, &ind2, ff, self_ok));
                }
                if self.rng.bool() {
                    s.push_str(&format!("{ind}}} else {{\n"));
                    s.push_str(&self.stmts(env, t, depth - 1, &ind2, ff, self_ok));
                }
                s.push_str(&format!("{ind}}}\n"));
                s
            }
            6 | 7 => {
                self.feat("case_stmt");
                let r = self.readable(env, t, *self_ok);
                let sel = self.rng.pick(&r).clone();
                let mut s = format!("{ind}case {} {{\n", sel.name);
                let arms = 1 + self.rng.usize(3);
                let mut used = 0u64;
                for _ in 0..arms {
                    let a = used;
                    let b = a + self.rng.below(3);
                    used = b + 1;
                    let label = match self.rng.below(3) {
                        0 => format!("{a}"),
                        1 => format!("{a}..={b}"),
                        _ if b > a => format!("{a}, {b}"),
                        _ => format!("{a}"),
                    };
                    s.push_str(&format!("{ind2}{label}: {{\n"));
                    s.push_str(&self.stmts(env, t, depth - 1, &format!("{ind2}    "), ff, self_ok));
                    s.push_str(&format!("{ind2}}}\n"));
                }
                if self.rng.bool() {
                    s.push_str(&format!("{ind2}default: {{\n"));
                    s.push_str(&self.stmts(env, t, depth - 1, &format!("{ind2}    "), ff, self_ok));
                    s.push_str(&format!("{ind2}}}\n"));
                }
                s.push_str(&format!("{ind}}}\n"));
                s
            }
            _ => {
                self.feat("switch_stmt");
                let mut s = format!("{ind}switch {{\n");
                let arms = 1 + self.rng.usize(3);
                for _ in 0..arms {
                    let r = self.readable(env, t, *self_ok);
                    s.push_str(&format!("{ind2}{}: {{\n", self.boolean(&r, 1)));
                    s.push_str(&self.stmts(env, t, depth - 1, &format!("{ind2}    "), ff, self_ok));
                    s.push_str(&format!("{ind2}}}\n"));
                }
                if self.rng.bool() {
                    s.push_str(&format!("{ind2}default: {{\n"));
                    s.push_str(&self.stmts(env, t, depth - 1, &format!("{ind2}    "), ff, self_ok));
                    s.push_str(&format!("{ind2}}}\n"));
                }
                s.push_str(&format!("{ind}}}\n"));
                s
            }
        }
    }
}

pub fn generate(rng: &mut Rng, o: CleanOpts, kind: &str) -> Case {
    let mut b = B::new(kind);
    let mut g = G { rng, o, funcs: vec![], feats: vec![] };
    let mut env: Vec<Sig> = vec![];
    let n_in = 2 + g.rng.usize(4);
    for k in 0..n_in {
        // make sure a power-of-two vector and a matching index exist now and then
        let w = match k {
            0 if g.rng.bool() => *g.rng.pick(&[4usize, 8, 16]),
            1 if env.first().map(|s| s.width.is_power_of_two() && s.width >= 4).unwrap_or(false) => clog2(env[0].width),
            _ => g.width(),
        };
        let name = b.input(w, false);
        env.push(Sig { name, width: w });
    }
    // module-local functions
    if g.o.functions && g.rng.bool() {
        let nf = 1 + g.rng.usize(2);
        for k in 0..nf {
            let nargs = 1 + g.rng.usize(3);
            let args: Vec<usize> = (0..nargs).map(|_| 1 + g.rng.usize(16)).collect();
            let ret = 1 + g.rng.usize(16);
            let fenv: Vec<Sig> = args.iter().enumerate().map(|(j, w)| Sig { name: format!("a{j}"), width: *w }).collect();
            let name = format!("fn{k}");
            let mut s = format!("    function {name} (\n");
            for (j, w) in args.iter().enumerate() {
                s.push_str(&format!("        a{j}: input logic<{w}>,\n"));
            }
            s.push_str(&format!("    ) -> logic<{ret}> {{\n        var r: logic<{ret}>;\n"));
            let t = Sig { name: "r".into(), width: ret };
            s.push_str(&format!("        r = {};\n", g.expr(&fenv, ret, 2)));
            let mut env2 = fenv.clone();
            env2.push(t.clone());
            let mut ok = true;
            s.push_str(&g.stmts(&env2, &t, 1, "        ", false, &mut ok));
            s.push_str("        return r;\n    }\n");
            b.d(s.trim_end_matches('\n'));
            g.funcs.push(Func { name, args, ret });
        }
        g.feat("function");
    }
    // flip-flops first: their outputs may be read by everything
    let n_ff = g.o.ffs.0 + g.rng.usize(g.o.ffs.1 - g.o.ffs.0 + 1);
    let mut ffs: Vec<(Sig, Option<usize>)> = vec![];
    for k in 0..n_ff {
        let w = g.width();
        let arr = if g.o.arrays && g.rng.chance(1, 5) { Some(1usize << (1 + g.rng.usize(2))) } else { None };
        let name = format!("r{k}");
        match arr {
            Some(n) => b.d(&format!("    var {name}: logic<{w}> [{n}];")),
            None => b.d(&format!("    var {name}: logic<{w}>;")),
        }
        if arr.is_none() {
            env.push(Sig { name: name.clone(), width: w });
        }
        ffs.push((Sig { name, width: w }, arr));
        b.has_ff = true;
    }
    let n_comb = g.o.combs.0 + g.rng.usize(g.o.combs.1 - g.o.combs.0 + 1);
    let ed = g.o.depth;
    for k in 0..n_comb {
        let w = g.width();
        let name = format!("c{k}");
        let sig = Sig { name: name.clone(), width: w };
        match g.rng.below(10) {
            0..=3 => {
                b.d(&format!("    var {name}: logic<{w}>;"));
                let e = g.expr(&env, w, ed);
                b.b(&format!("    assign {name} = {e};"));
                g.feat("assign");
            }
            4 => {
                let e = g.expr(&env, w, ed);
                b.b(&format!("    let {name}: logic<{w}> = {e};"));
                g.feat("let");
            }
            5..=7 => {
                b.d(&format!("    var {name}: logic<{w}>;"));
                let mut s = format!("    always_comb {{\n        {name} = {};\n", g.expr(&env, w, ed));
                let mut env2 = env.clone();
                env2.push(sig.clone());
                let mut ok = true;
                s.push_str(&g.stmts(&env2, &sig, 2, "        ", false, &mut ok));
                s.push_str("    }");
                b.b(&s);
                g.feat("always_comb");
            }
            8 if g.o.arrays => {
                let n = 1usize << (1 + g.rng.usize(3));
                let an = format!("a{k}");
                b.d(&format!("    var {an}: logic<{w}> [{n}];\n    var {name}: logic<{w}>;"));
                for j in 0..n {
                    let e = g.expr(&env, w, ed.min(2));
                    b.b(&format!("    assign {an}[{j}] = {e};"));
                }
                // constant index only: the RTL simulator mis-orders a dynamically indexed read of a
                // comb array whose elements depend on other comb signals (probe simdefect_comb_array_order)
                let j = g.rng.usize(n);
                let j2 = g.rng.usize(n);
                b.b(&format!("    assign {name} = {an}[{j}] ^ {an}[{j2}];"));
                g.feat("comb_array");
            }
            _ => {
                // generate-for: one assign per bit
                if w > 1 && w <= 32 {
                    b.d(&format!("    var {name}: logic<{w}>;"));
                    let src = g.rng.pick(&env).clone();
                    let op = *g.rng.pick(&["^", "|", "&"]);
                    b.b(&format!("    for k in 0..{w} :g{k} {{\n        assign {name}[k] = {op}({} >> k);\n    }}", src.name));
                    g.feat("generate_for");
                } else {
                    b.d(&format!("    var {name}: logic<{w}>;"));
                    let e = g.expr(&env, w, ed);
                    b.b(&format!("    assign {name} = {e};"));
                }
            }
        }
        env.push(sig);
    }
    for (f, arr) in &ffs {
        let hdr = match g.rng.below(3) {
            0 => "always_ff",
            1 => "always_ff (i_clk)",
            _ => "always_ff (i_clk, i_rst)",
        };
        let mut s = format!("    {hdr} {{\n        if_reset {{\n");
        match arr {
            Some(n) => {
                for j in 0..*n {
                    s.push_str(&format!("            {}[{j}] = 0;\n", f.name));
                }
                let we = g.boolean(&env, 1);
                let ix = env.iter().find(|x| x.width == clog2(*n)).map(|x| x.name.clone());
                let e = g.expr(&env, f.width, ed);
                match ix {
                    Some(ix) => {
                        s.push_str(&format!("        }} else if {we} {{\n            {}[{ix}] = {e};\n        }}\n    }}", f.name));
                        g.feat("ff_array_dynamic_write");
                    }
                    None => s.push_str(&format!("        }} else if {we} {{\n            {}[{}] = {e};\n        }}\n    }}", f.name, g.rng.usize(*n))),
                }
                b.b(&s);
                // observe the array through a comb signal
                let on = format!("{}_o", f.name);
                b.d(&format!("    var {on}: logic<{}>;", f.width));
                let terms: Vec<String> = (0..*n).map(|j| format!("{}[{j}]", f.name)).collect();
                b.b(&format!("    assign {on} = {};", terms.join(" ^ ")));
                env.push(Sig { name: on, width: f.width });
                g.feat("ff_array");
            }
            None => {
                let rv = if f.width > 64 && g.rng.bool() { "0".to_string() } else { g.lit(f.width) };
                s.push_str(&format!("            {} = {rv};\n", f.name));
                let mut ok = true;
                if g.rng.chance(2, 3) {
                    s.push_str("        } else {\n");
                    s.push_str(&g.stmts(&env, f, 2, "            ", true, &mut ok));
                } else {
                    s.push_str(&format!("        }} else if {} {{\n", g.boolean(&env, 1)));
                    s.push_str(&g.stmts(&env, f, 1, "            ", true, &mut ok));
                    g.feat("ff_enable");
                }
                s.push_str("        }\n    }");
                b.b(&s);
                g.feat("always_ff");
            }
        }
    }
    let n_out = 1 + g.rng.usize(4);
    for k in 0..n_out {
        let w = g.width();
        let o = b.output(w, false);
        // make late signals observable
        let e = if k < 2 && env.len() > 2 {
            let a = env[env.len() - 1 - k].clone();
            let part = if a.width <= w { a.name.clone() } else { format!("{}[{}:0]", a.name, w - 1) };
            format!("{part} ^ {}", g.expr(&env, w, ed))
        } else {
            g.expr(&env, w, ed)
        };
        b.b(&format!("    assign {o} = {e};"));
    }
    if g.o.observe_all {
        for sgn in env.iter().filter(|x| !x.name.starts_with('i')) {
            let o = b.output(sgn.width, false);
            b.b(&format!("    assign {o} = {}; // observe", sgn.name));
        }
    }
    for f in g.feats.clone() {
        b.feat(&f);
    }
    b.finish(kind)
}

pub fn clean_case(rng: &mut Rng, flavour: u64) -> Case {
    let obs = std::env::var_os("CLEAN_OBSERVE_ALL").is_some();
    match flavour % 4 {
        0 => generate(rng, CleanOpts { max_width: 40, ffs: (0, 0), combs: (2, 7), depth: 3, arrays: true, functions: true, divmod: true, observe_all: obs }, "clean_comb"),
        1 => generate(rng, CleanOpts { max_width: 40, ffs: (1, 4), combs: (1, 5), depth: 3, arrays: true, functions: true, divmod: true, observe_all: obs }, "clean_ff"),
        2 => generate(rng, CleanOpts { max_width: 140, ffs: (0, 3), combs: (2, 6), depth: 2, arrays: false, functions: false, divmod: false, observe_all: obs }, "clean_wide"),
        _ => generate(rng, CleanOpts { max_width: 24, ffs: (1, 3), combs: (3, 8), depth: 2, arrays: true, functions: true, divmod: true, observe_all: obs }, "clean_small"),
    }
}
