//! mon_synth — synthesizer monitors: C19 (netlist vs RTL), C20 (well-formedness
//! and reports), C21 (AIG rewriting, feature `aig`); `SELFTEST` runs the gateval
//! self-test, `PROBE` prints per-case acceptance statistics for tuning.

mod c19;
mod c20;
mod c21;
mod cleangen;
mod gateval;
mod known;
mod runner;
mod wellformed;
mod workload;

use vcommon::Args;

fn main() {
    vcommon::pool::install_panic_hook();
    let args = Args::parse();
    match args.prop.as_str() {
        "C19" => c19::main(args),
        "C20" => c20::main(args),
        "C21" => c21::main(args),
        "SELFTEST" => {
            let f = gateval::self_test();
            for x in &f {
                println!("FAIL {x}");
            }
            println!("gateval self-test: {} failures", f.len());
            std::process::exit(if f.is_empty() { 0 } else { 2 });
        }
        "PROBE" => probe(args),
        p => {
            eprintln!("mon_synth: unknown property {p}");
            std::process::exit(2);
        }
    }
}

fn probe(args: Args) {
    use vcommon::pool::{STACK_64M, par_cases};
    let n = args.budget("cases", 40, 40);
    let seed = args.seed;
    if let Some(m) = args.get("mode") {
        let _ = workload::MODE.set(m.to_string());
    }
    let o = runner::Opts {
        cycles: args.budget("cycles", 40, 40) as usize,
        thorough: false,
        do_eval: true,
        do_wf: true,
        libs: vec![0],
        max_ram_cfgs: 2,
        arm: "default".into(),
        sabotage: None,
    };
    if let Some(path) = args.get("file") {
        return probe_file(&args, path, o);
    }
    let show = args.get("show").map(|s| s.parse::<u64>().unwrap());
    if let Some(i) = show {
        let c = workload::gen_case(seed, i);
        println!("{}", c.design.text);
    }
    let lock = std::sync::Mutex::new(());
    par_cases(
        n,
        args.jobs,
        STACK_64M,
        move |i| runner::run_case(seed, i, &o),
        move |i, r| {
            let _g = lock.lock().unwrap();
            match r {
                Err(p) => println!("case {i}: PANIC {} {}", p.location, p.message.chars().take(200).collect::<String>()),
                Ok(out) => {
                    println!("case {i} [{}] {}{}", out.kind, out.status.chars().take(300).collect::<String>(), out.rtl_engines_disagree.as_ref().map(|s| format!(" RTL-ENGINES-DISAGREE: {s}")).unwrap_or_default());
                    let bad = out.cfgs.iter().any(|c| matches!(&c.eval, Some(Ok(g)) if g.mismatch.is_some()));
                    if bad && std::env::var_os("PROBE_VERBOSE").is_some() {
                        let d = out.design.as_ref().unwrap();
                        println!("{}", d.text);
                        if let (Some(st), Some(Some(Ok(g)))) = (&out.stim, out.cfgs.first().map(|c| c.eval.as_ref())) {
                            let m = g.mismatch.as_ref().unwrap();
                            println!("stimulus@{}: {}", m.cycle, serde_json::to_string(&runner::stim_json(st, m.cycle)[m.cycle]).unwrap());
                            let names: Vec<String> = m
                                .all_outputs
                                .iter()
                                .map(|o| {
                                    let pat = format!("assign {o} = ");
                                    d.text.lines().find(|l| l.contains(&pat) && l.contains("// observe")).map(|l| l.trim().to_string()).unwrap_or(o.clone())
                                })
                                .collect();
                            println!("differing outputs: {names:?}");
                        }
                    }
                    for c in &out.cfgs {
                        let ev = match &c.eval {
                            None => "-".to_string(),
                            Some(Err(e)) => format!("EVALERR {e}"),
                            Some(Ok(g)) => format!(
                                "cmp={} x={} coll={} amb={} {}",
                                g.bits_compared,
                                g.bits_gate_x,
                                g.stats.ram_write_collisions,
                                g.stats.reset_order_ambiguous_bits,
                                g.mismatch.as_ref().map(|m| format!("MISMATCH c{} {}[{}] gate {} rtl {}", m.cycle, m.output, m.bit, m.gate, m.rtl)).unwrap_or_default()
                            ),
                        };
                        let wf = match &c.wf {
                            None => "-".to_string(),
                            Some((f, st)) => format!(
                                "wf={} depth={} [{}{}{}] {}",
                                f.len(),
                                st.depth,
                                if st.depth_is_path_stages { "P" } else { "" },
                                if st.depth_is_endpoint_levels { "E" } else { "" },
                                if st.depth_is_global_levels { "G" } else { "" },
                                f.iter().take(3).map(|x| format!("{}: {}", x.class, x.detail)).collect::<Vec<_>>().join(" | ")
                            ),
                        };
                        println!(
                            "    {}/{} {:.2}s {} cells={} ffs={} rams={} comp={} | {} | {}",
                            c.lib,
                            c.ram_cfg,
                            c.secs,
                            c.synth_err.clone().unwrap_or_default(),
                            c.info.cells,
                            c.info.ffs,
                            c.info.rams,
                            c.info.compound,
                            ev,
                            wf
                        );
                    }
                }
            }
        },
    );
}

/// Hand experiments: `--set file=<veryl>` runs one hand-written design (ports of
/// `module Top` are parsed from the text: i_clk, i_rst, iN inputs, oN outputs).
fn probe_file(args: &Args, path: &str, mut o: runner::Opts) {
    use vgen::design::{Design, Port};
    let text = std::fs::read_to_string(path).expect("file");
    let top = &text[text.rfind("module Top").expect("module Top")..];
    let header = &top[..top.find(") {").expect(") {")];
    let mut inputs = vec![];
    let mut outputs = vec![];
    for line in header.lines() {
        let line = line.trim().trim_end_matches(',');
        let Some((name, rest)) = line.split_once(':') else { continue };
        let name = name.trim();
        let rest = rest.trim();
        if name == "i_clk" || name == "i_rst" {
            continue;
        }
        let output = rest.starts_with("output");
        if !(rest.starts_with("input") || output) {
            continue;
        }
        let signed = rest.contains("signed");
        let width = rest.find('<').map(|p| rest[p + 1..rest.find('>').unwrap()].trim().parse::<usize>().unwrap()).unwrap_or(1);
        let port = Port { name: name.to_string(), width, signed, output };
        if output { outputs.push(port) } else { inputs.push(port) }
    }
    let d = Design { text: text.clone(), top: "Top".into(), clock: "i_clk".into(), reset: "i_rst".into(), inputs, outputs, features: vec![], has_ff: true };
    let case = workload::Case { kind: "file".into(), design: d, arrays: if args.get("arrays").is_some() { vec![args.get("arrays").unwrap().parse().unwrap()] } else { vec![] }, ports: (1, 1), children: vec![], const_tied: 0, counters: vec![] };
    o.libs = vec![0];
    let dump = args.get("dump").is_some();
    let seed = args.seed;
    if dump {
        let text2 = text.clone();
        let _ = vcommon::pool::fresh_thread(vcommon::pool::STACK_64M, move || {
            let md = vcommon::pipeline::default_metadata();
            let a = vcommon::pipeline::analyze_one(&text2, &md).expect("parse");
            println!("analyzer errors: {:?}", a.error_codes());
            let top = veryl_parser::resource_table::insert_str("Top");
            match veryl_synthesizer::synthesize(&a.ir, top, veryl_metadata::Library::Sky130) {
                Ok(r) => println!("{}\n{}\n{}", r.gate_ir, r.area, r.timing),
                Err(e) => println!("synth error: {e}"),
            }
        });
    }
    let r = vcommon::pool::fresh_thread(vcommon::pool::STACK_64M, move || {
        let out = runner::run_prepared(seed, 0, case, &o);
        println!("status: {}", out.status);
        for c in &out.cfgs {
            println!("  {}/{} err={:?} cells={} ffs={} rams={}", c.lib, c.ram_cfg, c.synth_err, c.info.cells, c.info.ffs, c.info.rams);
            if let Some(Ok(g)) = &c.eval {
                println!("    compared={} x={} mismatch={:?}", g.bits_compared, g.bits_gate_x, g.mismatch);
                if let (Some(m), Some(st)) = (&g.mismatch, &out.stim) {
                    println!("    stimulus: {}", serde_json::to_string(&runner::stim_json(st, m.cycle)).unwrap());
                }
            } else if let Some(Err(e)) = &c.eval {
                println!("    eval error {e}");
            }
            if let Some((f, _)) = &c.wf {
                for x in f {
                    println!("    WF {}: {}", x.class, x.detail);
                }
            }
        }
    });
    if let Err(p) = r {
        println!("PANIC {} {}", p.location, p.message);
    }
}
