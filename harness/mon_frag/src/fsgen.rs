//! File-set generator for C06: small multi-file Veryl projects (ProjectGen-like)
//! plus corpus files, whole or split at top-level declaration boundaries.
//!
//! Generated projects are built to analyze without errors in every file order;
//! the real analyzer decides (sets with errors are still compared, counted
//! separately).

use std::path::Path;
use vcommon::Rng;
use veryl_parser::Parser;
use veryl_parser::token_range::TokenRange;

#[derive(Clone, Debug)]
pub struct FileSrc {
    pub name: String,
    pub text: String,
}

#[derive(Clone, Debug)]
pub struct FileSet {
    pub files: Vec<FileSrc>,
    pub origin: String,
    /// features the generator put in (for coverage counters)
    pub features: Vec<&'static str>,
}

struct G<'a> {
    rng: &'a mut Rng,
    feats: Vec<&'static str>,
    tag: String,
}

impl G<'_> {
    fn feat(&mut self, f: &'static str) {
        if !self.feats.contains(&f) {
            self.feats.push(f);
        }
    }
    fn doc(&mut self, what: &str) -> String {
        if self.rng.chance(2, 3) {
            self.feat("doc_comment");
            let extra = if self.rng.chance(1, 3) { "\n/// second line with `code` and ünïcode" } else { "" };
            format!("/// {what} {}{extra}\n", self.tag)
        } else {
            String::new()
        }
    }

    /// package file; returns (text, facts)
    fn package(&mut self, n: usize) -> String {
        let t = &self.tag.clone();
        let mut s = String::new();
        s.push_str(&self.doc("Package with shared types"));
        let public = if self.rng.bool() { "pub " } else { "" };
        s.push_str(&format!("{public}package Pkg{t}{n} {{\n"));
        s.push_str(&format!("    const W: u32 = {};\n", *self.rng.pick(&[4, 8, 16])));
        s.push_str("    const D: u32 = W * 2;\n");
        s.push_str("    type Word = logic<W>;\n");
        s.push_str(&self.doc("struct doc"));
        s.push_str("    struct St {\n        lo: logic<W>,\n        hi: Word,\n    }\n");
        s.push_str("    enum En: logic<2> {\n        Idle,\n        Run,\n        Done = 3,\n    }\n");
        if self.rng.chance(1, 3) {
            self.feat("union");
            s.push_str("    union Un {\n        a: logic<8>,\n        b: logic<8>,\n    }\n");
        }
        s.push_str(&self.doc("function doc"));
        s.push_str("    function inc (\n        x: input logic<W>,\n    ) -> logic<W> {\n        return x + 1;\n    }\n");
        if self.rng.chance(1, 2) {
            self.feat("generic_function");
            s.push_str("    function gid::<T: u32> (\n        x: input logic<T>,\n    ) -> logic<T> {\n        return x;\n    }\n");
        }
        if self.rng.chance(1, 3) {
            self.feat("generic_struct");
            s.push_str("    struct GSt::<T: u32> {\n        g: logic<T>,\n    }\n");
        }
        s.push_str("}\n");
        if self.rng.chance(1, 2) {
            self.feat("generic_package");
            s.push_str(&self.doc("Generic package"));
            s.push_str(&format!(
                "package GPkg{t}{n}::<T: u32> {{\n    const V: u32 = T;\n    struct GS {{\n        g: logic<T>,\n    }}\n}}\n"
            ));
        }
        if self.rng.chance(1, 5) {
            // a top-level symbol that has the name of a clock domain used elsewhere (`'a`):
            // pass1 resolves `'a` through the symbol table before creating a ClockDomain symbol
            self.feat("symbol_named_like_clock_domain");
            s.push_str("package a {\n    const Q: u32 = 1;\n}\n");
        }
        if self.rng.chance(1, 4) {
            self.feat("proto");
            s.push_str(&format!(
                "proto package ProtoPkg{t}{n} {{\n    const PV: u32;\n}}\npackage ImplPkg{t}{n} for ProtoPkg{t}{n} {{\n    const PV: u32 = 3;\n}}\n"
            ));
        }
        s
    }

    fn interface(&mut self, n: usize, pkg: Option<usize>) -> String {
        let t = &self.tag.clone();
        let mut s = String::new();
        s.push_str(&self.doc("Bus interface"));
        let default = match pkg {
            Some(p) if self.rng.bool() => {
                self.feat("qualified_package_ref");
                format!("Pkg{t}{p}::W")
            }
            _ => "8".to_string(),
        };
        s.push_str(&format!("pub interface Bus{t}{n} #(\n    param BW: u32 = {default},\n) {{\n"));
        s.push_str("    var valid: logic;\n    var ready: logic;\n    var data : logic<BW>;\n");
        if self.rng.bool() {
            self.feat("interface_function");
            s.push_str("    function ack () -> logic {\n        return valid & ready;\n    }\n");
            s.push_str("    modport master {\n        valid: output,\n        data : output,\n        ready: input ,\n        ack  : import,\n    }\n");
        } else {
            s.push_str("    modport master {\n        valid: output,\n        data : output,\n        ready: input ,\n    }\n");
        }
        if self.rng.bool() {
            self.feat("modport_converse");
            s.push_str("    modport slave {\n        ..converse(master)\n    }\n");
        } else {
            s.push_str("    modport slave {\n        valid: input ,\n        data : input ,\n        ready: output,\n    }\n");
        }
        s.push_str("}\n");
        if self.rng.chance(1, 3) {
            self.feat("generic_interface");
            s.push_str(&format!(
                "interface GBus{t}{n}::<T: u32> {{\n    var d: logic<T>;\n    modport mp {{\n        d: input,\n    }}\n}}\n"
            ));
        }
        s
    }

    /// leaf module; `bus` = interface index for a modport port
    fn leaf(&mut self, n: usize, pkg: usize, bus: Option<usize>) -> String {
        let t = &self.tag.clone();
        let mut s = String::new();
        let style = self.rng.below(3);
        let (st, en, w, inc) = match style {
            0 => {
                self.feat("import_wildcard_file_level");
                s.push_str(&format!("import Pkg{t}{pkg}::*;\n\n"));
                ("St".to_string(), "En".to_string(), "W".to_string(), "inc".to_string())
            }
            1 => {
                self.feat("import_item_in_module");
                (format!("Pkg{t}{pkg}::St"), format!("Pkg{t}{pkg}::En"), "W".to_string(), format!("Pkg{t}{pkg}::inc"))
            }
            _ => {
                self.feat("qualified_package_ref");
                (format!("Pkg{t}{pkg}::St"), format!("Pkg{t}{pkg}::En"), format!("Pkg{t}{pkg}::W"), format!("Pkg{t}{pkg}::inc"))
            }
        };
        s.push_str(&self.doc("Leaf module covered by the fragment cache"));
        s.push_str(&format!("pub module Leaf{t}{n} #(\n    param P: u32 = {},\n) (\n", if style == 1 { format!("Pkg{t}{pkg}::W") } else { w.clone() }));
        s.push_str("    i_clk: input  clock   ,\n    i_rst: input  reset   ,\n");
        s.push_str(&format!("    i_dat: input  logic<{}>,\n    o_dat: output logic<{}>,\n", if style == 1 { format!("Pkg{t}{pkg}::W") } else { w.clone() }, if style == 1 { format!("Pkg{t}{pkg}::W") } else { w.clone() }));
        if let Some(b) = bus {
            self.feat("modport_port");
            s.push_str(&format!("    bus  : modport Bus{t}{b}::slave,\n"));
        }
        s.push_str(") {\n");
        if style == 1 {
            s.push_str(&format!("    import Pkg{t}{pkg}::W;\n"));
        }
        s.push_str(&format!("    var r: logic<{w}>;\n"));
        if self.rng.chance(2, 3) {
            self.feat("attribute_allow");
            s.push_str(&format!("    #[allow(unused_variable)]\n    var unused: {st};\n"));
        } else {
            s.push_str(&format!("    var sv: {st};\n    assign sv.lo = i_dat;\n    assign sv.hi = 0;\n"));
        }
        s.push_str(&format!("    let e: {en} = {en}::Run;\n"));
        if self.rng.chance(1, 3) {
            self.feat("sv_attribute");
            s.push_str("    #[sv(\"keep\")]\n    var kept: logic;\n    assign kept = i_dat[0];\n");
        }
        if self.rng.chance(1, 4) {
            self.feat("ifdef_attribute");
            s.push_str("    #[ifdef(DEBUG_X)]\n    var dbg: logic;\n    #[ifdef(DEBUG_X)]\n    assign dbg = 0;\n");
        }
        s.push_str(&format!(
            "    always_ff {{\n        if_reset {{\n            r = 0;\n        }} else if e == {en}::Run {{\n            r = {inc}(i_dat);\n        }}\n    }}\n    assign o_dat = r;\n"
        ));
        if bus.is_some() {
            s.push_str("    always_comb {\n        bus.ready = bus.valid;\n    }\n");
        }
        if self.rng.chance(1, 3) {
            self.feat("generate_block");
            s.push_str("    for i in 0..2 :g_blk {\n        var t: logic;\n        assign t = i_dat[i];\n    }\n");
        }
        if self.rng.chance(1, 4) {
            self.feat("msb");
            s.push_str("    let _top_bit: logic = r[msb];\n");
        }
        s.push_str("}\n");
        s
    }

    fn extras(&mut self, n: usize) -> String {
        let t = &self.tag.clone();
        let mut s = String::new();
        if self.rng.chance(1, 2) {
            self.feat("generic_module");
            s.push_str(&self.doc("Generic pass-through"));
            s.push_str(&format!("module GMod{t}{n}::<T: u32> (\n    i: input  logic<T>,\n    o: output logic<T>,\n) {{\n    assign o = i;\n}}\n"));
        }
        if self.rng.chance(1, 2) {
            self.feat("clock_domain");
            self.feat("unsafe_cdc");
            s.push_str(&format!(
                "module Cdc{t}{n} (\n    i_clk_a: input  'a clock,\n    i_dat_a: input  'a logic,\n    i_clk_b: input  'b clock,\n    o_dat_b: output 'b logic,\n) {{\n    unsafe (cdc) {{\n        assign o_dat_b = i_dat_a;\n    }}\n}}\n"
            ));
        }
        if self.rng.chance(1, 2) {
            self.feat("sv_reference");
            let shared = if self.rng.chance(3, 4) { "shared".to_string() } else { format!("m{t}{n}") };
            s.push_str(&format!(
                "module Sv{t}{n} (\n    i_clk: input  clock,\n    i_d  : input  logic,\n    o_d  : output logic,\n) {{\n    const K: u32 = $sv::ext_pkg_{shared}::K;\n    inst u_if: $sv::ext_if_{shared};\n    inst u_sv: $sv::ext_delay_{shared} (\n        clk: i_clk,\n        d  : i_d  ,\n        q  : o_d  ,\n    );\n    let _k: u32 = K;\n    let _m: logic = u_if.member_{shared};\n}}\n"
            ));
        }
        if self.rng.chance(1, 4) {
            self.feat("embed");
            s.push_str("embed (inline) sv{{{\n    // embedded sv\n}}}\n");
        }
        if self.rng.chance(1, 4) {
            self.feat("alias");
            s.push_str(&format!("module AliasTarget{t}{n} {{}}\nalias module Alias{t}{n} = AliasTarget{t}{n};\n"));
        }
        s
    }

    /// `$sv::` members with the SAME leaf name in different `$sv` scopes (depth 1, 2 and sometimes 3);
    /// the same member names are used by every file that gets such a module.
    fn sv_dup(&mut self, n: usize) -> String {
        let t = &self.tag.clone();
        self.feat("sv_same_leaf_different_scope");
        let mut s = format!("module SvDup{t}{n} (\n    i_d: input logic,\n) {{\n");
        s.push_str("    const KD: u32 = $sv::dup_pkg::dup_m;\n");
        s.push_str("    inst u_dup: $sv::dup_m;\n");
        if self.rng.bool() {
            s.push_str("    const KE: u32 = $sv::dup_pkg2::dup_m;\n    let _ke: u32 = KE;\n");
        }
        if self.rng.chance(1, 3) {
            self.feat("sv_scope_depth_3");
            s.push_str("    const KF: u32 = $sv::dup_pkg::dup_inner::dup_m;\n    let _kf: u32 = KF;\n");
        }
        if self.rng.bool() {
            s.push_str("    var v_dup: $sv::dup_pkg::dup_t;\n    assign v_dup = 0;\n    var w_dup: $sv::dup_t;\n    assign w_dup = 0;\n");
        }
        s.push_str("    let _kd: u32   = KD;\n    let _x : logic = i_d & u_dup.dup_sig;\n}\n");
        s
    }

    #[allow(clippy::too_many_arguments)]
    fn top(&mut self, n: usize, pkg: usize, leafs: &[(usize, Option<usize>)], gmods: &[usize], gpkgs: &[usize], cdcs: &[usize], gbus: &[usize]) -> String {
        let t = &self.tag.clone();
        let mut s = String::new();
        if self.rng.bool() {
            self.feat("import_item_file_level");
            s.push_str(&format!("import Pkg{t}{pkg}::W;\n"));
        } else {
            self.feat("import_wildcard_file_level");
            s.push_str(&format!("import Pkg{t}{pkg}::*;\n"));
        }
        s.push_str(&self.doc("Top level"));
        s.push_str(&format!("module Top{t}{n} (\n    i_clk: input  clock   ,\n    i_rst: input  reset   ,\n    i_dat: input  logic<W>,\n    o_dat: output logic<W>,\n) {{\n"));
        let mut prev = "i_dat".to_string();
        for (k, (leaf, bus)) in leafs.iter().enumerate() {
            let out = format!("w{k}");
            s.push_str(&format!("    var {out}: logic<W>;\n"));
            if let Some(b) = bus {
                self.feat("interface_instance");
                s.push_str(&format!("    inst bus{k}: Bus{t}{b} #(\n        BW: W,\n    );\n"));
                s.push_str(&format!("    always_comb {{\n        bus{k}.valid = 1;\n        bus{k}.data  = {prev};\n    }}\n"));
            }
            self.feat("instance_of_other_file");
            s.push_str(&format!("    inst u{k}: Leaf{t}{leaf} #(\n        P: W,\n    ) (\n        i_clk       ,\n        i_rst       ,\n        i_dat: {prev},\n        o_dat: {out},\n"));
            if bus.is_some() {
                s.push_str(&format!("        bus  : bus{k},\n"));
            }
            s.push_str("    );\n");
            prev = out;
        }
        for (k, g) in gmods.iter().enumerate() {
            self.feat("generic_module_instance");
            let out = format!("g{k}");
            s.push_str(&format!("    var {out}: logic<W>;\n    inst ug{k}: GMod{t}{g}::<W> (\n        i: {prev},\n        o: {out},\n    );\n"));
            prev = out;
        }
        for (k, g) in gpkgs.iter().enumerate() {
            self.feat("generic_package_ref");
            s.push_str(&format!("    const GC{k}: u32 = GPkg{t}{g}::<4>::V;\n    var gs{k}: GPkg{t}{g}::<{}>::GS;\n    assign gs{k}.g = GC{k};\n", 2 + k));
        }
        for (k, c) in cdcs.iter().enumerate() {
            self.feat("clock_domain_instance");
            s.push_str(&format!("    var c{k}: logic;\n    inst uc{k}: Cdc{t}{c} (\n        i_clk_a: i_clk ,\n        i_dat_a: {prev}[0],\n        i_clk_b: i_clk ,\n        o_dat_b: c{k}  ,\n    );\n"));
        }
        for (k, b) in gbus.iter().enumerate() {
            self.feat("generic_interface_instance");
            s.push_str(&format!("    inst gb{k}: GBus{t}{b}::<W>;\n    assign gb{k}.d = {prev};\n"));
        }
        s.push_str(&format!("    assign o_dat = {prev};\n}}\n"));
        s
    }
}

/// A generated project of 2..=5 files.
pub fn project(rng: &mut Rng, want_files: usize) -> FileSet {
    let tag = ["A", "B", "Q", "Zz"][rng.usize(4)].to_string();
    let mut g = G { rng, feats: vec![], tag: tag.clone() };
    let n = want_files.clamp(2, 5);
    // roles: file 0 = package(s); then (n>=3) interface; leafs; last = top
    let mut files: Vec<FileSrc> = vec![];
    let pkg_text = g.package(0);
    let has_gpkg = pkg_text.contains("package GPkg");
    let mut texts: Vec<(String, String)> = vec![("pkg".into(), pkg_text)];
    let has_if = n >= 3;
    let mut has_gbus = false;
    if has_if {
        let t = g.interface(0, Some(0));
        has_gbus = t.contains("interface GBus");
        texts.push(("bus".into(), t));
    }
    let n_leaf = n - 1 - usize::from(has_if) - 0;
    let n_leaf_files = n_leaf.saturating_sub(1).max(if n == 2 { 0 } else { 1 }).min(2);
    let mut leafs = vec![];
    let mut gmods = vec![];
    let mut cdcs = vec![];
    let mut leaf_texts = vec![];
    for k in 0..n_leaf_files {
        let bus = if has_if && g.rng.bool() { Some(0) } else { None };
        let mut t = g.leaf(k, 0, bus);
        let ex = g.extras(k);
        if ex.contains(&format!("module GMod{tag}{k}")) {
            gmods.push(k);
        }
        if ex.contains(&format!("module Cdc{tag}{k}")) {
            cdcs.push(k);
        }
        if g.rng.bool() {
            t.push_str(&ex);
        } else {
            t = format!("{ex}{t}");
            // a file-level import must stay first to keep the text tidy; either order is legal
        }
        leafs.push((k, bus));
        leaf_texts.push((format!("leaf{k}"), t));
    }
    let top_in_own_file = texts.len() + leaf_texts.len() < n;
    let gp: Vec<usize> = if has_gpkg { vec![0] } else { vec![] };
    let gb: Vec<usize> = if has_gbus { vec![0] } else { vec![] };
    let top = g.top(0, 0, &leafs, &gmods, &gp, &cdcs, &gb);
    texts.extend(leaf_texts);
    if top_in_own_file {
        texts.push(("top".into(), top));
    } else if let Some(last) = texts.last_mut() {
        // the file-level import of `top` would be a second import in this file: fine
        last.1.push_str(&top);
    }
    // optional second package-using file to reach the wanted count
    while texts.len() < n {
        let k = texts.len();
        let t = g.leaf(10 + k, 0, None);
        texts.push((format!("more{k}"), t));
    }
    if g.rng.chance(2, 3) {
        // two or three files mention the same `$sv` members (same leaf names in different scopes)
        let mut idx: Vec<usize> = (0..texts.len()).collect();
        g.rng.shuffle(&mut idx);
        let k = 2 + usize::from(texts.len() > 2 && g.rng.bool());
        for (m, &i) in idx.iter().take(k).enumerate() {
            let t = g.sv_dup(m);
            texts[i].1.push_str(&t);
        }
    }
    for (name, text) in texts {
        files.push(FileSrc { name: format!("src/{name}_{tag}.veryl"), text });
    }
    FileSet { files, origin: "generated".into(), features: g.feats }
}

/// Split a source text at a top-level declaration boundary into two files;
/// file-level `import` declarations are copied into both parts.
/// Must run on a thread whose parser tables may be polluted (call on a scratch thread).
pub fn split_top_level(text: &str, rng: &mut Rng) -> Option<(String, String)> {
    let parser = Parser::parse(text, &Path::new("split.veryl")).ok()?;
    let mut ends: Vec<usize> = vec![];
    for x in &parser.veryl.veryl_list {
        let r: TokenRange = (&*x.description_group).into();
        ends.push((r.end.pos + r.end.length) as usize);
    }
    if ends.len() < 2 {
        return None;
    }
    let mut segs: Vec<&str> = vec![];
    let mut from = 0usize;
    for (k, e) in ends.iter().enumerate() {
        let to = if k + 1 == ends.len() { text.len() } else { *e };
        segs.push(text.get(from..to)?);
        from = to;
    }
    let is_import = |s: &str| s.trim_start().lines().filter(|l| !l.trim_start().starts_with("//")).any(|l| l.trim_start().starts_with("import "));
    let cut = 1 + rng.usize(segs.len() - 1);
    let (mut a, mut b) = (String::new(), String::new());
    for (k, s) in segs.iter().enumerate() {
        let imp = is_import(s) && !s.contains('{');
        if k < cut || imp {
            a.push_str(s);
        }
        if k >= cut || imp {
            b.push_str(s);
        }
    }
    a.push('\n');
    b.push('\n');
    if rng.bool() { Some((a, b)) } else { Some((b, a)) }
}
