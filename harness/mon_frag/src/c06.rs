//! C06 — restoring a cached pass-1 fragment reproduces the analyzer state exactly.
//!
//! For a file set, a file F and positions (i, j):
//!   RUN A(p)  fresh thread; parse + pass1 every file in order with F at position p, and for F do
//!             what the CLI does: `watermark()`, parse, `analyze_pass1`, `capture` -> `to_bytes`.
//!   RUN B(i→j) fresh thread; same order with F at position j, but at F's position
//!             `Fragment::from_bytes` + `scope::set_project` + `restore` of the fragment captured by A(i).
//! then in both: `analyze_post_pass1`, dumps, pass2 for every file but F, `analyze_post_pass2`, dumps,
//! emit every file but F.
//! Refuting events: any dump / diagnostic record / emitted SV differs between B(i→j) and A(j); a panic
//! that A(j) does not have.  A capture that refuses (Err) is counted, never a violation; a `restore`
//! that returns Err is counted too (the CLI then drops the file and parses it), not compared.

use crate::fsgen::{self, FileSet, FileSrc};
use std::collections::{BTreeMap, BTreeSet};
use std::path::{Path, PathBuf};
use std::sync::Arc;
use vcommon::pipeline::{DiagRec, default_metadata, diag_rec};
use vcommon::pool::{PanicInfo, STACK_64M, fresh_thread, par_cases};
use vcommon::rng::hash_str;
use vcommon::{Args, Json, Rng, Run, json};
use veryl_analyzer::fragment_cache::{self, Fragment};
use veryl_analyzer::symbol::SymbolKind;
use veryl_analyzer::{Analyzer, AnalyzerError, Context, attribute_table, scope, symbol_table, type_dag, unsafe_table};
use veryl_emitter::Emitter;
use veryl_parser::Parser;
use veryl_parser::resource_table::{self, PathId, StrId};

const PRJ: &str = "prj";

/// signatures already minimised + reported by this process (Run de-duplicates too; this only
/// saves the minimisation work)
static REPORTED: std::sync::Mutex<BTreeSet<String>> = std::sync::Mutex::new(BTreeSet::new());

#[derive(Clone)]
pub enum FMode {
    /// parse F (and capture its fragment like the CLI does)
    Parse,
    /// restore F from these fragment bytes
    Restore(Arc<Vec<u8>>),
}

#[derive(Clone, Debug, Default)]
pub struct RunOut {
    /// (name, text) in a fixed order
    pub dumps: Vec<(&'static str, String)>,
    pub diags: Vec<DiagRec>,
    pub f_pass1_diags: usize,
    pub sv: Vec<(String, String)>,
    /// Parse mode: Ok(bytes) / Err(refusal reason); None when F's pass1 had diagnostics (not cacheable)
    pub capture: Option<Result<Vec<u8>, String>>,
    /// per file position: the capture of every parsed file (None: restored, or pass1 diagnostics)
    pub captures: Vec<Option<Result<Vec<u8>, String>>>,
    /// Restore mode: result of from_bytes + restore
    pub restore: Option<Result<(), String>>,
    pub parse_error: Option<String>,
    pub has_error: bool,
    /// symbol kinds (Debug variant names) of F's symbols
    pub f_kinds: BTreeSet<String>,
    pub f_symbols: usize,
}

fn kind_name(k: &SymbolKind) -> String {
    let s = format!("{k:?}");
    s.split(|c: char| !c.is_alphanumeric()).next().unwrap_or("").to_string()
}

/// Replace interning-order dependent handles in a `Debug` rendering by what they denote:
/// `StrId(n)` -> the string, `PathId(n)` -> the path, `ScopeId(n)` -> the scope's name path.
/// Counter ids (TokenId, SymbolId, DefinitionId, TextId) are kept: restore must reproduce them.
fn norm_debug(s: &str) -> String {
    let mut out = String::with_capacity(s.len());
    let mut rest = s;
    loop {
        let mut best: Option<(usize, &str)> = None;
        for pat in ["StrId(", "PathId(", "ScopeId("] {
            if let Some(k) = rest.find(pat)
                && best.is_none_or(|(b, _)| k < b)
            {
                best = Some((k, pat));
            }
        }
        let Some((k, pat)) = best else {
            out.push_str(rest);
            return out;
        };
        out.push_str(&rest[..k]);
        let after = &rest[k + pat.len()..];
        let Some(close) = after.find(')') else {
            out.push_str(&rest[k..]);
            return out;
        };
        let num: Option<usize> = after[..close].trim().parse().ok();
        match (pat, num) {
            ("StrId(", Some(n)) => out.push_str(&format!("{:?}", resource_table::get_str_value(StrId(n)).unwrap_or_else(|| format!("<StrId {n}?>")))),
            ("PathId(", Some(n)) => out.push_str(&format!("P{:?}", resource_table::get_path_value(PathId(n)).unwrap_or_else(|| PathBuf::from(format!("<PathId {n}?>"))))),
            ("ScopeId(", Some(n)) => {
                let path: Vec<String> = scope::name_path(scope::ScopeId(n as u32)).iter().map(|x| x.to_string()).collect();
                out.push_str(&format!("Scope[{}]", path.join("::")));
            }
            _ => out.push_str(&rest[k..k + pat.len() + close + 1]),
        }
        rest = &after[close + 1..];
    }
}

/// The harness-side equivalent of the crate-private `scope::dump_owned_scopes` (which is
/// `#[cfg(test)]`): owner-bearing scopes are exactly the inner scopes of scope-opening symbols, so
/// walk the symbols and report `path : expected kind : owner`.  The stored `ScopeKind` itself is not
/// readable from outside the crate (see notes/C06.md, hook request).
fn owned_scopes_dump() -> String {
    let mut lines: Vec<String> = vec![];
    for sym in symbol_table::get_all() {
        let Some(kind) = scope::scope_kind_of(&sym.kind) else { continue };
        let line = match scope::child(sym.scope, sym.token.text) {
            Some(sc) => {
                let path: Vec<String> = scope::name_path(sc).iter().map(|x| x.to_string()).collect();
                format!("{} : {:?} : owner {:?} (declared by {:?})", path.join("::"), kind, scope::owner_of(sc), sym.id)
            }
            None => {
                let path: Vec<String> = scope::name_path(sym.scope).iter().map(|x| x.to_string()).collect();
                format!("{}::{} : {:?} : <no inner scope> (declared by {:?})", path.join("::"), sym.token.text, kind, sym.id)
            }
        };
        lines.push(line);
    }
    lines.sort();
    lines.join("\n")
}

/// Canonicalise a `Debug` rendering: the elements of every map/set group (`{…}` that is not a
/// struct body, i.e. not preceded by a type name) are sorted, because hash-map iteration order
/// depends on interning order of the keys, which a restore legitimately changes.
fn canon_debug(s: &str) -> String {
    fn group(b: &[u8], i: &mut usize, close: u8, sort: bool) -> String {
        // reads items separated by top-level ", " until `close`; returns the rendered inside
        let mut items: Vec<String> = vec![];
        let mut cur = String::new();
        while *i < b.len() {
            let c = b[*i];
            if c == close {
                break;
            }
            match c {
                b'"' => {
                    let start = *i;
                    *i += 1;
                    while *i < b.len() && b[*i] != b'"' {
                        if b[*i] == b'\\' {
                            *i += 1;
                        }
                        *i += 1;
                    }
                    *i = (*i + 1).min(b.len());
                    cur.push_str(&String::from_utf8_lossy(&b[start..*i]));
                }
                b'{' | b'(' | b'[' => {
                    let cl = match c {
                        b'{' => b'}',
                        b'(' => b')',
                        _ => b']',
                    };
                    // struct body: `Name {`; map or set: anything else before the brace
                    let t = cur.trim_end();
                    let struct_like = t.chars().last().is_some_and(|x| x.is_alphanumeric() || x == '_') && cur.ends_with(' ');
                    let sort_inner = c == b'{' && !struct_like;
                    *i += 1;
                    let inner = group(b, i, cl, sort_inner);
                    *i += 1; // closing
                    cur.push(c as char);
                    cur.push_str(&inner);
                    cur.push(cl as char);
                }
                b',' if b.get(*i + 1) == Some(&b' ') => {
                    items.push(std::mem::take(&mut cur));
                    *i += 2;
                }
                _ => {
                    let ch_len = match c {
                        0..=0x7f => 1,
                        0xc0..=0xdf => 2,
                        0xe0..=0xef => 3,
                        _ => 4,
                    };
                    let end = (*i + ch_len).min(b.len());
                    cur.push_str(&String::from_utf8_lossy(&b[*i..end]));
                    *i = end;
                }
            }
        }
        if !cur.is_empty() || !items.is_empty() {
            items.push(cur);
        }
        if sort {
            items.sort();
        }
        items.join(", ")
    }
    let b = s.as_bytes();
    let mut i = 0;
    let mut out = String::new();
    while i < b.len() {
        out.push_str(&group(b, &mut i, 0, false));
        if i < b.len() {
            out.push(b[i] as char);
            i += 1;
        }
    }
    out
}

thread_local!(static FIRST_USER_SYMBOL: std::cell::Cell<usize> = const { std::cell::Cell::new(0) });

/// Every symbol created after `Analyzer::new` (builtins are identical in both runs by construction).
/// `Token::default()` (used by `TokenRange::default()` for "no token") is
/// `Token::generate(StrId(0), PathId(0))`: its text and path are whatever was interned first, i.e.
/// they denote nothing.  The codec stores them as real references, so a restored default token
/// names the first path interned *at capture time*.  Nothing can tell such a token from another
/// (its id is fresh), so the path of a zero-position generated token whose text is string 0 is
/// masked here.  (Loosens only this harness-side dump; recorded in notes/C06.md.)
fn mask_default_tokens(s: &str) -> String {
    let zero = format!("{:?}", resource_table::get_str_value(StrId(0)).unwrap_or_default());
    let pat = format!("text: {zero}, line: 0, column: 0, length: 0, pos: 0, source: Generated(P\"");
    let mut out = String::with_capacity(s.len());
    let mut rest = s;
    while let Some(k) = rest.find(&pat) {
        out.push_str(&rest[..k + pat.len() - 2]);
        out.push_str("<default>");
        let after = &rest[k + pat.len()..];
        match after.find("\")") {
            Some(e) => rest = &after[e + 1..],
            None => {
                rest = after;
                break;
            }
        }
    }
    out.push_str(rest);
    out
}

fn symbols_full_dump() -> String {
    let first = FIRST_USER_SYMBOL.with(|x| x.get());
    let mut all: Vec<_> = symbol_table::get_all().into_iter().filter(|s| s.id.0 > first).collect();
    all.sort_by_key(|s| s.id);
    let mut out = String::new();
    for s in &all {
        out.push_str(&format!("{} {}: {}\n", s.id.0, kind_name(&s.kind), canon_debug(&mask_default_tokens(&norm_debug(&format!("{s:?}"))))));
    }
    out
}

fn sorted_lines(s: &str) -> String {
    let mut v: Vec<&str> = s.lines().collect();
    v.sort();
    v.join("\n")
}

fn take_dumps(stage: &'static str, full: bool, paths: &[PathId], out: &mut Vec<(&'static str, String)>) {
    let name = |n: &'static str, post: &'static str| -> &'static str { if stage == "post1" { n } else { post } };
    out.push((name("symbol_table", "final:symbol_table"), symbol_table::dump()));
    out.push((name("scope_tokens", "final:scope_tokens"), scope::dump_tokens()));
    out.push((name("owned_scopes", "final:owned_scopes"), owned_scopes_dump()));
    out.push((name("type_dag", "final:type_dag"), type_dag::dump()));
    out.push((name("type_dag_file", "final:type_dag_file"), type_dag::dump_file()));
    if full {
        out.push((name("symbols_full", "final:symbols_full"), symbols_full_dump()));
        if stage == "post1" {
            out.push(("attributes", sorted_lines(&attribute_table::dump())));
            out.push(("unsafes", sorted_lines(&unsafe_table::dump())));
            let docs: Vec<String> = paths.iter().flat_map(|p| veryl_parser::doc_comment_table::export_by_path(*p).into_iter().map(move |(l, t)| format!("{p}:{l}: {t}"))).collect();
            out.push(("doc_comments", docs.join("\n")));
            let mut deps: Vec<String> = type_dag::dependent_files()
                .iter()
                .map(|(p, d)| {
                    let mut d: Vec<String> = d.iter().map(|x| x.to_string()).collect();
                    d.sort();
                    format!("{p} <- {}", d.join(", "))
                })
                .collect();
            deps.sort();
            out.push(("dependent_files", deps.join("\n")));
        }
    }
}

/// One run on the *current* thread (which must be fresh).  `f_pos` is handled per `mode`; every
/// other file is parsed.  pass2 and emit are skipped for `f_pos`.
pub fn run(files: &[FileSrc], f_pos: usize, mode: &FMode, full: bool) -> RunOut {
    let modes: Vec<FMode> = (0..files.len()).map(|k| if k == f_pos { mode.clone() } else { FMode::Parse }).collect();
    let skip: Vec<bool> = (0..files.len()).map(|k| k == f_pos).collect();
    let mut out = run_multi(files, &modes, &skip, full);
    if f_pos < files.len() && out.captures.len() > f_pos {
        out.capture = out.captures[f_pos].clone();
    }
    out
}

/// General form: file k is parsed (and captured like the CLI does for every miss) or restored per
/// `modes[k]`; pass2 and emit are skipped for files with `skip[k]` (always for restored ones).
pub fn run_multi(files: &[FileSrc], modes: &[FMode], skip: &[bool], full: bool) -> RunOut {
    let mut out = RunOut::default();
    let metadata = default_metadata();
    let analyzer = Analyzer::new(&metadata);
    let prj: StrId = PRJ.into();
    let mut errors: Vec<AnalyzerError> = vec![];
    let mut parsers: Vec<Option<Parser>> = vec![];
    let symbol_before = veryl_analyzer::symbol::peek_symbol_id();
    FIRST_USER_SYMBOL.with(|x| x.set(symbol_before));
    let mut windows: Vec<(usize, usize)> = vec![];
    for (k, f) in files.iter().enumerate() {
        let s0 = veryl_analyzer::symbol::peek_symbol_id();
        if let FMode::Restore(bytes) = &modes[k] {
            let r = match Fragment::from_bytes(bytes) {
                Err(e) => Err(format!("from_bytes: {e}")),
                Ok(frag) => {
                    // what analyze_pass1 would otherwise register for the project (incremental.rs)
                    scope::set_project(prj, true);
                    fragment_cache::restore(&frag, prj).map_err(|e| e.to_string())
                }
            };
            let failed = r.is_err();
            out.restore = Some(r);
            if failed {
                return out;
            }
            windows.push((s0, veryl_analyzer::symbol::peek_symbol_id()));
            out.captures.push(None);
            parsers.push(None);
            continue;
        }
        let wm = fragment_cache::watermark();
        let parser = match Parser::parse(&f.text, &Path::new(&f.name)) {
            Ok(p) => p,
            Err(e) => {
                out.parse_error = Some(format!("{}: {e}", f.name));
                return out;
            }
        };
        let errs = analyzer.analyze_pass1(PRJ, &parser.veryl);
        if skip[k] {
            out.f_pass1_diags += errs.len();
        }
        // incremental.rs: `capture(path, input, watermark, cacheable = errors.is_empty())`
        out.captures.push(if errs.is_empty() {
            Some(match fragment_cache::capture(Path::new(&f.name), &f.text, &wm) {
                Ok(frag) => frag.to_bytes().map_err(|e| e.to_string()),
                Err(e) => Err(e.to_string()),
            })
        } else {
            None
        });
        errors.extend(errs);
        windows.push((s0, veryl_analyzer::symbol::peek_symbol_id()));
        parsers.push(Some(parser));
    }
    errors.append(&mut Analyzer::analyze_post_pass1());

    let paths: Vec<PathId> = files.iter().map(|f| resource_table::insert_path(Path::new(&f.name))).collect();
    take_dumps("post1", full, &paths, &mut out.dumps);
    for s in symbol_table::get_all() {
        if windows.iter().zip(skip).any(|(w, sk)| *sk && s.id.0 > w.0 && s.id.0 <= w.1) {
            out.f_kinds.insert(kind_name(&s.kind));
            out.f_symbols += 1;
        }
    }

    let mut context = Context::default();
    let mut ir = veryl_analyzer::ir::Ir::default();
    for (k, p) in parsers.iter().enumerate() {
        if skip[k] {
            continue; // the CLI skips pass2 for restored files; run A does the same to stay comparable
        }
        if let Some(p) = p {
            context.set_project_name(PRJ);
            errors.append(&mut analyzer.analyze_pass2(&p.veryl, &mut context, Some(&mut ir)));
        }
    }
    errors.append(&mut Analyzer::analyze_post_pass2(&ir));
    take_dumps("final", full, &paths, &mut out.dumps);
    if full {
        out.dumps.push(("ir", ir.to_string()));
    }

    out.has_error = errors.iter().any(|e| e.is_error());
    out.diags = errors.iter().map(diag_rec).collect();
    out.diags.sort();

    for (k, p) in parsers.iter().enumerate() {
        // the CLI never emits when the analysis reported an error (and the emitter is entitled to
        // `unreachable!()` on unresolved references)
        if skip[k] || out.has_error {
            continue;
        }
        if let Some(p) = p {
            let f = &files[k];
            let src = PathBuf::from(&f.name);
            let dst = src.with_extension("sv");
            let map = src.with_extension("sv.map");
            let mut emitter = Emitter::new(&metadata, PRJ, &src, &dst, &map);
            emitter.emit(&p.veryl, &f.text);
            out.sv.push((f.name.clone(), emitter.as_str().to_string()));
        }
    }
    out
}

fn run_fresh(files: Vec<FileSrc>, f_pos: usize, mode: FMode, full: bool) -> Result<RunOut, PanicInfo> {
    fresh_thread(STACK_64M, move || run(&files, f_pos, &mode, full))
}

/// `others` in their base order with `f` inserted at position `p`.
fn order_with(files: &[FileSrc], f: usize, p: usize) -> Vec<FileSrc> {
    let mut v: Vec<FileSrc> = files.iter().enumerate().filter(|(k, _)| *k != f).map(|(_, x)| x.clone()).collect();
    v.insert(p, files[f].clone());
    v
}

#[derive(Clone, Debug)]
pub struct Diff {
    pub signature: String,
    pub what: String,
}

fn first_diff_line(a: &str, b: &str) -> (usize, String, String) {
    let mut la = a.lines();
    let mut lb = b.lines();
    let mut n = 0;
    loop {
        n += 1;
        match (la.next(), lb.next()) {
            (Some(x), Some(y)) if x == y => continue,
            (x, y) => return (n, x.unwrap_or("<end of dump>").to_string(), y.unwrap_or("<end of dump>").to_string()),
        }
    }
}

fn trunc(s: &str, n: usize) -> String {
    if s.len() <= n {
        return s.to_string();
    }
    let mut k = n;
    while !s.is_char_boundary(k) {
        k -= 1;
    }
    format!("{}…", &s[..k])
}

/// `a` cut to a window around the first byte where it differs from `b` (plus the line head)
fn window(a: &str, b: &str) -> String {
    if a.len() <= 360 {
        return a.to_string();
    }
    let k = a.bytes().zip(b.bytes()).position(|(x, y)| x != y).unwrap_or(a.len().min(b.len()));
    let mut lo = k.saturating_sub(160);
    while !a.is_char_boundary(lo) {
        lo -= 1;
    }
    let mut hi = (k + 200).min(a.len());
    while !a.is_char_boundary(hi) {
        hi += 1;
    }
    let head = trunc(a, 60);
    if lo <= 60 { trunc(a, hi) } else { format!("{head} … {}{}", &a[lo..hi], if hi < a.len() { "…" } else { "" }) }
}

/// which symbol kind / table a dump line is about
fn line_class(dump: &str, line: &str) -> String {
    let l = line;
    let kind_text = |t: &str| -> String { t.split(['(', ',']).next().unwrap_or("").trim().to_string() };
    match dump.trim_start_matches("final:") {
        "symbol_table" => l.split_once("}: ").map(|x| kind_text(x.1)).unwrap_or_default(),
        "type_dag" => l.rsplit_once(" : ").map(|x| kind_text(x.1)).unwrap_or_default(),
        "symbols_full" => l.split_whitespace().nth(1).unwrap_or("").trim_end_matches(':').to_string(),
        "owned_scopes" => l.split(" : ").nth(1).unwrap_or("").to_string(),
        "scope_tokens" => "NamespaceTable".to_string(),
        "type_dag_file" | "dependent_files" => "file_dag".to_string(),
        other => other.to_string(),
    }
}

fn squeeze(l: &str) -> String {
    l.split_whitespace().collect::<Vec<_>>().join(" ")
}

/// Compare B (F restored at j) with A (F parsed at j).  At most one `Diff`: the signature names
/// the first differing observation in a fixed order (dumps after post-pass1, dumps after
/// post-pass2, IR, diagnostics, SV) and, for a dump, the kind of the first line that exists on one
/// side only (column alignment squeezed; a line only in the restored run is preferred) — so one
/// root cause maps to one signature even when an extra symbol shifts every later id.
pub fn compare(a: &RunOut, b: &RunOut) -> Vec<Diff> {
    let mut sig: Option<String> = None;
    let mut parts: Vec<String> = vec![];
    for ((name, da), (_, db)) in a.dumps.iter().zip(b.dumps.iter()) {
        if da != db {
            let (n, la, lb) = first_diff_line(da, db);
            if sig.is_none() {
                let sa: BTreeSet<String> = da.lines().map(squeeze).collect();
                let sb: BTreeSet<String> = db.lines().map(squeeze).collect();
                let only_b = db.lines().find(|l| !sa.contains(&squeeze(l)));
                let only_a = da.lines().find(|l| !sb.contains(&squeeze(l)));
                let class = line_class(name, only_b.or(only_a).unwrap_or(&la));
                sig = Some(format!("dump:{name}:{class}"));
                parts.push(format!(
                    "{name} differs; first line only in the restored run: {:?}; first line only in the parsed run: {:?}; first differing line {n}: parsed {:?} / restored {:?}",
                    only_b.map(|l| trunc(&squeeze(l), 300)),
                    only_a.map(|l| trunc(&squeeze(l), 300)),
                    window(&la, &lb),
                    window(&lb, &la)
                ));
            } else {
                parts.push(format!("{name} differs at line {n}"));
            }
        }
    }
    if a.diags != b.diags {
        let sa: BTreeSet<&DiagRec> = a.diags.iter().collect();
        let sb: BTreeSet<&DiagRec> = b.diags.iter().collect();
        let only_a: Vec<&&DiagRec> = sa.difference(&sb).collect();
        let only_b: Vec<&&DiagRec> = sb.difference(&sa).collect();
        let code = only_b.first().or(only_a.first()).map(|d| d.code.clone()).unwrap_or_else(|| "multiplicity".into());
        sig.get_or_insert(format!("diag:{code}"));
        parts.push(format!(
            "diagnostics differ: only when F is parsed: {:?}; only when F is restored: {:?}",
            only_a.iter().take(3).map(|d| format!("{} {}", d.code, trunc(&d.message, 120))).collect::<Vec<_>>(),
            only_b.iter().take(3).map(|d| format!("{} {}", d.code, trunc(&d.message, 120))).collect::<Vec<_>>()
        ));
    }
    for ((name, ta), (_, tb)) in a.sv.iter().zip(b.sv.iter()) {
        if ta != tb {
            let (n, la, lb) = first_diff_line(ta, tb);
            sig.get_or_insert("sv-diff".into());
            parts.push(format!("emitted SV of {name} differs at line {n}: parsed {:?} / restored {:?}", trunc(&la, 200), trunc(&lb, 200)));
            break;
        }
    }
    match sig {
        None => vec![],
        Some(signature) => vec![Diff { signature, what: parts.join(" | ") }],
    }
}

fn norm_reason(r: &str) -> String {
    // strip run-dependent numbers so that refusal reasons form a small histogram
    let mut out = String::new();
    let mut last_digit = false;
    for c in r.chars() {
        if c.is_ascii_digit() {
            if !last_digit {
                out.push('N');
            }
            last_digit = true;
        } else {
            out.push(c);
            last_digit = false;
        }
    }
    trunc(&out, 120)
}

fn panic_sig(p: &PanicInfo) -> String {
    let loc = p.location.rsplit("/crates/").next().unwrap_or(&p.location).to_string();
    let in_restore = ["fragment_cache.rs", "fragment_codec.rs", "symbol_table.rs", "scope.rs", "definition_table.rs"].iter().any(|f| loc.contains(f));
    format!("{}:{loc}", if in_restore { "restore-panic" } else { "panic-after-restore" })
}

#[derive(Clone, Debug)]
pub enum PairOutcome {
    Equal,
    Diffs(Vec<Diff>),
    #[allow(dead_code)]
    CaptureRefused(String),
    NotCacheable,
    RestoreErr(String),
    #[allow(dead_code)]
    BaselinePanic(String),
    #[allow(dead_code)]
    Skipped(String),
}

/// Full check of one (F, i, j) triple from scratch (used by replay and the minimiser).
pub fn check_pair(files: &[FileSrc], f: usize, i: usize, j: usize, full: bool, perturb: bool) -> PairOutcome {
    let a_i = match run_fresh(order_with(files, f, i), i, FMode::Parse, full) {
        Ok(x) => x,
        Err(p) => return PairOutcome::BaselinePanic(format!("{}: {}", p.location, p.message)),
    };
    if let Some(e) = a_i.parse_error {
        return PairOutcome::Skipped(e);
    }
    let bytes = match &a_i.capture {
        None => return PairOutcome::NotCacheable,
        Some(Err(e)) => return PairOutcome::CaptureRefused(e.clone()),
        Some(Ok(b)) => Arc::new(b.clone()),
    };
    let a_j = if i == j {
        a_i
    } else {
        match run_fresh(order_with(files, f, j), j, FMode::Parse, full) {
            Ok(x) => x,
            Err(p) => return PairOutcome::BaselinePanic(format!("{}: {}", p.location, p.message)),
        }
    };
    judge(&a_j, run_fresh(order_with(files, f, j), j, FMode::Restore(bytes), full), perturb)
}

/// Several files restored at once: fragments captured in a cold build with file order `cap_order`
/// (indices into `files`), restored in a build with order `order`; `restored` = the files to restore.
pub fn check_multi(files: &[FileSrc], order: &[usize], cap_order: &[usize], restored: &BTreeSet<usize>, full: bool, perturb: bool) -> (PairOutcome, usize) {
    let cap_files: Vec<FileSrc> = cap_order.iter().map(|&k| files[k].clone()).collect();
    let n = files.len();
    let cold = {
        let (modes, skip) = (vec![FMode::Parse; n], vec![false; n]);
        match fresh_thread(STACK_64M, move || run_multi(&cap_files, &modes, &skip, false)) {
            Ok(x) => x,
            Err(p) => return (PairOutcome::BaselinePanic(format!("{}: {}", p.location, p.message)), 0),
        }
    };
    if let Some(e) = cold.parse_error {
        return (PairOutcome::Skipped(e), 0);
    }
    // a file without a stored fragment is a miss: parsed in the warm build
    let mut frag: BTreeMap<usize, Arc<Vec<u8>>> = BTreeMap::new();
    for (pos, &k) in cap_order.iter().enumerate() {
        if restored.contains(&k)
            && let Some(Some(Ok(b))) = cold.captures.get(pos)
        {
            frag.insert(k, Arc::new(b.clone()));
        }
    }
    if frag.is_empty() {
        return (PairOutcome::NotCacheable, 0);
    }
    let ord_files: Vec<FileSrc> = order.iter().map(|&k| files[k].clone()).collect();
    let skip: Vec<bool> = order.iter().map(|k| frag.contains_key(k)).collect();
    let a = {
        let (f2, s2) = (ord_files.clone(), skip.clone());
        match fresh_thread(STACK_64M, move || run_multi(&f2, &vec![FMode::Parse; f2.len()], &s2, full)) {
            Ok(x) => x,
            Err(p) => return (PairOutcome::BaselinePanic(format!("{}: {}", p.location, p.message)), 0),
        }
    };
    let modes: Vec<FMode> = order.iter().map(|k| frag.get(k).map(|b| FMode::Restore(b.clone())).unwrap_or(FMode::Parse)).collect();
    let b = fresh_thread(STACK_64M, move || run_multi(&ord_files, &modes, &skip, full));
    (judge(&a, b, perturb), frag.len())
}

/// Does `text` mention two distinct `$sv::` members with the same leaf name in different `$sv` scopes?
pub fn sv_same_leaf_different_scope(text: &str) -> bool {
    let mut by_leaf: BTreeMap<String, BTreeSet<String>> = BTreeMap::new();
    let mut rest = text;
    while let Some(k) = rest.find("$sv::") {
        let after = &rest[k + 5..];
        let end = after.find(|c: char| !(c.is_alphanumeric() || c == '_' || c == ':' || c == '#')).unwrap_or(after.len());
        let path = after[..end].trim_end_matches(':');
        let segs: Vec<&str> = path.split("::").collect();
        // every prefix names a `$sv` member too (`$sv::p::x` registers `p` and `p::x`)
        for n in 1..=segs.len() {
            by_leaf.entry(segs[n - 1].to_string()).or_default().insert(segs[..n].join("::"));
        }
        rest = &after[end..];
    }
    by_leaf.values().any(|v| v.len() > 1)
}

/// The file set changes between capture and restore: F's fragment is captured as the LAST file of
/// `files` (so whatever earlier files registered first shadows F's own inserts), then file `e` is
/// removed (or replaced by an unrelated stub) and F is restored at the last (or first) position of the
/// changed set S'.  Must equal F parsed at that position in S'.
pub fn check_changed(files: &[FileSrc], f: usize, e: usize, stub: bool, last: bool, full: bool, perturb: bool) -> PairOutcome {
    let n = files.len();
    let cap = match run_fresh(order_with(files, f, n - 1), n - 1, FMode::Parse, false) {
        Ok(x) => x,
        Err(p) => return PairOutcome::BaselinePanic(format!("{}: {}", p.location, p.message)),
    };
    if let Some(e) = cap.parse_error {
        return PairOutcome::Skipped(e);
    }
    let bytes = match &cap.capture {
        None => return PairOutcome::NotCacheable,
        Some(Err(e)) => return PairOutcome::CaptureRefused(e.clone()),
        Some(Ok(b)) => Arc::new(b.clone()),
    };
    let mut changed: Vec<FileSrc> = vec![];
    let mut f2 = 0;
    for (k, x) in files.iter().enumerate() {
        if k == e {
            if stub {
                changed.push(FileSrc { name: x.name.clone(), text: format!("module StubOfEditedFile{k} {{}}\n") });
            }
            continue;
        }
        if k == f {
            f2 = changed.len();
        }
        changed.push(x.clone());
    }
    let p = if last { changed.len() - 1 } else { 0 };
    let a = match run_fresh(order_with(&changed, f2, p), p, FMode::Parse, full) {
        Ok(x) => x,
        Err(pi) => return PairOutcome::BaselinePanic(format!("{}: {}", pi.location, pi.message)),
    };
    judge(&a, run_fresh(order_with(&changed, f2, p), p, FMode::Restore(bytes), full), perturb)
}

fn judge(a_j: &RunOut, b: Result<RunOut, PanicInfo>, perturb: bool) -> PairOutcome {
    match b {
        Err(p) => PairOutcome::Diffs(vec![Diff { signature: panic_sig(&p), what: format!("panic with F restored (none with F parsed) at {}: {}", p.location, trunc(&p.message, 300)) }]),
        Ok(mut b) => {
            if let Some(Err(e)) = &b.restore {
                return PairOutcome::RestoreErr(e.clone());
            }
            if perturb {
                // sensitivity switch: flip one character of one dump line of the restored run
                if let Some((_, d)) = b.dumps.iter_mut().find(|(n, _)| *n == "symbol_table")
                    && let Some(k) = d.find("ref: ")
                {
                    d.replace_range(k..k + 5, "ref:X");
                }
            }
            let d = compare(a_j, &b);
            if d.is_empty() { PairOutcome::Equal } else { PairOutcome::Diffs(d) }
        }
    }
}

// ------------------------------------------------------------------------------------------------
// case generation
// ------------------------------------------------------------------------------------------------

struct Pool {
    /// corpus files that analyze without errors alone
    clean: Vec<FileSrc>,
}

fn build_pool() -> Pool {
    let mut clean = vec![];
    for c in vcommon::corpus::testcases() {
        let f = FileSrc { name: format!("src/{}.veryl", c.name), text: c.text.clone() };
        let files = vec![f.clone()];
        let ok = fresh_thread(STACK_64M, move || {
            let o = run(&files, usize::MAX, &FMode::Parse, false);
            o.parse_error.is_none() && !o.has_error
        });
        if ok.unwrap_or(false) {
            clean.push(f);
        }
    }
    Pool { clean }
}

fn gen_set(rng: &mut Rng, pool: &Pool) -> FileSet {
    let mut s = gen_set_clean(rng, pool);
    // one set in six is made hostile: a needed file is missing, or a file exists twice under two names
    if rng.chance(1, 6) && s.files.len() >= 2 {
        if rng.bool() && s.files.len() >= 3 {
            let k = rng.usize(s.files.len());
            s.files.remove(k);
            s.features.push("hostile_missing_file");
            s.origin = format!("{}+missing", s.origin);
        } else if s.files.len() <= 4 {
            let k = rng.usize(s.files.len());
            let mut d = s.files[k].clone();
            d.name = d.name.replace(".veryl", "_dup.veryl");
            let at = rng.usize(s.files.len() + 1);
            s.files.insert(at, d);
            s.features.push("hostile_duplicate_file");
            s.origin = format!("{}+duplicate", s.origin);
        }
    }
    s
}

fn gen_set_clean(rng: &mut Rng, pool: &Pool) -> FileSet {
    match rng.below(10) {
        // generated project
        0..=3 => {
            let n = 2 + rng.usize(4);
            fsgen::project(rng, n)
        }
        // generated project + one corpus file
        4..=5 => {
            let n = 2 + rng.usize(3);
            let mut s = fsgen::project(rng, n);
            if !pool.clean.is_empty() {
                let c = rng.pick(&pool.clean).clone();
                s.origin = format!("generated+corpus:{}", c.name);
                let at = rng.usize(s.files.len() + 1);
                s.files.insert(at, c);
            }
            s
        }
        // a corpus file split at a top-level boundary (+ maybe a generated project around it)
        6..=8 => {
            let c = rng.pick(&pool.clean).clone();
            let mut r2 = rng.fork();
            let text = c.text.clone();
            let parts = fresh_thread(STACK_64M, move || fsgen::split_top_level(&text, &mut r2)).ok().flatten();
            let mut files = vec![];
            let stem = c.name.trim_end_matches(".veryl").to_string();
            match parts {
                Some((a, b)) => {
                    files.push(FileSrc { name: format!("{stem}_p0.veryl"), text: a });
                    files.push(FileSrc { name: format!("{stem}_p1.veryl"), text: b });
                }
                None => files.push(c.clone()),
            }
            let mut s = FileSet { files, origin: format!("split:{}", c.name), features: vec!["corpus_split"] };
            if rng.chance(1, 3) || s.files.len() < 2 {
                let g = fsgen::project(rng, 2);
                s.features.extend(g.features);
                s.files.extend(g.files);
            }
            s
        }
        // two or three corpus files
        _ => {
            let n = 2 + rng.usize(2);
            let mut files: Vec<FileSrc> = vec![];
            for _ in 0..n {
                let c = rng.pick(&pool.clean).clone();
                if !files.iter().any(|f| f.name == c.name) {
                    files.push(c);
                }
            }
            if files.len() < 2 {
                let g = fsgen::project(rng, 2);
                files.extend(g.files);
            }
            let origin = format!("corpus:{}", files.iter().map(|f| f.name.clone()).collect::<Vec<_>>().join("+"));
            FileSet { files, origin, features: vec!["corpus_whole"] }
        }
    }
}

fn files_json(files: &[FileSrc]) -> Json {
    Json::Array(files.iter().map(|f| json!({"name": f.name, "text": f.text})).collect())
}

fn files_from_json(v: &Json) -> Vec<FileSrc> {
    v.as_array().expect("files").iter().map(|f| FileSrc { name: f["name"].as_str().unwrap().into(), text: f["text"].as_str().unwrap().into() }).collect()
}

/// Minimise a failing (files, f, i, j): drop other files, then delta-debug lines of each file, while
/// a violation with the same signature persists.  Positions are re-mapped when a file goes away.
fn minimise(files: &[FileSrc], f: usize, i: usize, j: usize, sig: &str, full: bool, budget: &mut i64) -> (Vec<FileSrc>, usize, usize, usize) {
    let still = |files: &[FileSrc], f: usize, i: usize, j: usize, budget: &mut i64| -> bool {
        *budget -= 1;
        matches!(check_pair(files, f, i, j, full, false), PairOutcome::Diffs(d) if d.iter().any(|x| x.signature == sig))
    };
    let (mut files, mut f, mut i, mut j) = (files.to_vec(), f, i, j);
    // 1. remove other files
    let mut k = 0;
    while k < files.len() && *budget > 0 {
        if k == f || files.len() <= 1 {
            k += 1;
            continue;
        }
        let mut cand = files.clone();
        cand.remove(k);
        let nf = if k < f { f - 1 } else { f };
        let n = cand.len();
        // try the nearest positions that still exist
        let mut done = false;
        for (ci, cj) in [(i.min(n - 1), j.min(n - 1)), (i.saturating_sub(1).min(n - 1), j.saturating_sub(1).min(n - 1)), (0, n - 1), (n - 1, 0), (0, 0)] {
            if *budget > 0 && still(&cand, nf, ci, cj, budget) {
                files = cand.clone();
                f = nf;
                i = ci;
                j = cj;
                done = true;
                break;
            }
        }
        if !done {
            k += 1;
        }
    }
    // 2. reduce the text of each file (line-based delta debugging from vgen)
    for k in 0..files.len() {
        if *budget <= 0 {
            break;
        }
        let snapshot = files.clone();
        let mut keep = |text: &str| -> bool {
            if *budget <= 0 {
                return false;
            }
            let mut cand = snapshot.clone();
            cand[k].text = text.to_string();
            still(&cand, f, i, j, budget)
        };
        let reduced = vgen::reduce::reduce(&files[k].text, &mut keep, 250);
        files[k].text = reduced;
    }
    (files, f, i, j)
}

#[derive(Default)]
struct CaseOut {
    origin: String,
    features: Vec<&'static str>,
    n_files: usize,
    with_errors: bool,
    skipped: Option<String>,
    a_runs: u64,
    b_runs: u64,
    captures_ok: u64,
    captures_refused: BTreeMap<String, u64>,
    not_cacheable: u64,
    restores_compared: u64,
    restores_compared_i_ne_j: u64,
    multi_compared: u64,
    multi_files_restored: u64,
    changed_compared: u64,
    changed_sv_same_leaf: u64,
    /// (signature, what, f, e, stub, last)
    bad_changed: Vec<(String, String, usize, usize, bool, bool)>,
    /// (signature, what, order, cap_order, restored)
    bad_multi: Vec<(String, String, Vec<usize>, Vec<usize>, Vec<usize>)>,
    restore_err: BTreeMap<String, u64>,
    baseline_panics: u64,
    baseline_panic_notes: Vec<String>,
    kinds: BTreeSet<String>,
    f_symbols: u64,
    dumps_compared: u64,
    sv_files_compared: u64,
    diags_compared: u64,
    fragment_bytes: u64,
    /// (signature, what, f, i, j)
    bad: Vec<(String, String, usize, usize, usize)>,
    sample: Option<Json>,
}

fn run_case(set: &FileSet, rng: &mut Rng, full: bool, perturb: bool, stale_fragment: bool) -> CaseOut {
    let files = &set.files;
    let n = files.len();
    let mut out = CaseOut { origin: set.origin.clone(), features: set.features.clone(), n_files: n, ..Default::default() };
    let fs: Vec<usize> = if n <= 4 {
        (0..n).collect()
    } else {
        let mut v: Vec<usize> = (0..n).collect();
        rng.shuffle(&mut v);
        v.truncate(2);
        v
    };
    for &f in &fs {
        let positions: Vec<usize> = (0..n).collect();
        let pairs: Vec<(usize, usize)> = if n <= 4 {
            positions.iter().flat_map(|&i| positions.iter().map(move |&j| (i, j))).collect()
        } else {
            (0..8).map(|_| (rng.usize(n), rng.usize(n))).collect()
        };
        let mut a: BTreeMap<usize, RunOut> = BTreeMap::new();
        let needed: BTreeSet<usize> = pairs.iter().flat_map(|&(i, j)| [i, j]).collect();
        let mut abort = false;
        for &p in &needed {
            out.a_runs += 1;
            match run_fresh(order_with(files, f, p), p, FMode::Parse, full) {
                Ok(o) => {
                    if let Some(e) = &o.parse_error {
                        out.skipped = Some(format!("parse error: {}", trunc(e, 200)));
                        return out;
                    }
                    if o.has_error {
                        out.with_errors = true;
                    }
                    match &o.capture {
                        None => out.not_cacheable += 1,
                        Some(Ok(b)) => {
                            out.captures_ok += 1;
                            out.fragment_bytes += b.len() as u64;
                        }
                        Some(Err(e)) => *out.captures_refused.entry(norm_reason(e)).or_default() += 1,
                    }
                    a.insert(p, o);
                }
                Err(pi) => {
                    // the analyzer itself panics on this input/order: C11's business
                    out.baseline_panics += 1;
                    out.baseline_panic_notes.push(format!(
                        "analyzer panics without any restore at {}: {} (files in order: {:?})",
                        pi.location,
                        trunc(&pi.message, 160),
                        order_with(files, f, p).iter().map(|x| x.name.clone()).collect::<Vec<_>>()
                    ));
                    abort = true;
                    break;
                }
            }
        }
        if abort {
            continue;
        }
        // sensitivity switch: the fragment comes from a slightly different text of F (as if restore
        // reproduced a slightly different state): ` logic` -> ` bit  ` at its first occurrence
        let stale: Option<Vec<u8>> = if stale_fragment && files[f].text.contains(" logic") {
            let mut fs2 = files.to_vec();
            fs2[f].text = fs2[f].text.replacen(" logic", " bit  ", 1);
            run_fresh(order_with(&fs2, f, 0), 0, FMode::Parse, false).ok().and_then(|o| o.capture).and_then(|c| c.ok())
        } else {
            None
        };
        for &(i, j) in &pairs {
            let Some(Ok(mut bytes)) = a[&i].capture.clone() else { continue };
            if let Some(s) = &stale {
                bytes = s.clone();
            }
            out.b_runs += 1;
            let b = run_fresh(order_with(files, f, j), j, FMode::Restore(Arc::new(bytes)), full);
            match judge(&a[&j], b, perturb) {
                PairOutcome::Equal => {}
                PairOutcome::RestoreErr(e) => {
                    *out.restore_err.entry(norm_reason(&e)).or_default() += 1;
                    continue;
                }
                PairOutcome::Diffs(d) => {
                    for x in d {
                        out.bad.push((x.signature, x.what, f, i, j));
                    }
                }
                _ => unreachable!(),
            }
            out.restores_compared += 1;
            if i != j {
                out.restores_compared_i_ne_j += 1;
            }
            out.dumps_compared += a[&j].dumps.len() as u64;
            out.sv_files_compared += a[&j].sv.len() as u64;
            out.diags_compared += a[&j].diags.len() as u64;
            out.kinds.extend(a[&j].f_kinds.iter().cloned());
            out.f_symbols += a[&j].f_symbols as u64;
            if out.sample.is_none() && i != j && n >= 3 {
                out.sample = Some(json!({
                    "origin": set.origin, "files": files.iter().map(|x| json!({"name": x.name, "bytes": x.text.len()})).collect::<Vec<_>>(),
                    "F": files[f].name, "captured_at": i, "restored_at": j, "fragment_bytes": a[&i].capture.as_ref().unwrap().as_ref().unwrap().len(),
                    "F_symbols": a[&j].f_symbols, "F_symbol_kinds": a[&j].f_kinds, "diagnostics": a[&j].diags.len(),
                    "F_text": trunc(&files[f].text, 600),
                }));
            }
        }
    }
    // the file set changes between the cold build (capture) and the warm build (restore)
    if n >= 2 {
        for &f in &fs {
            for e in 0..n {
                if e == f {
                    continue;
                }
                let (stub, last) = (rng.bool(), rng.chance(3, 4));
                match check_changed(files, f, e, stub, last, full, perturb) {
                    o @ (PairOutcome::Equal | PairOutcome::Diffs(_)) => {
                        out.changed_compared += 1;
                        if sv_same_leaf_different_scope(&files[f].text) && sv_same_leaf_different_scope(&files[e].text) {
                            out.changed_sv_same_leaf += 1;
                        }
                        if let PairOutcome::Diffs(d) = o {
                            for x in d {
                                out.bad_changed.push((x.signature, x.what, f, e, stub, last));
                            }
                        }
                    }
                    PairOutcome::RestoreErr(er) => *out.restore_err.entry(norm_reason(&er)).or_default() += 1,
                    PairOutcome::BaselinePanic(m) => {
                        out.baseline_panics += 1;
                        if out.baseline_panic_notes.len() < 2 {
                            out.baseline_panic_notes.push(format!(
                                "analyzer panics without any restore at {} (file set with {} {})",
                                trunc(&m, 200),
                                files[e].name,
                                if stub { "replaced by a stub" } else { "removed" }
                            ));
                        }
                    }
                    _ => {}
                }
            }
        }
    }
    // several files restored in one build (what a warm CLI build does), fragments from a cold build
    // with another file order
    for _ in 0..2 {
        let mut order: Vec<usize> = (0..n).collect();
        rng.shuffle(&mut order);
        let mut cap_order = order.clone();
        rng.shuffle(&mut cap_order);
        let size = if rng.chance(1, 3) { n } else { (2 + rng.usize(n - 1)).min(n) };
        let mut idx: Vec<usize> = (0..n).collect();
        rng.shuffle(&mut idx);
        let restored: BTreeSet<usize> = idx[..size].iter().copied().collect();
        match check_multi(files, &order, &cap_order, &restored, full, perturb) {
            (PairOutcome::Equal, k) => {
                out.multi_compared += 1;
                out.multi_files_restored += k as u64;
            }
            (PairOutcome::Diffs(d), k) => {
                out.multi_compared += 1;
                out.multi_files_restored += k as u64;
                for x in d {
                    out.bad_multi.push((x.signature, x.what, order.clone(), cap_order.clone(), restored.iter().copied().collect()));
                }
            }
            (PairOutcome::RestoreErr(e), _) => *out.restore_err.entry(norm_reason(&e)).or_default() += 1,
            (PairOutcome::BaselinePanic(_), _) => out.baseline_panics += 1,
            _ => {}
        }
    }
    out
}

pub fn main(args: Args) {
    let run = Arc::new(Run::new(
        args.clone(),
        "exploration",
        "a case is one file set (2-5 files: generated multi-file projects with packages/structs/enums/functions/generics/interfaces+modports/\
         imports/$sv references/attributes/unsafe cdc/doc comments/clock domains, corpus testcases whole or split at a top-level declaration, \
         and mixes); for <=4 files every file is F and every (capture position i, restore position j) pair is run, above that 2 files x 8 random \
         pairs; non-trivial = at least one restore compared with i != j; distinct = distinct file-set texts",
    ));
    run.assume("runs A (F parsed at j, captured like the CLI) and B (F restored at j) both start from fresh thread-local tables; restore reserves the ID ranges a parse would, so the repo's own dumps are compared byte for byte as its test restored_fragment_matches_direct_pass1 does");
    run.assume("pass2 and emit are skipped for F in both runs (the CLI never runs them for a restored file)");
    run.assume("scope::dump_owned_scopes is #[cfg(test)] in the repo; an equivalent is rebuilt from public API (scope path, expected kind, owner); the stored ScopeKind is not observable");
    run.assume("extra dumps (symbols_full = Debug of every Symbol with StrId/PathId/ScopeId replaced by what they denote, attribute/unsafe tables, doc comments, dependent_files) are stricter than the dumps the property names; they can be switched off with --set full=0");

    let full = args.get("full") != Some("0");
    let perturb = args.get("sensitivity") == Some("perturb-dump");
    let stale_fragment = args.get("sensitivity") == Some("stale-fragment");

    if let Some(rp) = &args.replay {
        let v: Json = serde_json::from_str(&std::fs::read_to_string(rp).expect("replay file")).unwrap();
        let c = &v["case"];
        let files = files_from_json(&c["files"]);
        if c.get("changed").is_some() {
            let ch = &c["changed"];
            run.eval();
            match check_changed(&files, ch["f"].as_u64().unwrap() as usize, ch["e"].as_u64().unwrap() as usize, ch["stub"].as_bool().unwrap(), ch["last"].as_bool().unwrap(), full, perturb) {
                PairOutcome::Diffs(d) => {
                    for x in d {
                        run.violation(&format!("changed-set:{}", x.signature), &x.what, c.clone());
                    }
                }
                other => println!("replay outcome: {other:?}"),
            }
            run.finish(&[]);
        }
        if c.get("multi").is_some() {
            let list = |k: &str| -> Vec<usize> { c["multi"][k].as_array().unwrap().iter().map(|x| x.as_u64().unwrap() as usize).collect() };
            run.eval();
            match check_multi(&files, &list("order"), &list("cap_order"), &list("restored").into_iter().collect(), full, perturb).0 {
                PairOutcome::Diffs(d) => {
                    for x in d {
                        run.violation(&x.signature, &x.what, c.clone());
                    }
                }
                other => println!("replay outcome: {other:?}"),
            }
            run.finish(&[]);
        }
        let (f, i, j) = (c["f"].as_u64().unwrap() as usize, c["i"].as_u64().unwrap() as usize, c["j"].as_u64().unwrap() as usize);
        run.eval();
        match check_pair(&files, f, i, j, full, perturb) {
            PairOutcome::Diffs(d) => {
                for x in d {
                    run.violation(&x.signature, &x.what, c.clone());
                }
            }
            other => println!("replay outcome: {other:?}"),
        }
        run.finish(&[]);
    }

    let pool = Arc::new(build_pool());
    run.count("corpus_files_clean_alone", pool.clean.len() as i64);
    let n = args.budget("cases", 40, 2_000);
    let min_budget = args.budget("minimise_runs", 400, 1_500) as i64;
    let seed = args.seed;
    let run2 = run.clone();
    let pool2 = pool.clone();
    par_cases(
        n,
        args.jobs,
        STACK_64M,
        move |i| {
            let mut rng = Rng::for_case(seed, "C06", i);
            let set = gen_set(&mut rng, &pool2);
            let o = run_case(&set, &mut rng, full, perturb, stale_fragment);
            (set, o)
        },
        move |case, r| {
            run2.eval();
            let (set, o) = match r {
                Err(p) => {
                    run2.inconclusive(format!("case {case}: harness panicked at {}: {}", p.location, p.message));
                    return;
                }
                Ok(x) => x,
            };
            if let Some(s) = &o.skipped {
                run2.count("cases_skipped", 1);
                run2.note(format!("case {case} ({}) skipped: {s}", o.origin));
                return;
            }
            run2.count("file_sets", 1);
            run2.count(&format!("file_sets_{}_files", o.n_files), 1);
            run2.count(if o.with_errors { "file_sets_with_analyzer_errors" } else { "file_sets_clean" }, 1);
            run2.seen("origins", o.origin.split(':').next().unwrap_or(""));
            for f in &o.features {
                run2.seen("generator_features", f);
            }
            run2.count("runs_parse", o.a_runs as i64);
            run2.count("runs_restore", o.b_runs as i64);
            run2.count("captures_ok", o.captures_ok as i64);
            run2.count("captures_not_attempted_pass1_diagnostics", o.not_cacheable as i64);
            let refused: u64 = o.captures_refused.values().sum();
            run2.count("captures_refused", refused as i64);
            for (k, v) in &o.captures_refused {
                run2.count(&format!("refusal[{k}]"), *v as i64);
            }
            for (k, v) in &o.restore_err {
                run2.count(&format!("restore_err[{k}]"), *v as i64);
                run2.count("restore_errors", *v as i64);
            }
            run2.count("restores_compared", o.restores_compared as i64);
            run2.count("restores_compared_other_position", o.restores_compared_i_ne_j as i64);
            run2.count("dumps_compared", o.dumps_compared as i64);
            run2.count("sv_files_compared", o.sv_files_compared as i64);
            run2.count("diagnostic_records_compared", o.diags_compared as i64);
            run2.count("restored_symbols", o.f_symbols as i64);
            run2.count("fragment_bytes", o.fragment_bytes as i64);
            run2.count("baseline_panics_not_judged", o.baseline_panics as i64);
            for x in &o.baseline_panic_notes {
                run2.note(format!("case {case} ({}): {x}", o.origin));
            }
            for k in &o.kinds {
                run2.seen("symbol_kinds_restored", k);
            }
            if o.restores_compared_i_ne_j > 0 {
                let text: String = set.files.iter().map(|f| f.text.as_str()).collect::<Vec<_>>().join("\u{1}");
                run2.nontrivial(hash_str(&text));
            }
            if let Some(s) = o.sample
                && o.bad.is_empty()
            {
                run2.sample(s);
            }
            run2.count("restore_in_changed_file_set", o.changed_compared as i64);
            run2.count("sv_members_same_leaf_different_scope", o.changed_sv_same_leaf as i64);
            if set.files.iter().filter(|f| sv_same_leaf_different_scope(&f.text)).count() >= 2 {
                run2.count("file_sets_with_two_files_sharing_same_leaf_sv_members", 1);
            }
            for (sig, what, f, e, stub, last) in &o.bad_changed {
                run2.count("differences_observed", 1);
                let sig = &format!("changed-set:{sig}");
                if !REPORTED.lock().unwrap().insert(sig.clone()) {
                    continue;
                }
                // drop files that are neither F nor E while the difference persists
                let (mut files, mut f, mut e) = (set.files.clone(), *f, *e);
                let mut k = 0;
                while k < files.len() {
                    if k == f || k == e {
                        k += 1;
                        continue;
                    }
                    let mut cand = files.clone();
                    cand.remove(k);
                    let (nf, ne) = (if k < f { f - 1 } else { f }, if k < e { e - 1 } else { e });
                    if matches!(check_changed(&cand, nf, ne, *stub, *last, full, false), PairOutcome::Diffs(d) if d.iter().any(|x| sig.ends_with(&x.signature))) {
                        files = cand;
                        f = nf;
                        e = ne;
                    } else {
                        k += 1;
                    }
                }
                run2.violation(
                    sig,
                    &format!("{what} [F = {} captured as the last of {} files, then {} {} and F restored at the {} position; origin {}]",
                        files[f].name, files.len(), files[e].name, if *stub { "replaced by an unrelated stub" } else { "removed" }, if *last { "last" } else { "first" }, o.origin),
                    json!({"files": files_json(&files), "changed": {"f": f, "e": e, "stub": stub, "last": last}, "origin": o.origin, "case_index": case}),
                );
            }
            run2.count("multi_restores_compared", o.multi_compared as i64);
            run2.count("multi_restores_files_restored", o.multi_files_restored as i64);
            let mut seen = BTreeSet::new();
            let single_sigs: BTreeSet<String> = o.bad.iter().map(|x| x.0.clone()).collect();
            for (sig, what, order, cap_order, restored) in &o.bad_multi {
                run2.count("differences_observed", 1);
                // the same difference with a single restored file is reported (minimised) below
                if single_sigs.contains(sig) || !seen.insert(sig.clone()) {
                    continue;
                }
                if !REPORTED.lock().unwrap().insert(sig.clone()) {
                    continue;
                }
                // prefer a single-file reproduction (then minimised) over the multi-file one
                let n = set.files.len();
                let mut single = None;
                'search: for &f in restored {
                    for i in 0..n {
                        for j in 0..n {
                            if let PairOutcome::Diffs(d) = check_pair(&set.files, f, i, j, full, false)
                                && d.iter().any(|x| &x.signature == sig)
                            {
                                single = Some((f, i, j));
                                break 'search;
                            }
                        }
                    }
                }
                if let Some((f, i, j)) = single {
                    let mut budget = min_budget;
                    let (mf, mfi, mi, mj) = minimise(&set.files, f, i, j, sig, full, &mut budget);
                    let what2 = match check_pair(&mf, mfi, mi, mj, full, false) {
                        PairOutcome::Diffs(d) => d.iter().find(|x| &x.signature == sig).map(|x| x.what.clone()).unwrap_or(what.clone()),
                        _ => what.clone(),
                    };
                    run2.violation(
                        sig,
                        &format!("{what2} [F = {} captured at position {mi}, restored at position {mj} of {} files; origin {}; first seen with several files restored together]", mf[mfi].name, mf.len(), o.origin),
                        json!({"files": files_json(&mf), "f": mfi, "i": mi, "j": mj, "origin": o.origin,
                               "original": {"files": files_json(&set.files), "multi": {"order": order, "cap_order": cap_order, "restored": restored}}, "case_index": case}),
                    );
                    continue;
                }
                run2.violation(
                    sig,
                    &format!("{what} [files {:?} restored together in order {order:?} from fragments captured in order {cap_order:?}; origin {}]", restored, o.origin),
                    json!({"files": files_json(&set.files), "multi": {"order": order, "cap_order": cap_order, "restored": restored}, "origin": o.origin, "case_index": case}),
                );
            }
            for (sig, what, f, i, j) in &o.bad {
                run2.count("differences_observed", 1);
                if !seen.insert(sig.clone()) || !REPORTED.lock().unwrap().insert(sig.clone()) {
                    continue;
                }
                let mut budget = min_budget;
                let (mf, mfi, mi, mj) = minimise(&set.files, *f, *i, *j, sig, full, &mut budget);
                let what2 = match check_pair(&mf, mfi, mi, mj, full, false) {
                    PairOutcome::Diffs(d) => d.iter().find(|x| &x.signature == sig).map(|x| x.what.clone()).unwrap_or(what.clone()),
                    _ => what.clone(),
                };
                run2.violation(
                    sig,
                    &format!("{what2} [F = {} captured at position {mi}, restored at position {mj} of {} files; origin {}]", mf[mfi].name, mf.len(), o.origin),
                    json!({"files": files_json(&mf), "f": mfi, "i": mi, "j": mj, "origin": o.origin,
                           "original": {"files": files_json(&set.files), "f": f, "i": i, "j": j}, "case_index": case}),
                );
            }
        },
    );
    let q = |x: i64| -> i64 { if n >= 40 { x } else { 0 } };
    run.finish(&[
        ("file_sets", (n as i64 * 8) / 10),
        ("captures_ok", q(100)),
        ("restores_compared", q(300)),
        ("restores_compared_other_position", q(200)),
        ("multi_restores_compared", q(20)),
        ("restore_in_changed_file_set", q(60)),
        ("sv_members_same_leaf_different_scope", q(12)),
        ("dumps_compared", q(5_000)),
        ("sv_files_compared", q(800)),
        ("restored_symbols", q(5_000)),
        ("symbol_kinds_restored", q(9)),
        ("generator_features", q(11)),
        ("distinct_nontrivial", q(13)),
    ]);
}
