//! mon_frag — fragment cache monitors; dispatches on --prop.

mod c06;
mod fsgen;

use vcommon::Args;

fn main() {
    vcommon::pool::install_panic_hook();
    let args = Args::parse();
    match args.prop.as_str() {
        "C06" => c06::main(args),
        p => {
            eprintln!("mon_frag: unknown property {p}");
            std::process::exit(2);
        }
    }
}
