//! OpGen — Veryl expression trees: generator, Veryl text rendering, and the
//! translation to `refmodel::bv4::Expr` (IEEE 1800 §11.6/§11.8 semantics of the
//! SystemVerilog the emitter produces for the same tree).
//!
//! Veryl-specific decisions mirrored here (listed in notes/C17.md):
//! * `<:` / `>:` are `<` / `>`; `if c ? a : b` is `c ? a : b`; `{a repeat n}` is `{n{a}}`.
//! * a base-less decimal literal is a 32-bit signed value.
//! * a width-less based literal (`'hff`) has the minimal width of its digits,
//!   where a leading `0` digit counts like a `1` (`value.rs: calc_emitted_width`,
//!   shared with the emitter, which emits it *sized*).
//! * `x as u8/u16/u32/u64` is `unsigned'(byte'(x))` …, `x as i8…` is `byte'(x)` ….
//! * `x as N` is emitted as `N'(x)`.  IEEE §6.24.1 lets the operand's signedness
//!   pass through; the analyzer documents the result as unsigned.  Both readings
//!   are accepted (`Reading::cast_n_unsigned`).
//! * `==`/`!=`/`==?`/`!=?` with X/Z: strict and "ambiguous" readings are both
//!   accepted (`Reading::eq_ambig`).

use refmodel::bv4::{self, BinOp, Bv, Expr, UnOp, X, Z};
use vcommon::Rng;

#[derive(Clone, Copy, Debug, PartialEq, Eq, Hash)]
pub enum VUn {
    Plus,
    Neg,
    Not,
    LogicNot,
    RedAnd,
    RedNand,
    RedOr,
    RedNor,
    RedXor,
    RedXnor,
}

pub const ALL_VUN: [VUn; 10] =
    [VUn::Plus, VUn::Neg, VUn::Not, VUn::LogicNot, VUn::RedAnd, VUn::RedNand, VUn::RedOr, VUn::RedNor, VUn::RedXor, VUn::RedXnor];

impl VUn {
    pub fn text(self) -> &'static str {
        match self {
            VUn::Plus => "+",
            VUn::Neg => "-",
            VUn::Not => "~",
            VUn::LogicNot => "!",
            VUn::RedAnd => "&",
            VUn::RedNand => "~&",
            VUn::RedOr => "|",
            VUn::RedNor => "~|",
            VUn::RedXor => "^",
            VUn::RedXnor => "~^",
        }
    }
    pub fn bv4(self) -> UnOp {
        match self {
            VUn::Plus => UnOp::Plus,
            VUn::Neg => UnOp::Neg,
            VUn::Not => UnOp::Not,
            VUn::LogicNot => UnOp::LogicNot,
            VUn::RedAnd => UnOp::RedAnd,
            VUn::RedNand => UnOp::RedNand,
            VUn::RedOr => UnOp::RedOr,
            VUn::RedNor => UnOp::RedNor,
            VUn::RedXor => UnOp::RedXor,
            VUn::RedXnor => UnOp::RedXnor,
        }
    }
    pub fn one_bit(self) -> bool {
        !matches!(self, VUn::Plus | VUn::Neg | VUn::Not)
    }
}

#[derive(Clone, Copy, Debug, PartialEq, Eq, Hash)]
pub enum VBin {
    Pow,
    Div,
    Rem,
    Mul,
    Add,
    Sub,
    Ashl,
    Ashr,
    Shl,
    Shr,
    Le,
    Ge,
    Lt,
    Gt,
    Eq,
    WildEq,
    Ne,
    WildNe,
    LogicAnd,
    LogicOr,
    And,
    Or,
    Xor,
    Xnor,
}

pub const ALL_VBIN: [VBin; 24] = [
    VBin::Pow,
    VBin::Div,
    VBin::Rem,
    VBin::Mul,
    VBin::Add,
    VBin::Sub,
    VBin::Ashl,
    VBin::Ashr,
    VBin::Shl,
    VBin::Shr,
    VBin::Le,
    VBin::Ge,
    VBin::Lt,
    VBin::Gt,
    VBin::Eq,
    VBin::WildEq,
    VBin::Ne,
    VBin::WildNe,
    VBin::LogicAnd,
    VBin::LogicOr,
    VBin::And,
    VBin::Or,
    VBin::Xor,
    VBin::Xnor,
];

impl VBin {
    pub fn text(self) -> &'static str {
        match self {
            VBin::Pow => "**",
            VBin::Div => "/",
            VBin::Rem => "%",
            VBin::Mul => "*",
            VBin::Add => "+",
            VBin::Sub => "-",
            VBin::Ashl => "<<<",
            VBin::Ashr => ">>>",
            VBin::Shl => "<<",
            VBin::Shr => ">>",
            VBin::Le => "<=",
            VBin::Ge => ">=",
            VBin::Lt => "<:",
            VBin::Gt => ">:",
            VBin::Eq => "==",
            VBin::WildEq => "==?",
            VBin::Ne => "!=",
            VBin::WildNe => "!=?",
            VBin::LogicAnd => "&&",
            VBin::LogicOr => "||",
            VBin::And => "&",
            VBin::Or => "|",
            VBin::Xor => "^",
            VBin::Xnor => "~^",
        }
    }
    /// bv4 operator; `ambig` selects the "ambiguous" reading of the equality operators.
    pub fn bv4(self, ambig: bool) -> BinOp {
        match self {
            VBin::Pow => BinOp::Pow,
            VBin::Div => BinOp::Div,
            VBin::Rem => BinOp::Rem,
            VBin::Mul => BinOp::Mul,
            VBin::Add => BinOp::Add,
            VBin::Sub => BinOp::Sub,
            VBin::Ashl => BinOp::Ashl,
            VBin::Ashr => BinOp::Ashr,
            VBin::Shl => BinOp::Shl,
            VBin::Shr => BinOp::Shr,
            VBin::Le => BinOp::Le,
            VBin::Ge => BinOp::Ge,
            VBin::Lt => BinOp::Lt,
            VBin::Gt => BinOp::Gt,
            VBin::Eq => {
                if ambig {
                    BinOp::EqAmbig
                } else {
                    BinOp::Eq
                }
            }
            VBin::Ne => {
                if ambig {
                    BinOp::NeAmbig
                } else {
                    BinOp::Ne
                }
            }
            VBin::WildEq => {
                if ambig {
                    BinOp::WildEqAmbig
                } else {
                    BinOp::WildEq
                }
            }
            VBin::WildNe => {
                if ambig {
                    BinOp::WildNeAmbig
                } else {
                    BinOp::WildNe
                }
            }
            VBin::LogicAnd => BinOp::LogicAnd,
            VBin::LogicOr => BinOp::LogicOr,
            VBin::And => BinOp::And,
            VBin::Or => BinOp::Or,
            VBin::Xor => BinOp::Xor,
            VBin::Xnor => BinOp::Xnor,
        }
    }
    pub fn one_bit(self) -> bool {
        matches!(
            self,
            VBin::Le | VBin::Ge | VBin::Lt | VBin::Gt | VBin::Eq | VBin::WildEq | VBin::Ne | VBin::WildNe | VBin::LogicAnd | VBin::LogicOr
        )
    }
    pub fn is_equality(self) -> bool {
        matches!(self, VBin::Eq | VBin::WildEq | VBin::Ne | VBin::WildNe)
    }
}

#[derive(Clone, Copy, Debug, PartialEq, Eq, Hash)]
pub enum CastTy {
    U8,
    U16,
    U32,
    U64,
    I8,
    I16,
    I32,
    I64,
}

impl CastTy {
    pub fn text(self) -> &'static str {
        match self {
            CastTy::U8 => "u8",
            CastTy::U16 => "u16",
            CastTy::U32 => "u32",
            CastTy::U64 => "u64",
            CastTy::I8 => "i8",
            CastTy::I16 => "i16",
            CastTy::I32 => "i32",
            CastTy::I64 => "i64",
        }
    }
    pub fn width(self) -> usize {
        match self {
            CastTy::U8 | CastTy::I8 => 8,
            CastTy::U16 | CastTy::I16 => 16,
            CastTy::U32 | CastTy::I32 => 32,
            CastTy::U64 | CastTy::I64 => 64,
        }
    }
    pub fn signed(self) -> bool {
        matches!(self, CastTy::I8 | CastTy::I16 | CastTy::I32 | CastTy::I64)
    }
}

#[derive(Clone, Debug)]
pub struct VarDecl {
    pub name: String,
    pub width: usize,
    pub signed: bool,
}

#[derive(Clone, Debug)]
pub enum VE {
    /// a literal whose self-determined value is known
    Lit { text: String, val: Bv },
    /// `'0 '1 'x 'z`
    Fill(u8),
    Var(usize),
    /// `v[hi:lo]` (hi == lo renders `v[i]`)
    Sel(usize, usize, usize),
    Un(VUn, Box<VE>),
    Bin(VBin, Box<VE>, Box<VE>),
    Cond(Box<VE>, Box<VE>, Box<VE>),
    /// parts with a repeat count (1 = plain)
    Concat(Vec<(VE, usize)>),
    CastN(Box<VE>, usize),
    CastT(Box<VE>, CastTy),
    Signed(Box<VE>),
    Unsigned(Box<VE>),
}

/// Switches between readings the standard / the Veryl sources leave open.
#[derive(Clone, Copy, Debug, PartialEq, Eq, Default)]
pub struct Reading {
    pub eq_ambig: bool,
    pub cast_n_unsigned: bool,
    /// `'0 '1 'x 'z` do not make an expression unsigned (IEEE §5.7.1: they are unsigned)
    pub fill_neutral: bool,
}

pub fn readings() -> Vec<Reading> {
    let mut v = vec![];
    for fill_neutral in [false, true] {
        for cast_n_unsigned in [false, true] {
            for eq_ambig in [false, true] {
                v.push(Reading { eq_ambig, cast_n_unsigned, fill_neutral });
            }
        }
    }
    v
}

impl VE {
    pub fn render(&self, vars: &[VarDecl]) -> String {
        match self {
            VE::Lit { text, .. } => text.clone(),
            VE::Fill(d) => match *d {
                0 => "'0".into(),
                1 => "'1".into(),
                X => "'x".into(),
                _ => "'z".into(),
            },
            VE::Var(i) => vars[*i].name.clone(),
            VE::Sel(i, hi, lo) => {
                if hi == lo {
                    format!("{}[{}]", vars[*i].name, hi)
                } else {
                    format!("{}[{}:{}]", vars[*i].name, hi, lo)
                }
            }
            VE::Un(op, x) => format!("({} {})", op.text(), x.render(vars)),
            VE::Bin(op, x, y) => format!("({} {} {})", x.render(vars), op.text(), y.render(vars)),
            VE::Cond(c, a, b) => format!("(if {} ? {} : {})", c.render(vars), a.render(vars), b.render(vars)),
            VE::Concat(parts) => {
                let v: Vec<String> =
                    parts.iter().map(|(e, n)| if *n == 1 { e.render(vars) } else { format!("{} repeat {}", e.render(vars), n) }).collect();
                format!("{{{}}}", v.join(", "))
            }
            VE::CastN(x, n) => format!("({} as {})", x.render(vars), n),
            VE::CastT(x, t) => format!("({} as {})", x.render(vars), t.text()),
            VE::Signed(x) => format!("$signed({})", x.render(vars)),
            VE::Unsigned(x) => format!("$unsigned({})", x.render(vars)),
        }
    }

    /// The SystemVerilog expression the emitter produces, as a bv4 tree.
    pub fn to_bv4(&self, env: &[Bv], r: Reading) -> Expr {
        let bx = |e: &VE| Box::new(e.to_bv4(env, r));
        match self {
            VE::Lit { val, .. } => Expr::Lit(val.clone()),
            VE::Fill(d) => {
                if r.fill_neutral {
                    Expr::FillNeutral(*d)
                } else {
                    Expr::Fill(*d)
                }
            }
            VE::Var(i) => Expr::Lit(env[*i].clone()),
            VE::Sel(i, hi, lo) => Expr::Select(Box::new(Expr::Lit(env[*i].clone())), *hi, *lo),
            VE::Un(op, x) => Expr::Un(op.bv4(), bx(x)),
            VE::Bin(op, x, y) => Expr::Bin(op.bv4(r.eq_ambig), bx(x), bx(y)),
            VE::Cond(c, a, b) => Expr::Cond(bx(c), bx(a), bx(b)),
            VE::Concat(parts) => Expr::Concat(
                parts.iter().map(|(e, n)| if *n == 1 { e.to_bv4(env, r) } else { Expr::Repl(*n, Box::new(e.to_bv4(env, r))) }).collect(),
            ),
            VE::CastN(x, n) => {
                let c = Expr::Cast(*n, bx(x));
                if r.cast_n_unsigned { Expr::Unsigned(Box::new(c)) } else { c }
            }
            VE::CastT(x, t) => {
                let c = Box::new(Expr::Cast(t.width(), bx(x)));
                if t.signed() { Expr::Signed(c) } else { Expr::Unsigned(c) }
            }
            VE::Signed(x) => Expr::Signed(bx(x)),
            VE::Unsigned(x) => Expr::Unsigned(bx(x)),
        }
    }

    /// Value of `dst = self` for a `width`-bit destination: IEEE context
    /// `max(self-determined width, width)`, then truncated to the destination.
    pub fn expected(&self, env: &[Bv], width: usize, dst_signed: bool, r: Reading) -> Bv {
        let e = self.to_bv4(env, r);
        bv4::eval_expr(&e, Some(width)).resize(width).as_signed(dst_signed)
    }

    /// Distinct values over all readings (first = strict IEEE reading).
    pub fn expected_all(&self, env: &[Bv], width: usize, dst_signed: bool) -> Vec<Bv> {
        let mut out: Vec<Bv> = vec![];
        let eq = self.has(&|e| matches!(e, VE::Bin(op, _, _) if op.is_equality()));
        let cast = self.has(&|e| matches!(e, VE::CastN(..)));
        let fill = self.has(&|e| matches!(e, VE::Fill(_)));
        for r in readings() {
            if (r.eq_ambig && !eq) || (r.cast_n_unsigned && !cast) || (r.fill_neutral && !fill) {
                continue;
            }
            let v = self.expected(env, width, dst_signed, r);
            if !out.contains(&v) {
                out.push(v);
            }
        }
        out
    }

    pub fn has(&self, f: &dyn Fn(&VE) -> bool) -> bool {
        if f(self) {
            return true;
        }
        match self {
            VE::Lit { .. } | VE::Fill(_) | VE::Var(_) | VE::Sel(..) => false,
            VE::Un(_, x) | VE::CastN(x, _) | VE::CastT(x, _) | VE::Signed(x) | VE::Unsigned(x) => x.has(f),
            VE::Bin(_, x, y) => x.has(f) || y.has(f),
            VE::Cond(c, a, b) => c.has(f) || a.has(f) || b.has(f),
            VE::Concat(p) => p.iter().any(|(e, _)| e.has(f)),
        }
    }

    pub fn visit(&self, f: &mut dyn FnMut(&VE)) {
        f(self);
        match self {
            VE::Lit { .. } | VE::Fill(_) | VE::Var(_) | VE::Sel(..) => {}
            VE::Un(_, x) | VE::CastN(x, _) | VE::CastT(x, _) | VE::Signed(x) | VE::Unsigned(x) => x.visit(f),
            VE::Bin(_, x, y) => {
                x.visit(f);
                y.visit(f)
            }
            VE::Cond(c, a, b) => {
                c.visit(f);
                a.visit(f);
                b.visit(f)
            }
            VE::Concat(p) => p.iter().for_each(|(e, _)| e.visit(f)),
        }
    }

    /// Operator / construct tags used in this tree (for coverage histograms).
    pub fn tags(&self) -> Vec<String> {
        let mut t = vec![];
        self.visit(&mut |e| {
            t.push(match e {
                VE::Lit { .. } => "lit".to_string(),
                VE::Fill(_) => "fill".into(),
                VE::Var(_) => "var".into(),
                VE::Sel(..) => "select".into(),
                VE::Un(op, _) => format!("un{}", op.text()),
                VE::Bin(op, _, _) => format!("bin{}", op.text()),
                VE::Cond(..) => "cond".into(),
                VE::Concat(p) => {
                    if p.iter().any(|(_, n)| *n > 1) {
                        "repeat".into()
                    } else {
                        "concat".into()
                    }
                }
                VE::CastN(..) => "as_n".into(),
                VE::CastT(_, t) => format!("as_{}", t.text()),
                VE::Signed(_) => "$signed".into(),
                VE::Unsigned(_) => "$unsigned".into(),
            });
        });
        t.sort();
        t.dedup();
        t
    }

    pub fn depth(&self) -> usize {
        match self {
            VE::Lit { .. } | VE::Fill(_) | VE::Var(_) | VE::Sel(..) => 0,
            VE::Un(_, x) | VE::CastN(x, _) | VE::CastT(x, _) | VE::Signed(x) | VE::Unsigned(x) => 1 + x.depth(),
            VE::Bin(_, x, y) => 1 + x.depth().max(y.depth()),
            VE::Cond(c, a, b) => 1 + c.depth().max(a.depth()).max(b.depth()),
            VE::Concat(p) => 1 + p.iter().map(|(e, _)| e.depth()).max().unwrap_or(0),
        }
    }

    /// Self-determined (width, signed) in the strict reading.
    pub fn ty(&self, vars: &[VarDecl]) -> (usize, bool) {
        let env: Vec<Bv> = vars.iter().map(|v| Bv::zeros(v.width, v.signed)).collect();
        bv4::expr_type(&self.to_bv4(&env, Reading::default()))
    }
}

// ------------------------------------------------------------------------------------------------
// values and literals

pub const EDGE_WIDTHS: [usize; 14] = [1, 2, 8, 31, 32, 33, 63, 64, 65, 127, 128, 129, 255, 256];

/// A width with bias towards representation / word boundaries.
pub fn pick_width(rng: &mut Rng, max: usize) -> usize {
    let w = match rng.below(10) {
        0..=3 => *rng.pick(&EDGE_WIDTHS),
        4 => *rng.pick(&EDGE_WIDTHS) + rng.usize(3),
        5 | 6 => 1 + rng.usize(16),
        _ => 1 + rng.usize(max),
    };
    w.clamp(1, max)
}

/// Known (0/1) value with boundary bias: 0, all-ones, MSB only, 1, -2/max-1, alternating, random, sparse.
pub fn pick_known(rng: &mut Rng, width: usize, signed: bool) -> Bv {
    let mut v = match rng.below(12) {
        0 => Bv::zeros(width, signed),
        1 => Bv::ones(width, signed),
        2 => {
            let mut v = Bv::zeros(width, signed);
            v.bits[width - 1] = 1;
            v
        }
        3 => Bv::from_u64(1, width, signed),
        4 => {
            let mut v = Bv::ones(width, signed);
            v.bits[0] = 0;
            v
        }
        5 => {
            // max positive signed
            let mut v = Bv::ones(width, signed);
            v.bits[width - 1] = 0;
            v
        }
        6 => Bv { bits: (0..width).map(|i| (i & 1) as u8).collect(), signed },
        7 => Bv { bits: (0..width).map(|i| ((i + 1) & 1) as u8).collect(), signed },
        8 => {
            let mut v = Bv::zeros(width, signed);
            let n = 1 + rng.usize(3);
            for _ in 0..n {
                let i = rng.usize(width);
                v.bits[i] = 1;
            }
            v
        }
        9 => Bv::from_u64(rng.below(8), width, signed),
        _ => Bv { bits: (0..width).map(|_| rng.below(2) as u8).collect(), signed },
    };
    v.signed = signed;
    v
}

/// 4-state value: a known value with some digits replaced by X/Z.
pub fn pick_4state(rng: &mut Rng, width: usize, signed: bool) -> Bv {
    let mut v = pick_known(rng, width, signed);
    match rng.below(6) {
        0 => return Bv::xs(width, signed),
        1 => return Bv::zs(width, signed),
        2 => {
            v.bits[width - 1] = if rng.bool() { X } else { Z };
        }
        3 => {
            for b in v.bits.iter_mut() {
                if rng.chance(1, 3) {
                    *b = if rng.bool() { X } else { Z };
                }
            }
        }
        _ => {
            let i = rng.usize(width);
            v.bits[i] = if rng.bool() { X } else { Z };
        }
    }
    v
}

/// Render `val` as a sized Veryl literal `W'[s]<base><digits>` (binary or hex;
/// hex only when every 4-bit group is uniform in X/Z).  The text denotes `val`
/// exactly by IEEE §5.7.1 and by veryl's `parse_based`.
pub fn sized_literal(rng: &mut Rng, val: &Bv) -> String {
    let w = val.width();
    let s = if val.signed { "s" } else { "" };
    let mut groups = vec![];
    let mut hex_ok = true;
    for g in val.bits.chunks(4) {
        let all_x = g.iter().all(|d| *d == X);
        let all_z = g.iter().all(|d| *d == Z);
        let known = g.iter().all(|d| *d < 2);
        if known {
            let mut n = 0;
            for (i, d) in g.iter().enumerate() {
                n |= (*d as u32) << i;
            }
            groups.push(std::char::from_digit(n, 16).unwrap());
        } else if all_x && g.len() == 4 {
            groups.push('x');
        } else if all_z && g.len() == 4 {
            groups.push('z');
        } else {
            hex_ok = false;
        }
    }
    let use_hex = hex_ok && rng.chance(2, 3);
    let mut digits: String = if use_hex { groups.iter().rev().collect() } else { val.to_bitstr() };
    // sometimes drop leading zeros (the literal is zero-extended to W) …
    if rng.bool() {
        let t = digits.trim_start_matches('0');
        digits = if t.is_empty() { "0".into() } else { t.to_string() };
        // … but a leading x/z digit would then be extended with x/z: keep one 0 in front
        if digits.starts_with(['x', 'z']) && digits.len() * (if use_hex { 4 } else { 1 }) < w {
            digits.insert(0, '0');
        }
    }
    if rng.chance(1, 4) && digits.len() > 4 {
        let k = digits.len() / 2;
        digits.insert(k, '_');
    }
    // decimal for small known values now and then
    if !val.has_xz() && w <= 64 && rng.chance(1, 5) {
        return format!("{w}'{s}d{}", val.to_u64().unwrap());
    }
    format!("{w}'{s}{}{digits}", if use_hex { "h" } else { "b" })
}

/// A width-less based literal (`'h3f`, `'b101`, `'d10`): value with its minimal width
/// (leading 0 digit counted as 1), unsigned; known digits only.
pub fn unsized_based_literal(rng: &mut Rng) -> VE {
    let nd = 1 + rng.usize(5);
    match rng.below(3) {
        0 => {
            let mut d: Vec<u32> = (0..nd).map(|_| rng.below(16) as u32).collect();
            if d[0] == 0 && rng.bool() {
                d[0] = 1 + rng.below(15) as u32;
            }
            let text: String = d.iter().map(|x| std::char::from_digit(*x, 16).unwrap()).collect();
            let lead = if d[0] == 0 { 1 } else { d[0] };
            let width = (32 - lead.leading_zeros()) as usize + 4 * (nd - 1);
            let mut v: u64 = 0;
            for x in &d {
                v = (v << 4) | *x as u64;
            }
            VE::Lit { text: format!("'h{text}"), val: Bv::from_u64(v, width, false) }
        }
        1 => {
            let d: Vec<u64> = (0..nd + 2).map(|_| rng.below(2)).collect();
            let text: String = d.iter().map(|x| if *x == 1 { '1' } else { '0' }).collect();
            let mut v = 0u64;
            for x in &d {
                v = (v << 1) | x;
            }
            VE::Lit { text: format!("'b{text}"), val: Bv::from_u64(v, d.len(), false) }
        }
        _ => {
            let v = 1 + rng.below(100_000);
            let width = (64 - v.leading_zeros()) as usize;
            VE::Lit { text: format!("'d{v}"), val: Bv::from_u64(v, width, false) }
        }
    }
}

// ------------------------------------------------------------------------------------------------
// generator

#[derive(Clone, Debug)]
pub struct GenCfg {
    pub vars: Vec<VarDecl>,
    pub max_lit_width: usize,
    /// X/Z digits in literals and `'x`/`'z`
    pub xz: bool,
    pub fill: bool,
    pub pow: bool,
    pub divmod: bool,
    pub casts: bool,
    pub sign_funcs: bool,
    /// probability (percent) that a leaf is a variable when variables exist
    pub var_pct: u64,
    pub depth: usize,
}

pub struct Gen<'a> {
    pub rng: &'a mut Rng,
    pub c: GenCfg,
}

impl<'a> Gen<'a> {
    pub fn new(rng: &'a mut Rng, c: GenCfg) -> Self {
        Gen { rng, c }
    }

    fn lit(&mut self, width: usize, signed: bool) -> VE {
        let val = if self.c.xz && self.rng.chance(1, 4) { pick_4state(self.rng, width, signed) } else { pick_known(self.rng, width, signed) };
        VE::Lit { text: sized_literal(self.rng, &val), val }
    }

    pub fn leaf(&mut self, fill_ok: bool) -> VE {
        if !self.c.vars.is_empty() && self.rng.below(100) < self.c.var_pct {
            let i = self.rng.usize(self.c.vars.len());
            let w = self.c.vars[i].width;
            return match self.rng.below(6) {
                0 if w > 1 => {
                    let lo = self.rng.usize(w);
                    let hi = lo + self.rng.usize(w - lo);
                    VE::Sel(i, hi, lo)
                }
                1 => {
                    let b = match self.rng.below(3) {
                        0 => w - 1,
                        1 => 0,
                        _ => self.rng.usize(w),
                    };
                    VE::Sel(i, b, b)
                }
                _ => VE::Var(i),
            };
        }
        match self.rng.below(20) {
            0 if fill_ok && self.c.fill => {
                let d = if self.c.xz { self.rng.below(4) as u8 } else { self.rng.below(2) as u8 };
                VE::Fill(d)
            }
            1 | 2 => unsized_based_literal(self.rng),
            3 | 4 => {
                let v = match self.rng.below(4) {
                    0 => self.rng.below(4),
                    1 => self.rng.below(300),
                    2 => 0x7fff_fffe + self.rng.below(3),
                    _ => self.rng.below(1 << 32),
                };
                VE::Lit { text: format!("{v}"), val: Bv::from_u64(v, 32, true) }
            }
            _ => {
                let w = pick_width(self.rng, self.c.max_lit_width);
                let s = self.rng.chance(2, 5);
                self.lit(w, s)
            }
        }
    }

    /// A 1-bit expression (what Veryl accepts as a logical operand / condition).
    pub fn gen1(&mut self, depth: usize) -> VE {
        if depth == 0 {
            if !self.c.vars.is_empty() && self.rng.below(100) < self.c.var_pct {
                let i = self.rng.usize(self.c.vars.len());
                let b = self.rng.usize(self.c.vars[i].width);
                return VE::Sel(i, b, b);
            }
            return self.lit(1, false);
        }
        match self.rng.below(10) {
            0..=3 => {
                let op = *self.rng.pick(&[VBin::Le, VBin::Ge, VBin::Lt, VBin::Gt, VBin::Eq, VBin::Ne, VBin::WildEq, VBin::WildNe]);
                let x = self.gen_expr(depth - 1, false);
                let y = self.gen_expr(depth - 1, true);
                VE::Bin(op, Box::new(x), Box::new(y))
            }
            4 | 5 => {
                let op = *self.rng.pick(&[VUn::RedAnd, VUn::RedNand, VUn::RedOr, VUn::RedNor, VUn::RedXor, VUn::RedXnor]);
                VE::Un(op, Box::new(self.gen_expr(depth - 1, false)))
            }
            6 => VE::Un(VUn::LogicNot, Box::new(self.gen1(depth - 1))),
            7 | 8 => {
                let op = if self.rng.bool() { VBin::LogicAnd } else { VBin::LogicOr };
                let x = self.gen1(depth - 1);
                let y = self.gen1(depth - 1);
                VE::Bin(op, Box::new(x), Box::new(y))
            }
            _ => self.gen1(0),
        }
    }

    /// `fill_ok`: the position is context-determined, so `'0/'1/'x/'z` may appear.
    pub fn gen_expr(&mut self, depth: usize, fill_ok: bool) -> VE {
        if depth == 0 || self.rng.chance(1, 8) {
            return self.leaf(fill_ok);
        }
        let d = depth - 1;
        match self.rng.below(100) {
            0..=39 => {
                // context-determined binary
                let mut ops = vec![VBin::Add, VBin::Sub, VBin::Mul, VBin::And, VBin::Or, VBin::Xor, VBin::Xnor, VBin::Add, VBin::Sub];
                if self.c.divmod {
                    ops.push(VBin::Div);
                    ops.push(VBin::Rem);
                }
                let op = *self.rng.pick(&ops);
                let x = self.gen_expr(d, false);
                let y = self.gen_expr(d, true);
                VE::Bin(op, Box::new(x), Box::new(y))
            }
            40..=51 => {
                let op = *self.rng.pick(&[VBin::Shl, VBin::Shr, VBin::Ashl, VBin::Ashr]);
                let x = self.gen_expr(d, false);
                let y = if self.rng.chance(2, 3) {
                    let w = 1 + self.rng.usize(9);
                    self.lit(w, false)
                } else {
                    self.gen_expr(d, false)
                };
                VE::Bin(op, Box::new(x), Box::new(y))
            }
            52..=54 if self.c.pow => {
                let x = self.gen_expr(d, false);
                // bounded exponent: a small literal (now and then signed/negative) or a few bits of a variable
                let y = if !self.c.vars.is_empty() && self.rng.bool() {
                    let i = self.rng.usize(self.c.vars.len());
                    let w = self.c.vars[i].width;
                    let hi = self.rng.usize(w.min(4));
                    VE::Sel(i, hi, 0)
                } else {
                    let w = 1 + self.rng.usize(5);
                    let s = self.rng.chance(1, 3);
                    self.lit(w, s)
                };
                VE::Bin(VBin::Pow, Box::new(x), Box::new(y))
            }
            52..=63 => {
                let op = *self.rng.pick(&[VUn::Plus, VUn::Neg, VUn::Not, VUn::Neg, VUn::Not]);
                VE::Un(op, Box::new(self.gen_expr(d, false)))
            }
            64..=73 => self.gen1(depth),
            74..=81 => {
                let c = self.gen1(d.min(2));
                let a = self.gen_expr(d, false);
                let b = self.gen_expr(d, fill_ok);
                VE::Cond(Box::new(c), Box::new(a), Box::new(b))
            }
            82..=89 => {
                let n = 1 + self.rng.usize(3);
                let mut parts = vec![];
                for _ in 0..n {
                    let mut e = self.gen_expr(d, false);
                    // a base-less literal is not allowed inside a concatenation
                    if matches!(&e, VE::Lit { text, .. } if !text.contains('\'')) {
                        let lw = 1 + self.rng.usize(8);
                        e = self.lit(lw, false);
                    }
                    let rep = if self.rng.chance(1, 4) { 1 + self.rng.usize(3) } else { 1 };
                    parts.push((e, rep));
                }
                VE::Concat(parts)
            }
            90..=95 if self.c.casts => {
                let x = self.gen_expr(d, false);
                if self.rng.chance(2, 3) {
                    let n = pick_width(self.rng, self.c.max_lit_width.max(8));
                    VE::CastN(Box::new(x), n)
                } else {
                    let t = *self.rng.pick(&[CastTy::U8, CastTy::U16, CastTy::U32, CastTy::U64, CastTy::I8, CastTy::I16, CastTy::I32, CastTy::I64]);
                    VE::CastT(Box::new(x), t)
                }
            }
            96..=99 if self.c.sign_funcs => {
                let x = self.gen_expr(d, false);
                if self.rng.bool() { VE::Signed(Box::new(x)) } else { VE::Unsigned(Box::new(x)) }
            }
            _ => self.leaf(fill_ok),
        }
    }
}

// ------------------------------------------------------------------------------------------------
// reduction of failing expressions (stable signatures, minimal reproductions)

/// `W'[s]b…` / `W'[s]h…` literal denoting exactly `val`, no randomness.
pub fn plain_literal(val: &Bv) -> VE {
    let w = val.width();
    let s = if val.signed { "s" } else { "" };
    let hex_ok = w > 16 && val.bits.chunks(4).all(|g| g.iter().all(|d| *d < 2) || (g.len() == 4 && (g.iter().all(|d| *d == X) || g.iter().all(|d| *d == Z))));
    let text = if hex_ok {
        let digits: String = val
            .bits
            .chunks(4)
            .rev()
            .map(|g| {
                if g[0] == X {
                    'x'
                } else if g[0] == Z {
                    'z'
                } else {
                    std::char::from_digit(g.iter().enumerate().map(|(i, d)| (*d as u32) << i).sum(), 16).unwrap()
                }
            })
            .collect();
        format!("{w}'{s}h{digits}")
    } else {
        format!("{w}'{s}b{}", val.to_bitstr())
    };
    VE::Lit { text, val: val.clone() }
}

impl VE {
    pub fn children(&self) -> Vec<&VE> {
        match self {
            VE::Lit { .. } | VE::Fill(_) | VE::Var(_) | VE::Sel(..) => vec![],
            VE::Un(_, x) | VE::CastN(x, _) | VE::CastT(x, _) | VE::Signed(x) | VE::Unsigned(x) => vec![x],
            VE::Bin(_, x, y) => vec![x, y],
            VE::Cond(c, a, b) => vec![c, a, b],
            VE::Concat(p) => p.iter().map(|(e, _)| e).collect(),
        }
    }
    fn children_mut(&mut self) -> Vec<&mut VE> {
        match self {
            VE::Lit { .. } | VE::Fill(_) | VE::Var(_) | VE::Sel(..) => vec![],
            VE::Un(_, x) | VE::CastN(x, _) | VE::CastT(x, _) | VE::Signed(x) | VE::Unsigned(x) => vec![x],
            VE::Bin(_, x, y) => vec![x, y],
            VE::Cond(c, a, b) => vec![c, a, b],
            VE::Concat(p) => p.iter_mut().map(|(e, _)| e).collect(),
        }
    }
    /// (width, signed) every child is evaluated with when `self` is evaluated with
    /// (w, s) — the propagation rules of `bv4::eval_in`, strict reading.
    pub fn child_ctx(&self, vars: &[VarDecl], w: usize, s: bool) -> Vec<(usize, bool)> {
        let ty = |e: &VE| e.ty(vars);
        match self {
            VE::Lit { .. } | VE::Fill(_) | VE::Var(_) | VE::Sel(..) => vec![],
            VE::Un(op, x) => vec![if op.one_bit() { ty(x) } else { (w, s) }],
            VE::Bin(op, x, y) => match op.bv4(false).class() {
                bv4::OpClass::Context => vec![(w, s), (w, s)],
                bv4::OpClass::LeftContext => vec![(w, s), ty(y)],
                bv4::OpClass::Compare => {
                    let (a, b) = (ty(x), ty(y));
                    let c = (a.0.max(b.0), a.1 && b.1);
                    vec![c, c]
                }
                bv4::OpClass::Logical => vec![ty(x), ty(y)],
            },
            VE::Cond(c, _, _) => vec![ty(c), (w, s), (w, s)],
            VE::Concat(p) => p.iter().map(|(e, _)| ty(e)).collect(),
            VE::CastN(x, n) => {
                let t = ty(x);
                vec![(t.0.max(*n), t.1)]
            }
            VE::CastT(x, t) => {
                let tx = ty(x);
                vec![(tx.0.max(t.width()), tx.1)]
            }
            VE::Signed(x) | VE::Unsigned(x) => vec![ty(x)],
        }
    }
    fn at(&self, path: &[usize]) -> &VE {
        match path.split_first() {
            None => self,
            Some((i, rest)) => self.children()[*i].at(rest),
        }
    }
    fn replaced(&self, path: &[usize], new: VE) -> VE {
        let mut out = self.clone();
        {
            let mut cur = &mut out;
            for i in path {
                cur = cur.children_mut().into_iter().nth(*i).unwrap();
            }
            *cur = new;
        }
        out
    }
    /// Pre-order list of (path, context) of all proper sub-expressions.
    fn sub_paths(&self, vars: &[VarDecl], w: usize, s: bool) -> Vec<(Vec<usize>, (usize, bool))> {
        let mut out = vec![];
        fn rec(e: &VE, vars: &[VarDecl], w: usize, s: bool, path: &mut Vec<usize>, out: &mut Vec<(Vec<usize>, (usize, bool))>) {
            let ctxs = e.child_ctx(vars, w, s);
            for (i, (ch, c)) in e.children().into_iter().zip(ctxs).enumerate() {
                path.push(i);
                out.push((path.clone(), c));
                rec(ch, vars, c.0, c.1, path, out);
                path.pop();
            }
        }
        rec(self, vars, w, s, &mut vec![], &mut out);
        out
    }
    pub fn uses_var(&self, i: usize) -> bool {
        self.has(&|e| matches!(e, VE::Var(k) | VE::Sel(k, _, _) if *k == i))
    }
}

/// Shrink a failing expression: hoist failing children, replace sub-expressions by the
/// literal of their IEEE value in their context.  `fails(candidate)` must re-judge the
/// candidate from scratch (assigned to a `dst_width`-bit destination).  At most `budget` calls.
pub fn reduce(root: &VE, vars: &[VarDecl], env: &[Bv], dst_width: usize, budget: usize, fails: &mut dyn FnMut(&VE) -> bool) -> VE {
    let mut cur = root.clone();
    let mut calls = 0;
    'outer: loop {
        if calls >= budget {
            break;
        }
        // hoist a child that fails on its own
        let kids: Vec<VE> = cur.children().into_iter().cloned().collect();
        for ch in kids {
            if matches!(ch, VE::Lit { .. } | VE::Fill(_)) {
                continue;
            }
            calls += 1;
            if fails(&ch) {
                cur = ch;
                continue 'outer;
            }
            if calls >= budget {
                break 'outer;
            }
        }
        // replace sub-expressions (largest first) by literals
        let (tw, ts) = cur.ty(vars);
        let subs = cur.sub_paths(vars, tw.max(dst_width), ts);
        for (path, (cw, cs)) in subs {
            let node = cur.at(&path);
            if matches!(node, VE::Lit { .. } | VE::Fill(_)) {
                continue;
            }
            let val = bv4::eval_in(&node.to_bv4(env, Reading::default()), cw, cs);
            let cand = cur.replaced(&path, plain_literal(&val));
            calls += 1;
            if fails(&cand) {
                cur = cand;
                continue 'outer;
            }
            if calls >= budget {
                break 'outer;
            }
        }
        break;
    }
    cur
}

/// Class of a 4-state value for signatures.
pub fn value_kind(v: &Bv) -> &'static str {
    if v.has_xz() { "xz" } else { "known" }
}
