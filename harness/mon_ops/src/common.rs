//! Shared by the operator monitors.

use refmodel::bv4::Bv;
use std::collections::BTreeMap;
use vcommon::Args;
use vcommon::pipeline::{Analyzed, analyze_one, default_metadata};
use veryl_analyzer::ir as air;
use veryl_analyzer::value::Value;

/// veryl `Value` → bv4 digits (width 0 sentinel values are returned as `None`).
pub fn value_to_bv(v: &Value) -> Option<Bv> {
    let w = v.width();
    if w == 0 {
        return None;
    }
    let p = v.payload().to_u64_digits();
    let m = v.mask_xz().to_u64_digits();
    Some(Bv::from_words(&p, &m, w, v.signed()))
}

/// bv4 digits → veryl `Value` (U64 when width <= 64, else BigUint — the canonical form).
pub fn bv_to_value(b: &Bv) -> Value {
    let (p, m) = b.to_words();
    let w = b.width();
    if w <= 64 {
        Value::U64(veryl_analyzer::value::ValueU64 { payload: p[0], mask_xz: m[0], width: w as u32, signed: b.signed })
    } else {
        let big = |x: &[u64]| {
            let mut bytes = vec![];
            for d in x {
                bytes.extend_from_slice(&d.to_le_bytes());
            }
            Box::new(num_bigint::BigUint::from_bytes_le(&bytes))
        };
        Value::BigUint(veryl_analyzer::value::ValueBigUint { payload: big(&p), mask_xz: big(&m), width: w as u32, signed: b.signed })
    }
}

/// All `const`/`param`/… variables of module `top` by path text → (kind, values).
pub fn module_vars(a: &Analyzed, top: &str) -> BTreeMap<String, (String, Vec<Value>)> {
    let mut out = BTreeMap::new();
    for c in &a.ir.components {
        if let air::Component::Module(m) = c {
            if m.name.to_string() != top {
                continue;
            }
            for v in m.variables.values() {
                out.insert(v.path.to_string(), (v.kind.description(), v.value.clone()));
            }
        }
    }
    out
}

pub fn probe(args: Args) {
    let text = std::fs::read_to_string(&args.rest[0]).expect("file");
    let r = vcommon::pool::fresh_thread(vcommon::pool::STACK_64M, move || {
        let md = default_metadata();
        match analyze_one(&text, &md) {
            Err(e) => println!("parse error {e:?}"),
            Ok(a) => {
                for d in a.diag_recs() {
                    println!("diag error={} {} {}", d.error, d.code, d.message);
                }
                for (k, (kind, vals)) in module_vars(&a, "Top") {
                    for v in vals {
                        println!("{k} [{kind}] = {v:x}  width={} signed={} bv={:?}", v.width(), v.signed(), value_to_bv(&v).map(|b| b.to_bitstr()));
                    }
                }
            }
        }
    });
    if let Err(p) = r {
        println!("panic {} at {}", p.message, p.location);
    }
}
