//! C17 — compile-time evaluation follows IEEE 1800 operator semantics.
//!
//! Two entry points into the real analyzer:
//!  (a) `Op::eval_value_unary/eval_value_binary` and `Value::expand/trunc/select/concat`
//!      called directly with (x, y, context width, context signedness) exactly the way
//!      `ir::Expression::eval_value` calls them; exhaustive over all 4-state operands of
//!      width <= 3 (quick) / <= 4 (thorough) and randomised with boundary bias up to 256
//!      bits; every case that fits 64 bits is also evaluated "lifted" by 64 bits so the
//!      U64 and BigUint code paths must agree;
//!  (b) end to end: generated `const` declarations → parser → analyzer passes → the value the
//!      analyzer stored for the constant (`ir::Module::variables[..].value`).
//! Oracle: refmodel::bv4 (bit-serial IEEE §11 algebra with §11.6/§11.8 sizing).

use crate::common::{bv_to_value, module_vars, value_to_bv};
use crate::vexpr::{ALL_VBIN, ALL_VUN, Gen, GenCfg, VBin, VE, VUn, VarDecl, pick_4state, pick_known, pick_width, sized_literal};
use refmodel::bv4::{self, Bv, Expr, OpClass, X, Z};
use std::sync::Arc;
use vcommon::pipeline::{analyze_one, default_metadata};
use vcommon::pool::{STACK_64M, fresh_thread, par_cases};
use vcommon::rng::hash_str;
use vcommon::{Args, Json, Rng, Run, json};
use veryl_analyzer::ir::Op;
use veryl_analyzer::value::{MaskCache, Value};

// ------------------------------------------------------------------------------------------------
// (a) direct API

#[derive(Clone, Debug)]
pub enum ApiOp {
    Un(VUn),
    Bin(VBin),
}

#[derive(Clone, Debug)]
pub struct ApiCase {
    pub op: ApiOp,
    pub x: Bv,
    pub y: Option<Bv>,
    /// context width passed to the API
    pub width: usize,
    /// context signedness passed to the API
    pub signed: bool,
}

fn un_op(op: VUn) -> Op {
    match op {
        VUn::Plus => Op::Add,
        VUn::Neg => Op::Sub,
        VUn::Not => Op::BitNot,
        VUn::LogicNot => Op::LogicNot,
        VUn::RedAnd => Op::BitAnd,
        VUn::RedNand => Op::BitNand,
        VUn::RedOr => Op::BitOr,
        VUn::RedNor => Op::BitNor,
        VUn::RedXor => Op::BitXor,
        VUn::RedXnor => Op::BitXnor,
    }
}

fn bin_op(op: VBin) -> Op {
    match op {
        VBin::Pow => Op::Pow,
        VBin::Div => Op::Div,
        VBin::Rem => Op::Rem,
        VBin::Mul => Op::Mul,
        VBin::Add => Op::Add,
        VBin::Sub => Op::Sub,
        VBin::Ashl => Op::ArithShiftL,
        VBin::Ashr => Op::ArithShiftR,
        VBin::Shl => Op::LogicShiftL,
        VBin::Shr => Op::LogicShiftR,
        VBin::Le => Op::LessEq,
        VBin::Ge => Op::GreaterEq,
        VBin::Lt => Op::Less,
        VBin::Gt => Op::Greater,
        VBin::Eq => Op::Eq,
        VBin::WildEq => Op::EqWildcard,
        VBin::Ne => Op::Ne,
        VBin::WildNe => Op::NeWildcard,
        VBin::LogicAnd => Op::LogicAnd,
        VBin::LogicOr => Op::LogicOr,
        VBin::And => Op::BitAnd,
        VBin::Or => Op::BitOr,
        VBin::Xor => Op::BitXor,
        VBin::Xnor => Op::BitXnor,
    }
}

impl ApiCase {
    pub fn op_text(&self) -> String {
        match &self.op {
            ApiOp::Un(o) => format!("unary{}", o.text()),
            ApiOp::Bin(o) => format!("binary{}", o.text()),
        }
    }
    fn class(&self) -> OpClass {
        match &self.op {
            ApiOp::Un(o) => {
                if o.one_bit() {
                    OpClass::Logical
                } else {
                    OpClass::Context
                }
            }
            ApiOp::Bin(o) => o.bv4(false).class(),
        }
    }
    /// IEEE results (strict reading first; the "ambiguous" equality reading second when it differs).
    pub fn expected(&self) -> Vec<Bv> {
        let lit = |b: &Bv| Box::new(Expr::Lit(b.clone()));
        let mut out = vec![];
        for ambig in [false, true] {
            let e = match &self.op {
                ApiOp::Un(o) => Expr::Un(o.bv4(), lit(&self.x)),
                ApiOp::Bin(o) => {
                    if ambig && !o.is_equality() {
                        continue;
                    }
                    Expr::Bin(o.bv4(ambig), lit(&self.x), lit(self.y.as_ref().unwrap()))
                }
            };
            if ambig && matches!(self.op, ApiOp::Un(_)) {
                continue;
            }
            let v = bv4::eval_in(&e, self.width, self.signed);
            if !out.contains(&v) {
                out.push(v);
            }
        }
        out
    }
    /// Call the real API.  Err = panic message.
    pub fn run(&self, mc: &mut MaskCache) -> Result<Value, String> {
        let x = bv_to_value(&self.x);
        let y = self.y.as_ref().map(bv_to_value);
        let r = std::panic::catch_unwind(std::panic::AssertUnwindSafe(|| match &self.op {
            ApiOp::Un(o) => un_op(*o).eval_value_unary(&x, self.width, self.signed, mc),
            ApiOp::Bin(o) => bin_op(*o).eval_value_binary(&x, y.as_ref().unwrap(), self.width, self.signed, mc),
        }));
        r.map_err(|p| {
            if let Some(s) = p.downcast_ref::<&str>() {
                s.to_string()
            } else if let Some(s) = p.downcast_ref::<String>() {
                s.clone()
            } else {
                "<panic>".into()
            }
        })
    }
    /// The same mathematical operation with every operand that takes part in sizing
    /// extended by 64 bits (by the signedness the operation reads it with): crosses the
    /// U64 → BigUint representation switch.  None when not applicable.
    pub fn lifted(&self) -> Option<ApiCase> {
        let k = 64;
        let maxw = self.x.width().max(self.y.as_ref().map(|y| y.width()).unwrap_or(0)).max(self.width);
        if maxw > 64 {
            return None;
        }
        let ext = |b: &Bv, eff_signed: bool| b.as_signed(b.signed && eff_signed).resize(b.width() + k).as_signed(b.signed);
        match (&self.op, self.class()) {
            (ApiOp::Un(_), OpClass::Context) => {
                Some(ApiCase { op: self.op.clone(), x: ext(&self.x, self.signed), y: None, width: self.width + k, signed: self.signed })
            }
            (ApiOp::Un(_), _) => None,
            (ApiOp::Bin(_), OpClass::Context) => Some(ApiCase {
                op: self.op.clone(),
                x: ext(&self.x, self.signed),
                y: Some(ext(self.y.as_ref().unwrap(), self.signed)),
                width: self.width + k,
                signed: self.signed,
            }),
            (ApiOp::Bin(o), OpClass::LeftContext) => {
                let y = self.y.as_ref().unwrap();
                // shift amounts are unsigned numbers; a `**` exponent keeps its own sign
                let y2 = if *o == VBin::Pow { ext(y, true) } else { ext(y, false) };
                Some(ApiCase { op: self.op.clone(), x: ext(&self.x, self.signed), y: Some(y2), width: self.width + k, signed: self.signed })
            }
            (ApiOp::Bin(_), OpClass::Compare) => {
                let y = self.y.as_ref().unwrap();
                let s = self.x.signed && y.signed;
                let cw = self.x.width().max(y.width());
                // size both to the comparison width first, then lift
                let x2 = self.x.as_signed(s).resize(cw).as_signed(self.x.signed);
                let y2 = y.as_signed(s).resize(cw).as_signed(y.signed);
                Some(ApiCase { op: self.op.clone(), x: ext(&x2, s), y: Some(ext(&y2, s)), width: self.width + k, signed: self.signed })
            }
            (ApiOp::Bin(_), OpClass::Logical) => None,
        }
    }
    pub fn to_json(&self) -> Json {
        json!({
            "op": self.op_text(),
            "x": self.x.to_bitstr(), "x_signed": self.x.signed,
            "y": self.y.as_ref().map(|y| y.to_bitstr()), "y_signed": self.y.as_ref().map(|y| y.signed),
            "width": self.width, "signed": self.signed,
        })
    }
    pub fn from_json(v: &Json) -> Option<ApiCase> {
        let t = v["op"].as_str()?;
        let op = if let Some(s) = t.strip_prefix("unary") {
            ApiOp::Un(*ALL_VUN.iter().find(|o| o.text() == s)?)
        } else {
            ApiOp::Bin(*ALL_VBIN.iter().find(|o| o.text() == t.strip_prefix("binary").unwrap_or(""))?)
        };
        let x = Bv::from_bitstr(v["x"].as_str()?).as_signed(v["x_signed"].as_bool()?);
        let y = v["y"].as_str().map(|s| Bv::from_bitstr(s).as_signed(v["y_signed"].as_bool().unwrap_or(false)));
        Some(ApiCase { op, x, y, width: v["width"].as_u64()? as usize, signed: v["signed"].as_bool()? })
    }
}

#[derive(Default)]
pub struct ApiStats {
    pub evals: u64,
    pub lifted: u64,
    pub xz_results: u64,
    pub flag_differs: u64,
    pub noncanonical: u64,
    pub accepted_ambig_only: u64,
    pub bad: Vec<(String, String, Json)>,
    pub samples: Vec<Json>,
}

fn value_dirty(v: &Value) -> bool {
    let w = v.width() as u64;
    v.payload().bits() > w || v.mask_xz().bits() > w
}

/// Judge one API case (and its lifted twin).  Pushes (signature, what, replay) on failure.
pub fn judge(case: &ApiCase, mc: &mut MaskCache, st: &mut ApiStats, want_sample: bool) {
    let mut narrow: Option<Bv> = None;
    for (arm, c) in [("", Some(case.clone())), ("lift64:", case.lifted())] {
        let Some(c) = c else { continue };
        st.evals += 1;
        if !arm.is_empty() {
            st.lifted += 1;
        }
        let exp = c.expected();
        let repr = if c.x.width().max(c.width) > 64 { "BigUint" } else { "U64" };
        let sig0 = format!("api:{}:{repr}", c.op_text());
        match c.run(mc) {
            Err(msg) => {
                st.bad.push((format!("{sig0}:panic"), format!("{} panicked: {}", c.op_text(), msg.chars().take(120).collect::<String>()), c.to_json()));
            }
            Ok(v) => {
                let dirty = value_dirty(&v);
                let got = value_to_bv(&v);
                if matches!(v, Value::U64(_)) != (v.width() <= 64) {
                    st.noncanonical += 1;
                }
                let pos = got.as_ref().and_then(|g| exp.iter().position(|e| e.bits == g.bits));
                if pos.unwrap_or(0) > 0 {
                    st.accepted_ambig_only += 1;
                }
                let ok = pos.is_some();
                if let Some(g) = &got {
                    if g.has_xz() {
                        st.xz_results += 1;
                    }
                    if ok && g.signed != exp[0].signed {
                        st.flag_differs += 1;
                    }
                }
                if !ok || dirty {
                    let g = got.as_ref().map(|g| g.to_bitstr()).unwrap_or_else(|| format!("<width {}>", v.width()));
                    let what = format!(
                        "{} x={}{} y={} ctx=({}, {}) → veryl {}{} ; IEEE {}",
                        c.op_text(),
                        c.x.width(),
                        lit(&c.x),
                        c.y.as_ref().map(|y| format!("{}{}", y.width(), lit(y))).unwrap_or("-".into()),
                        c.width,
                        if c.signed { "signed" } else { "unsigned" },
                        g,
                        if dirty { " (payload/mask bits above the width)" } else { "" },
                        exp.iter().map(|e| e.to_bitstr()).collect::<Vec<_>>().join(" or "),
                    );
                    let mut j = c.to_json();
                    j["veryl"] = json!(g);
                    j["ieee"] = json!(exp.iter().map(|e| e.to_bitstr()).collect::<Vec<_>>());
                    let sig = if dirty && ok {
                        format!("{sig0}:dirty-high-bits")
                    } else {
                        format!("{sig0}:got-{}:want-{}", got.as_ref().map(crate::vexpr::value_kind).unwrap_or("nothing"), crate::vexpr::value_kind(&exp[0]))
                    };
                    st.bad.push((sig, what, j));
                } else if want_sample && arm.is_empty() {
                    st.samples.push(json!({"api_case": c.to_json(), "veryl": got.as_ref().unwrap().to_bitstr(), "ieee": exp[0].to_bitstr()}));
                }
                // direct U64-vs-BigUint agreement where lifting is transparent
                if arm.is_empty() {
                    narrow = got;
                } else if let (Some(n), Some(g)) = (&narrow, &got) {
                    let transparent = match (&case.op, case.class()) {
                        (_, OpClass::Compare) => Some(g.bits[0] == n.bits[0]),
                        (ApiOp::Bin(VBin::Add | VBin::Sub | VBin::Mul | VBin::And | VBin::Or | VBin::Xor | VBin::Xnor | VBin::Shl | VBin::Ashl), _)
                        | (ApiOp::Un(VUn::Plus | VUn::Neg | VUn::Not), _) => Some(g.bits[..n.width()] == n.bits[..]),
                        _ => None,
                    };
                    if transparent == Some(false) {
                        st.bad.push((
                            format!("api:repr-disagree:{}", case.op_text()),
                            format!("{}: U64 path gives {} but the same values held at +64 bits give {}", case.op_text(), n.to_bitstr(), g.to_bitstr()),
                            case.to_json(),
                        ));
                    }
                }
            }
        }
    }
}

fn lit(b: &Bv) -> String {
    format!("'{}b{}", if b.signed { "s" } else { "" }, b.to_bitstr())
}

fn all_values(w: usize) -> Vec<Vec<u8>> {
    let n = 1usize << (2 * w);
    (0..n).map(|k| (0..w).map(|i| ((k >> (2 * i)) & 3) as u8).collect()).collect()
}

/// Exhaustive task: one operator at operand widths (wx, wy): all 4-state values, all
/// flag combinations, all admissible (context width <= 8, context signedness).
fn exhaustive_task(op: &ApiOp, wx: usize, wy: usize, st: &mut ApiStats) {
    let mut mc = MaskCache::default();
    let xs = all_values(wx);
    let ys = if matches!(op, ApiOp::Un(_)) { vec![vec![0u8]] } else { all_values(wy) };
    let proto = ApiCase { op: op.clone(), x: Bv::zeros(1, false), y: None, width: 1, signed: false };
    let class = proto.class();
    let mut first = true;
    for xb in &xs {
        for yb in &ys {
            for flags in 0..4u8 {
                let (xs_, ys_) = (flags & 1 == 1, flags & 2 == 2);
                if matches!(op, ApiOp::Un(_)) && ys_ {
                    continue;
                }
                let x = Bv::new(xb.clone(), xs_);
                let y = if matches!(op, ApiOp::Un(_)) { None } else { Some(Bv::new(yb.clone(), ys_)) };
                // (context widths, context signedness values) the evaluator can pass
                let (wmin, signs): (usize, Vec<bool>) = match (op, class) {
                    (ApiOp::Un(_), OpClass::Context) => (wx, if xs_ { vec![false, true] } else { vec![false] }),
                    (ApiOp::Un(_), _) => (1, vec![false]),
                    (_, OpClass::Context) => (wx.max(wy), if xs_ && ys_ { vec![false, true] } else { vec![false] }),
                    (_, OpClass::LeftContext) => (wx, if xs_ { vec![false, true] } else { vec![false] }),
                    (_, OpClass::Compare) => (1, vec![xs_ && ys_]),
                    (_, OpClass::Logical) => (1, vec![false]),
                };
                let widths: Vec<usize> =
                    if matches!(class, OpClass::Compare | OpClass::Logical) { vec![1, 2, 8] } else { (wmin..=8).collect() };
                for &width in &widths {
                    for &signed in &signs {
                        let c = ApiCase { op: op.clone(), x: x.clone(), y: y.clone(), width, signed };
                        judge(&c, &mut mc, st, first);
                        first = false;
                    }
                }
            }
        }
    }
}

fn random_api_case(rng: &mut Rng) -> ApiCase {
    let un = rng.chance(1, 5);
    let op = if un { ApiOp::Un(*rng.pick(&ALL_VUN)) } else { ApiOp::Bin(*rng.pick(&ALL_VBIN)) };
    let proto = ApiCase { op: op.clone(), x: Bv::zeros(1, false), y: None, width: 1, signed: false };
    let class = proto.class();
    let wx = pick_width(rng, 256);
    let wy = if rng.chance(1, 3) { wx } else { pick_width(rng, 256) };
    let (xs_, ys_) = (rng.bool(), rng.bool());
    let val = |rng: &mut Rng, w: usize, s: bool| if rng.chance(1, 3) { pick_4state(rng, w, s) } else { pick_known(rng, w, s) };
    let x = val(rng, wx, xs_);
    let mut y = if un { None } else { Some(val(rng, wy, ys_)) };
    if let (ApiOp::Bin(o), Some(yv)) = (&op, &mut y) {
        match o {
            VBin::Shl | VBin::Shr | VBin::Ashl | VBin::Ashr if rng.chance(3, 4) && !yv.has_xz() => {
                // mostly in-range amounts, incl. 0, width-1, width, width+1, 63/64/65
                let a = match rng.below(8) {
                    0 => 0,
                    1 => wx as u64 - 1,
                    2 => wx as u64,
                    3 => wx as u64 + 1,
                    4 => 63 + rng.below(3),
                    _ => rng.below(wx as u64 + 2),
                };
                let w = yv.width().max(10);
                *yv = Bv::from_u64(a, w, ys_);
            }
            VBin::Pow => {
                // bounded exponent (a few bits); now and then negative when signed
                let w = 1 + rng.usize(6);
                *yv = if rng.chance(1, 6) { pick_4state(rng, w, ys_) } else { pick_known(rng, w, ys_) };
            }
            VBin::Div | VBin::Rem if rng.chance(1, 2) && !yv.has_xz() => {
                // small divisors make interesting quotients
                *yv = Bv::from_u64(1 + rng.below(9), wy, ys_);
                if ys_ && rng.bool() {
                    *yv = yv.neg();
                }
            }
            _ => {}
        }
    }
    let wy = y.as_ref().map(|y| y.width()).unwrap_or(0);
    let grow = |rng: &mut Rng, w: usize| -> usize {
        match rng.below(6) {
            0 | 1 => w,
            2 => w + 1,
            3 => w + 1 + rng.usize(70),
            4 => {
                let e = *rng.pick(&[32usize, 33, 64, 65, 128, 129, 256]);
                e.max(w)
            }
            _ => w + rng.usize(4),
        }
    };
    let (width, signed) = match (&op, class) {
        (ApiOp::Un(_), OpClass::Context) => (grow(rng, wx), xs_ && rng.chance(3, 4)),
        (ApiOp::Un(_), _) => (grow(rng, 1), false),
        (_, OpClass::Context) => (grow(rng, wx.max(wy)), xs_ && ys_ && rng.chance(3, 4)),
        (_, OpClass::LeftContext) => (grow(rng, wx), xs_ && rng.chance(3, 4)),
        (_, OpClass::Compare) => (grow(rng, 1), xs_ && ys_),
        (_, OpClass::Logical) => (grow(rng, 1), false),
    };
    ApiCase { op, x, y, width, signed }
}

/// Value::expand / trunc / select / concat against bv4 resize / select / concat.
fn structural(rng: &mut Rng, st: &mut ApiStats) {
    let w = pick_width(rng, 256);
    let s = rng.bool();
    let a = if rng.bool() { pick_4state(rng, w, s) } else { pick_known(rng, w, s) };
    let va = bv_to_value(&a);
    let mut fail = |name: &str, detail: String, j: Json| {
        let repr = if j["width"].as_u64().unwrap_or(0) > 64 || j["to"].as_u64().unwrap_or(0) > 64 { "BigUint" } else { "U64" };
        st.bad.push((format!("api:{name}:{repr}"), detail, j));
    };
    // expand
    let to = w + match rng.below(4) {
        0 => 0,
        1 => 1,
        2 => rng.usize(64),
        _ => rng.usize(200),
    };
    let use_sign = rng.bool();
    let got = va.expand(to, use_sign).into_owned();
    let exp = a.as_signed(a.signed && use_sign).resize(to);
    st.evals += 1;
    if value_to_bv(&got).map(|g| g.bits != exp.bits || (to > w && g.signed != exp.signed)).unwrap_or(true) || value_dirty(&got) {
        fail(
            "expand",
            format!("expand({}{} → {to}, use_sign={use_sign}) = {:x} ; reference {}", w, lit(&a), got, exp.to_bitstr()),
            json!({"structural": "expand", "x": a.to_bitstr(), "x_signed": a.signed, "width": w, "to": to, "use_sign": use_sign}),
        );
    }
    // trunc
    let to = 1 + rng.usize(w + 3);
    let mut got = va.clone();
    got.trunc(to);
    let exp = if to < w { a.resize(to) } else { a.clone() };
    st.evals += 1;
    if value_to_bv(&got).map(|g| g.bits != exp.bits).unwrap_or(true) || value_dirty(&got) || matches!(got, Value::U64(_)) != (got.width() <= 64) {
        fail(
            "trunc",
            format!("trunc({}{} → {to}) = {:x} ; reference {}", w, lit(&a), got, exp.to_bitstr()),
            json!({"structural": "trunc", "x": a.to_bitstr(), "x_signed": a.signed, "width": w, "to": to}),
        );
    }
    // select (in range)
    let lo = rng.usize(w);
    let hi = lo + rng.usize(w - lo);
    let got = va.select(hi, lo);
    let exp = a.select(hi, lo);
    st.evals += 1;
    if value_to_bv(&got).map(|g| g.bits != exp.bits || g.signed).unwrap_or(true) || value_dirty(&got) || matches!(got, Value::U64(_)) != (got.width() <= 64) {
        fail(
            "select",
            format!("select({}{} [{hi}:{lo}]) = {:x} ; reference {}", w, lit(&a), got, exp.to_bitstr()),
            json!({"structural": "select", "x": a.to_bitstr(), "x_signed": a.signed, "width": w, "hi": hi, "lo": lo}),
        );
    }
    // concat
    let w2 = pick_width(rng, 256);
    let bs = rng.bool();
    let b = if rng.bool() { pick_4state(rng, w2, bs) } else { pick_known(rng, w2, false) };
    let got = va.concat(&bv_to_value(&b));
    let exp = Bv::concat(&[a.clone(), b.clone()]);
    st.evals += 1;
    if value_to_bv(&got).map(|g| g.bits != exp.bits || g.signed).unwrap_or(true) || value_dirty(&got) || matches!(got, Value::U64(_)) != (got.width() <= 64) {
        fail(
            "concat",
            format!("concat({}{}, {}{}) = {:x} ; reference {}", w, lit(&a), w2, lit(&b), got, exp.to_bitstr()),
            json!({"structural": "concat", "x": a.to_bitstr(), "x_signed": a.signed, "width": w + w2, "y": b.to_bitstr()}),
        );
    }
}

// ------------------------------------------------------------------------------------------------
// (b) end to end

#[derive(Clone, Debug)]
pub struct E2eCase {
    pub vars: Vec<VarDecl>,
    pub env: Vec<Bv>,
    /// literal text initialising each operand constant
    pub var_lits: Vec<String>,
    pub expr: VE,
    pub width: usize,
    pub signed: bool,
}

pub fn type_text(width: usize, signed: bool) -> String {
    format!("{}logic<{}>", if signed { "signed " } else { "" }, width)
}

impl E2eCase {
    /// The module text; operand constants that `expr` does not use are left out.
    pub fn text_for(&self, expr: &VE) -> String {
        let mut text = String::from("module Top {\n");
        for (i, d) in self.vars.iter().enumerate() {
            if expr.uses_var(i) {
                text.push_str(&format!("    const {}: {} = {};\n", d.name, type_text(d.width, d.signed), self.var_lits[i]));
            }
        }
        text.push_str(&format!("    const C: {} = {};\n}}\n", type_text(self.width, self.signed), expr.render(&self.vars)));
        text
    }
    pub fn text(&self) -> String {
        self.text_for(&self.expr)
    }
    pub fn with_expr(&self, expr: VE) -> E2eCase {
        E2eCase { expr, ..self.clone() }
    }
}

pub fn gen_e2e(rng: &mut Rng) -> E2eCase {
    let nvars = rng.usize(3);
    let mut vars = vec![];
    let mut env = vec![];
    let mut var_lits = vec![];
    let wide = rng.chance(1, 4);
    let maxw = if wide { 256 } else { 70 };
    let xz = rng.chance(1, 2);
    for i in 0..nvars {
        let w = pick_width(rng, maxw);
        let s = rng.chance(2, 5);
        let v = if xz && rng.chance(1, 3) { pick_4state(rng, w, s) } else { pick_known(rng, w, s) };
        var_lits.push(sized_literal(rng, &v));
        vars.push(VarDecl { name: format!("K{i}"), width: w, signed: s });
        env.push(v);
    }
    let cfg = GenCfg {
        vars: vars.clone(),
        max_lit_width: maxw,
        xz,
        fill: true,
        pow: true,
        divmod: true,
        casts: true,
        sign_funcs: true,
        var_pct: 40,
        depth: 1 + rng.usize(4),
    };
    let depth = cfg.depth;
    let expr = Gen::new(rng, cfg).gen_expr(depth, true);
    let (tw, ts) = expr.ty(&vars);
    let width = match rng.below(6) {
        0 | 1 => tw,
        2 => (tw + 1 + rng.usize(40)).min(400),
        3 => 1 + rng.usize(tw),
        4 => pick_width(rng, 256),
        _ => tw + rng.usize(3),
    }
    .max(1);
    let signed = if rng.chance(2, 3) { ts } else { rng.bool() };
    E2eCase { vars, env, var_lits, expr, width, signed }
}

pub struct E2eOut {
    pub status: String,
    pub codes: Vec<String>,
    pub got: Option<Bv>,
    pub expected: Vec<Bv>,
    pub var_mismatch: Option<String>,
}

pub fn run_e2e(c: &E2eCase) -> E2eOut {
    let expected = c.expr.expected_all(&c.env, c.width, c.signed);
    let md = default_metadata();
    let mut out = E2eOut { status: String::new(), codes: vec![], got: None, expected, var_mismatch: None };
    let a = match analyze_one(&c.text(), &md) {
        Err(e) => {
            out.status = format!("parse_error: {e:?}");
            return out;
        }
        Ok(a) => a,
    };
    out.codes = a.error_codes();
    if !out.codes.is_empty() {
        out.status = "rejected".into();
        return out;
    }
    let vars = module_vars(&a, "Top");
    // the literal-initialised operand constants must hold exactly their literal
    for (i, (d, v)) in c.vars.iter().zip(&c.env).enumerate() {
        if !c.expr.uses_var(i) {
            continue;
        }
        match vars.get(&d.name).and_then(|(_, vals)| vals.first()).and_then(value_to_bv) {
            Some(g) if g == *v => {}
            other => {
                out.var_mismatch = Some(format!("{} should be {} but is {:?}", d.name, v.to_bitstr(), other.map(|g| g.to_bitstr())));
            }
        }
    }
    match vars.get("C").and_then(|(_, vals)| vals.first()) {
        None => out.status = "no_value".into(),
        Some(v) => {
            out.status = "ok".into();
            out.got = value_to_bv(v);
            if out.got.is_none() {
                out.status = "width0_value".into();
            }
        }
    }
    out
}

/// Does the analyzer (on a fresh thread) disagree with every accepted IEEE reading?
fn e2e_fails(c: &E2eCase) -> bool {
    let c2 = c.clone();
    match fresh_thread(STACK_64M, move || run_e2e(&c2)) {
        Ok(o) => o.status == "ok" && o.var_mismatch.is_none() && o.got.as_ref().map(|g| !o.expected.iter().any(|e| e.bits == g.bits)).unwrap_or(false),
        Err(_) => false,
    }
}

/// The construct a minimal failing expression is about.  The reducer removes every
/// sub-expression that is not needed for the failure, so what remains is characteristic;
/// context operators that are only needed to make the deviation visible (an unsigned
/// sibling, a wider destination) are left out of the class when a primary construct exists.
fn e2e_class(c: &E2eCase) -> String {
    let e = &c.expr;
    if let VE::Sel(..) = e {
        return "bare-select-of-const".into();
    }
    let signed_sel = e.has(&|x| matches!(x, VE::Sel(i, _, _) if c.vars[*i].signed));
    if signed_sel {
        return "select-of-signed-const".into();
    }
    let xsel = e.has(&|x| matches!(x, VE::Cond(s, _, _) if matches!(&**s, VE::Lit { val, .. } if val.has_xz()) || !matches!(&**s, VE::Lit { .. })));
    if xsel {
        return "if-expression-unknown-selector".into();
    }
    if e.has(&|x| matches!(x, VE::Cond(..))) {
        return "if-expression-extension".into();
    }
    let tags = e.tags();
    for (prefix, class) in [("as_u", "type-cast"), ("as_i", "type-cast"), ("as_n", "size-cast"), ("$signed", "sign-function"), ("$unsigned", "sign-function")] {
        if tags.iter().any(|t| t.starts_with(prefix)) {
            return class.into();
        }
    }
    for t in ["bin==", "bin!=", "bin==?", "bin!=?", "bin&&", "bin||", "bin**", "bin<:", "bin<=", "bin>:", "bin>="] {
        if tags.iter().any(|x| x == t) {
            return t.into();
        }
    }
    let ops: Vec<&str> = tags.iter().map(|s| s.as_str()).filter(|t| !matches!(*t, "lit" | "var" | "select")).collect();
    if ops.len() <= 3 { ops.join("+") } else { format!("unreduced{:x}", hash_str(&c.text()) & 0xffff_ffff) }
}

/// Shrink the failing case; the signature is the operator set of the minimal failing
/// expression plus the kind of deviation, so that one defect gives one signature.
fn e2e_reduce(c: &E2eCase) -> (E2eCase, String) {
    let min = crate::vexpr::reduce(&c.expr, &c.vars, &c.env, c.width, 200, &mut |cand| e2e_fails(&c.with_expr(cand.clone())));
    let m = c.with_expr(min);
    let c2 = m.clone();
    let o = fresh_thread(STACK_64M, move || run_e2e(&c2)).ok();
    let (gk, wk) = match &o {
        Some(o) if o.got.is_some() => (crate::vexpr::value_kind(o.got.as_ref().unwrap()), crate::vexpr::value_kind(&o.expected[0])),
        _ => ("?", "?"),
    };
    let _ = (gk, wk);
    let sig = format!("e2e:{}", e2e_class(&m));
    (m, sig)
}

// ------------------------------------------------------------------------------------------------

pub fn main(args: Args) {
    let run = Arc::new(Run::new(
        args.clone(),
        "exploration",
        "(a) API cases = (Op, x, y, context width, context signedness) as ir::Expression::eval_value passes them: exhaustive over \
         all 4-state operands up to exhaustive_max_width bits x all unary/binary ops x operand signedness flags x admissible context \
         (width<=8, signedness), plus randomised cases up to 256 bits with boundary-biased values/widths; every case that fits 64 bits is \
         re-evaluated with operands and context lifted by 64 bits (BigUint path). (b) e2e cases = generated `const` declarations (sized/unsized/\
         signed literals with X/Z digits, all operators, casts, concat/repeat, shifts, comparisons, if-expressions, selects of other consts) \
         analysed by the real analyzer. non-trivial = the case has >=1 operator and the analyzer produced a value; distinct = distinct \
         (operator, operands, context) resp. distinct source texts",
    ));
    run.assume("refmodel::bv4 implements IEEE 1800-2017 §11 (self-tested at start: hand-computed table + cross-check against native u128/i128 arithmetic)");
    run.assume("the Value.signed flag of intermediate results is not compared (not part of the IEEE value; its observable effects are judged end to end); differences are counted");
    run.assume("==, !=, ==?, !=? with X/Z: both the strict and the 'ambiguous' reading of §11.4.5/§11.4.6 are accepted; `x as N`: signedness pass-through (IEEE §6.24.1) and unsigned (analyzer comment) are both accepted");

    match bv4::self_test() {
        Ok(n) => run.count("bv4_self_test_checks", n as i64),
        Err(e) => {
            run.inconclusive(format!("bv4 self-test failed: {e}"));
            if args.get("skip_self_test").is_none() {
                run.finish(&[]);
            }
        }
    }

    if let Some(rp) = &args.replay {
        let v: Json = serde_json::from_str(&std::fs::read_to_string(rp).expect("replay file")).unwrap();
        let case = v["case"].clone();
        replay(&run, &case);
        run.finish(&[]);
    }

    let arms = args.get("arms").unwrap_or("all").to_string();
    let do_api = arms == "all" || arms == "api";
    let do_e2e = arms == "all" || arms == "e2e";

    // ---------------- (a) exhaustive
    let exw = args.budget("exhaustive_max_width", 3, 4) as usize;
    let mut tasks: Vec<(ApiOp, usize, usize)> = vec![];
    let _ = &mut tasks;
    for op in ALL_VUN {
        for wx in 1..=exw {
            tasks.push((ApiOp::Un(op), wx, 1));
        }
    }
    for op in ALL_VBIN {
        for wx in 1..=exw {
            for wy in 1..=exw {
                tasks.push((ApiOp::Bin(op), wx, wy));
            }
        }
    }
    if !do_api {
        tasks.clear();
    }
    let tasks = Arc::new(tasks);
    let run2 = run.clone();
    let t2 = tasks.clone();
    par_cases(
        tasks.len() as u64,
        args.jobs,
        STACK_64M,
        move |i| {
            let (op, wx, wy) = &t2[i as usize];
            let mut st = ApiStats::default();
            exhaustive_task(op, *wx, *wy, &mut st);
            st
        },
        move |i, r| absorb(&run2, "exhaustive", i, r),
    );
    run.set_extra("exhaustive_part", json!(true));
    run.set_extra("exhaustive_max_width", json!(exw));
    run.set_extra("exhaustive_tasks", json!(tasks.len()));

    // ---------------- (a) random
    let n_api = if do_api { args.budget("api_cases", 600_000, 40_000_000) } else { 0 };
    let chunk = 2000u64;
    let seed = args.seed;
    let run2 = run.clone();
    par_cases(
        n_api.div_ceil(chunk),
        args.jobs,
        STACK_64M,
        move |i| {
            let mut rng = Rng::for_case(seed, "C17api", i);
            let mut st = ApiStats::default();
            let mut mc = MaskCache::default();
            for k in 0..chunk {
                let c = random_api_case(&mut rng);
                judge(&c, &mut mc, &mut st, k == 0);
                if k % 8 == 0 {
                    structural(&mut rng, &mut st);
                }
            }
            st
        },
        move |i, r| absorb(&run2, "random", i, r),
    );

    // ---------------- (b) end to end
    REDUCTIONS_LEFT.store(args.budget("max_reductions", 200, 1500) as i64, std::sync::atomic::Ordering::Relaxed);
    let n_e2e = if do_e2e { args.budget("expressions", 3000, 300_000) } else { 0 };
    let run2 = run.clone();
    par_cases(
        n_e2e,
        args.jobs,
        STACK_64M,
        move |i| {
            let mut rng = Rng::for_case(seed, "C17e2e", i);
            let c = gen_e2e(&mut rng);
            let o = run_e2e(&c);
            (c, o)
        },
        move |i, r| {
            run2.eval();
            match r {
                Err(p) => {
                    run2.count("e2e_analyzer_panics_not_judged", 1);
                    run2.note(format!("e2e case {i}: panic at {}: {}", p.location, p.message.chars().take(160).collect::<String>()));
                }
                Ok((c, o)) => report_e2e(&run2, i, &c, &o),
            }
        },
    );

    let mut floors: Vec<(&str, i64)> = vec![];
    if do_api {
        floors.extend([("api_evaluations", 1_000_000), ("api_lifted_to_biguint", 100_000), ("api_results_with_xz", 100_000), ("api_ops", 34)]);
    }
    if do_e2e {
        floors.extend([("e2e_values_compared", 700), ("e2e_constructs", 30)]);
    }
    run.finish(&floors);
}

fn absorb(run: &Run, arm: &str, i: u64, r: Result<ApiStats, vcommon::pool::PanicInfo>) {
    match r {
        Err(p) => {
            run.inconclusive(format!("harness panic in {arm} api chunk {i}: {} at {}", p.message, p.location));
        }
        Ok(st) => {
            run.evals(st.evals);
            run.count("api_evaluations", st.evals as i64);
            run.count(&format!("api_evaluations_{arm}"), st.evals as i64);
            run.count("api_lifted_to_biguint", st.lifted as i64);
            run.count("api_results_with_xz", st.xz_results as i64);
            run.count("api_signed_flag_differs_not_judged", st.flag_differs as i64);
            run.count("api_noncanonical_representation_not_judged", st.noncanonical as i64);
            run.count("api_accepted_by_ambiguous_equality_reading_only", st.accepted_ambig_only as i64);
            for s in st.samples {
                if let Some(op) = s["api_case"]["op"].as_str() {
                    run.seen("api_ops", op);
                }
                run.nontrivial(hash_str(&s["api_case"].to_string()));
                if i % 97 == 3 {
                    run.sample(s);
                }
            }
            for (sig, what, j) in st.bad {
                run.count("api_mismatches_observed", 1);
                run.seen("mismatch_signatures", &sig);
                run.violation(&sig, &what, j);
            }
        }
    }
}

static REDUCTIONS_LEFT: std::sync::atomic::AtomicI64 = std::sync::atomic::AtomicI64::new(i64::MAX);

fn report_e2e(run: &Run, i: u64, c: &E2eCase, o: &E2eOut) {
    match o.status.as_str() {
        "ok" => {}
        "rejected" => {
            run.count("e2e_rejected_by_analyzer", 1);
            for code in &o.codes {
                run.seen("e2e_reject_codes", code);
            }
            return;
        }
        s => {
            let key = s.split(':').next().unwrap_or("other");
            run.count(&format!("e2e_not_judged_{key}"), 1);
            if key == "parse_error" {
                run.note(format!("e2e case {i}: generator produced unparsable text: {}", c.text().lines().last().unwrap_or("")));
            }
            return;
        }
    }
    let got = o.got.as_ref().unwrap();
    run.count("e2e_values_compared", 1);
    if c.expr.depth() >= 1 {
        run.nontrivial(hash_str(&c.text()));
    }
    for t in c.expr.tags() {
        run.seen("e2e_constructs", &t);
    }
    if got.has_xz() {
        run.count("e2e_values_with_xz", 1);
    }
    if c.width > 64 {
        run.count("e2e_values_wider_than_64", 1);
    }
    if let Some(m) = &o.var_mismatch {
        run.violation(
            &format!("e2e:literal-const:{:x}", hash_str(&c.text()) & 0xffff_ffff),
            &format!("a constant initialised by a sized literal does not hold the literal's value: {m}"),
            json!({"e2e": true, "text": c.text()}),
        );
        return;
    }
    let pos = o.expected.iter().position(|e| e.bits == got.bits);
    match pos {
        Some(0) => {}
        Some(_) => run.count("e2e_accepted_by_alternative_reading_only", 1),
        None => {}
    }
    if pos.is_some() {
        if got.signed != c.signed {
            run.count("e2e_signed_flag_differs_from_declared_type_not_judged", 1);
        }
        if i % 50 == 7 {
            run.sample(json!({"e2e_case": c.text(), "veryl": got.to_bitstr(), "ieee": o.expected[0].to_bitstr()}));
        }
        return;
    }
    run.count("e2e_mismatches_observed", 1);
    if REDUCTIONS_LEFT.fetch_sub(1, std::sync::atomic::Ordering::Relaxed) <= 0 {
        // reductions re-run the analyzer up to 200 times each; beyond the cap mismatches are only counted
        run.count("e2e_mismatches_beyond_max_reductions_counted_only", 1);
        return;
    }
    let (m, sig) = e2e_reduce(c);
    let c2 = m.clone();
    let mo = fresh_thread(STACK_64M, move || run_e2e(&c2)).ok();
    let (mg, me) = match &mo {
        Some(o) if o.got.is_some() => (o.got.as_ref().unwrap().to_bitstr(), o.expected.iter().map(|e| e.to_bitstr()).collect::<Vec<_>>()),
        _ => (got.to_bitstr(), o.expected.iter().map(|e| e.to_bitstr()).collect::<Vec<_>>()),
    };
    if let Ok(path) = std::env::var("VERIF_OPS_DUMP") {
        use std::io::Write;
        if let Ok(mut f) = std::fs::OpenOptions::new().create(true).append(true).open(path) {
            let _ = writeln!(f, "{}", json!({"signature": sig, "text": m.text(), "veryl": mg, "ieee": me, "original_text": c.text()}));
        }
    }
    run.seen("mismatch_signatures", &sig);
    run.violation(
        &sig,
        &format!("const C: {} = {} → analyzer {} ; IEEE {}", type_text(m.width, m.signed), m.expr.render(&m.vars), mg, me.join(" or ")),
        json!({"e2e": true, "text": m.text(), "veryl": mg, "ieee": me,
               "original_text": c.text(), "original_veryl": got.to_bitstr(),
               "original_ieee": o.expected.iter().map(|e| e.to_bitstr()).collect::<Vec<_>>()}),
    );
}

fn replay(run: &Run, case: &Json) {
    run.eval();
    if case["e2e"].as_bool() == Some(true) {
        // re-run the analyzer on the recorded text and compare with the recorded IEEE values
        let text = case["text"].as_str().expect("text").to_string();
        let ieee: Vec<String> = case["ieee"].as_array().map(|a| a.iter().filter_map(|x| x.as_str().map(String::from)).collect()).unwrap_or_default();
        let t2 = text.clone();
        let got = fresh_thread(STACK_64M, move || {
            let md = default_metadata();
            let a = analyze_one(&t2, &md).ok()?;
            if !a.error_codes().is_empty() {
                return None;
            }
            module_vars(&a, "Top").get("C").and_then(|(_, v)| v.first()).and_then(value_to_bv)
        })
        .ok()
        .flatten();
        match got {
            None => run.inconclusive("replay: the analyzer no longer produces a value for this text".into()),
            Some(g) => {
                if !ieee.contains(&g.to_bitstr()) {
                    run.violation("replay:e2e", &format!("analyzer {} ; IEEE {}", g.to_bitstr(), ieee.join(" or ")), case.clone());
                }
            }
        }
        return;
    }
    if case["structural"].is_string() {
        run.inconclusive("replay of structural cases: re-run with the recorded seed".into());
        return;
    }
    match ApiCase::from_json(case) {
        None => run.inconclusive("replay: cannot parse case".into()),
        Some(c) => {
            let mut st = ApiStats::default();
            let mut mc = MaskCache::default();
            judge(&c, &mut mc, &mut st, false);
            for (sig, what, j) in st.bad {
                run.violation(&sig, &what, j);
            }
        }
    }
}

#[allow(dead_code)]
fn _unused() {
    let _ = (X, Z);
}
