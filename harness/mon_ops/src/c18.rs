//! C18 — run-time operator evaluation matches the reference at every width.
//!
//! OpGen designs: `module Top` with input ports a, b, c (widths 1…300, signed/unsigned,
//! concentrated at 63/64/65/127/128/129/255/256) and one output per expression; the
//! expressions (depth <= 5, all operators, selects, concat/repeat, casts, if-expressions,
//! shifts by wide amounts) sit in `assign`, `always_comb` and `always_ff` contexts.  Random /
//! boundary 2-state values are driven under every engine `Config` and every engine's
//! `Simulator::get` must equal bv4's evaluation of the same expression with IEEE §11.6 sizing
//! (context = output width), which in turn must equal the analyzer's compile-time value of
//! the same expression with the operands substituted as constants.
//! A comparison is skipped (and counted) for 2-state engines when bv4's result has X/Z.

use crate::c17::type_text;
use crate::common::{module_vars, value_to_bv};
use crate::vexpr::{Gen, GenCfg, VE, VarDecl, pick_known, pick_width, plain_literal, reduce, value_kind};
use refmodel::bv4::{self, Bv};
use std::sync::Arc;
use vcommon::pipeline::{analyze_one, default_metadata};
use vcommon::pool::{STACK_64M, fresh_thread, par_cases};
use vcommon::rng::hash_str;
use vcommon::{Args, Json, Rng, Run, json};
use veryl_simulator::Config;
use vgen::sim::{CycleIn, Stimulus, TVal, Trace, run as sim_run};
use vgen::{Design, Port};

/// Engine list of C02 (copied from harness/mon_sim/src/c02.rs `engines()`).
pub fn engines(with_cc: bool) -> Vec<(String, Config)> {
    let mut v = vec![];
    for use_4state in [false, true] {
        for use_jit in [false, true] {
            for disable_ff_opt in [false, true] {
                let name = format!(
                    "{}{}{}",
                    if use_jit { "jit" } else { "interp" },
                    if use_4state { "+4state" } else { "" },
                    if disable_ff_opt { "+noffopt" } else { "" }
                );
                v.push((name, Config { use_4state, use_jit, disable_ff_opt, ..Default::default() }));
            }
        }
    }
    if with_cc {
        for disable_ff_opt in [false, true] {
            let sfx = if disable_ff_opt { "+noffopt" } else { "" };
            v.push((format!("cc+event{sfx}"), Config { use_jit: true, disable_ff_opt, aot_c: true, aot_c_event: true, ..Default::default() }));
            v.push((format!("cc-comb-only{sfx}"), Config { use_jit: true, disable_ff_opt, aot_c: true, aot_c_event: false, ..Default::default() }));
        }
        v.push(("cc+validate".to_string(), Config { use_jit: true, aot_c: true, aot_c_event: true, aot_c_validate: true, ..Default::default() }));
    }
    v
}

/// Reductions are expensive (each step re-simulates); after this many the remaining
/// mismatches of a run are only counted.
static REDUCTIONS_LEFT: std::sync::atomic::AtomicI64 = std::sync::atomic::AtomicI64::new(i64::MAX);

fn engine_family(name: &str) -> String {
    let base = if name.starts_with("interp") {
        "interp"
    } else if name.starts_with("jit") {
        "jit"
    } else {
        "cc"
    };
    format!("{base}{}", if name.contains("4state") { "+4state" } else { "" })
}

#[derive(Clone, Copy, Debug, PartialEq, Eq)]
pub enum Ctx {
    Assign,
    Comb,
    Ff,
}

impl Ctx {
    fn name(self) -> &'static str {
        match self {
            Ctx::Assign => "assign",
            Ctx::Comb => "always_comb",
            Ctx::Ff => "always_ff",
        }
    }
}

#[derive(Clone, Debug)]
pub struct OutDecl {
    pub name: String,
    pub width: usize,
    pub signed: bool,
    pub ctx: Ctx,
    pub expr: VE,
}

#[derive(Clone, Debug)]
pub struct OpDesign {
    pub ports: Vec<VarDecl>,
    pub outs: Vec<OutDecl>,
}

impl OpDesign {
    pub fn render(&self) -> String {
        let mut t = String::from("module Top (\n    i_clk: input clock,\n    i_rst: input reset,\n");
        for p in &self.ports {
            t.push_str(&format!("    {}: input {},\n", p.name, type_text(p.width, p.signed)));
        }
        for o in &self.outs {
            t.push_str(&format!("    {}: output {},\n", o.name, type_text(o.width, o.signed)));
        }
        t.push_str(") {\n");
        for o in &self.outs {
            let e = o.expr.render(&self.ports);
            match o.ctx {
                Ctx::Assign => t.push_str(&format!("    assign {} = {e};\n", o.name)),
                Ctx::Comb => t.push_str(&format!("    always_comb {{\n        {} = {e};\n    }}\n", o.name)),
                Ctx::Ff => t.push_str(&format!(
                    "    always_ff {{\n        if_reset {{\n            {} = 0;\n        }} else {{\n            {} = {e};\n        }}\n    }}\n",
                    o.name, o.name
                )),
            }
        }
        t.push_str("}\n");
        t
    }
    pub fn design(&self) -> Design {
        Design {
            text: self.render(),
            top: "Top".into(),
            clock: "i_clk".into(),
            reset: "i_rst".into(),
            inputs: self.ports.iter().map(|p| Port { name: p.name.clone(), width: p.width, signed: p.signed, output: false }).collect(),
            outputs: self.outs.iter().map(|o| Port { name: o.name.clone(), width: o.width, signed: o.signed, output: true }).collect(),
            features: vec![],
            has_ff: self.outs.iter().any(|o| o.ctx == Ctx::Ff),
        }
    }
    /// The same expressions as compile-time constants with the operands as sized literals.
    pub fn render_comptime(&self, env: &[Bv]) -> String {
        let mut t = String::from("module Top {\n");
        for (p, v) in self.ports.iter().zip(env) {
            t.push_str(&format!("    const {}: {} = {};\n", p.name, type_text(p.width, p.signed), plain_literal(v).render(&[])));
        }
        for o in &self.outs {
            t.push_str(&format!("    const {}: {} = {};\n", o.name, type_text(o.width, o.signed), o.expr.render(&self.ports)));
        }
        t.push_str("}\n");
        t
    }
}

pub fn port_width(rng: &mut Rng) -> usize {
    match rng.below(10) {
        0..=4 => *rng.pick(&[63usize, 64, 65, 127, 128, 129, 255, 256, 1, 32, 33]),
        5 => 1 + rng.usize(16),
        _ => pick_width(rng, 300),
    }
}

pub fn gen_design(rng: &mut Rng, n_outs: usize) -> OpDesign {
    let ports: Vec<VarDecl> =
        ["a", "b", "c"].iter().map(|n| VarDecl { name: n.to_string(), width: port_width(rng), signed: rng.chance(2, 5) }).collect();
    let mut outs = vec![];
    for k in 0..n_outs {
        let depth = match rng.below(6) {
            0 | 1 => 1,
            2 => 2,
            3 => 3,
            4 => 4,
            _ => 5,
        };
        let cfg = GenCfg {
            vars: ports.clone(),
            max_lit_width: if rng.chance(1, 3) { 300 } else { 70 },
            xz: false,
            fill: true,
            pow: true,
            divmod: true,
            casts: true,
            sign_funcs: true,
            var_pct: 70,
            depth,
        };
        let mut expr = Gen::new(rng, cfg).gen_expr(depth, true);
        // an expression without any port is a constant: wrap it so that it is a run-time one
        if !expr.has(&|e| matches!(e, VE::Var(_) | VE::Sel(..))) {
            let i = rng.usize(3);
            expr = VE::Bin(crate::vexpr::VBin::Xor, Box::new(VE::Var(i)), Box::new(expr));
        }
        let (tw, ts) = expr.ty(&ports);
        let width = match rng.below(6) {
            0 | 1 => tw,
            2 => (tw + 1 + rng.usize(40)).min(400),
            3 => 1 + rng.usize(tw),
            4 => port_width(rng),
            _ => tw + rng.usize(3),
        }
        .clamp(1, 400);
        let signed = if rng.chance(2, 3) { ts } else { rng.bool() };
        let ctx = match k % 3 {
            0 => Ctx::Assign,
            1 => Ctx::Comb,
            _ => Ctx::Ff,
        };
        outs.push(OutDecl { name: format!("o{k}"), width, signed, ctx, expr });
    }
    OpDesign { ports, outs }
}

fn bv_to_tval(b: &Bv) -> TVal {
    let (p, m) = b.to_words();
    TVal { width: b.width(), payload: p, xz: m }
}

fn tval_to_bv(t: &TVal, signed: bool) -> Bv {
    Bv::from_words(&t.payload, &t.xz, t.width, signed)
}

/// First two cycles in reset, then one value set per cycle.
pub fn gen_stimulus(rng: &mut Rng, d: &OpDesign, sets: usize) -> (Stimulus, Vec<Vec<Bv>>) {
    let mut cycles = vec![];
    let mut envs = vec![];
    for c in 0..sets + 2 {
        let env: Vec<Bv> = d.ports.iter().map(|p| pick_known(rng, p.width, p.signed)).collect();
        cycles.push(CycleIn { reset: c < 2, inputs: env.iter().map(bv_to_tval).collect() });
        envs.push(env);
    }
    (Stimulus { cycles }, envs)
}

#[derive(Default)]
pub struct CaseOut {
    pub status: String,
    pub codes: Vec<String>,
    pub text: String,
    pub n_exprs: usize,
    pub engines_run: Vec<String>,
    pub engine_errors: Vec<(String, String)>,
    pub comparisons: u64,
    pub skipped_xz_2state: u64,
    pub xz_compared_4state: u64,
    pub alt_reading_only: u64,
    pub comptime_compared: u64,
    pub comptime_status: String,
    pub tags: Vec<String>,
    pub widths_over_64: u64,
    pub widths_over_128: u64,
    pub not_reduced: u64,
    /// (signature, what, replay)
    pub bad: Vec<(String, String, Json)>,
}

fn accept(text: &str) -> Result<vcommon::pipeline::Analyzed, (String, Vec<String>)> {
    let md = default_metadata();
    match analyze_one(text, &md) {
        Err(e) => Err((format!("parse_error: {e:?}"), vec![])),
        Ok(a) => {
            let codes: Vec<String> = a.error_codes().into_iter().filter(|c| !c.contains("unsigned_arith_shift") && !c.contains("invalid_logical_operand")).collect();
            if codes.is_empty() { Ok(a) } else { Err(("rejected".into(), codes)) }
        }
    }
}

/// Value `engine` computes for a one-output design holding `expr` (inputs = `env`); None = not simulated.
fn single_value(ports: &[VarDecl], out: &OutDecl, expr: &VE, env: &[Bv], cfg: &Config) -> Option<Bv> {
    let d = OpDesign { ports: ports.to_vec(), outs: vec![OutDecl { expr: expr.clone(), name: "o0".into(), ..out.clone() }] };
    let design = d.design();
    let env2 = env.to_vec();
    let cfg = cfg.clone();
    let signed = out.signed;
    fresh_thread(STACK_64M, move || {
        let a = accept(&design.text).ok()?;
        let inputs: Vec<TVal> = env2.iter().map(bv_to_tval).collect();
        let stim = Stimulus {
            cycles: vec![CycleIn { reset: true, inputs: inputs.clone() }, CycleIn { reset: true, inputs: inputs.clone() }, CycleIn { reset: false, inputs: inputs.clone() }],
        };
        let r = std::panic::catch_unwind(std::panic::AssertUnwindSafe(|| sim_run(&a.ir, &design, &cfg, &stim)));
        let Ok(Ok(t)) = r else { return None };
        Some(tval_to_bv(&t.steps[2][0], signed))
    })
    .ok()
    .flatten()
}

/// For the reducer: does `engine` still disagree with every accepted IEEE reading on `env`?
fn single_fails(ports: &[VarDecl], out: &OutDecl, expr: &VE, env: &[Bv], cfg: &Config) -> bool {
    let Some(got) = single_value(ports, out, expr, env, cfg) else { return false };
    let exp = expr.expected_all(env, out.width, out.signed);
    if !cfg.use_4state && exp[0].has_xz() {
        return false;
    }
    !exp.iter().any(|e| e.bits == got.bits)
}

/// Coarse, stable class of a minimal failing expression (one of a fixed vocabulary).
fn expr_class(e: &VE, ports: &[VarDecl]) -> String {
    if let VE::Sel(..) = e {
        return "bare-select".into();
    }
    let tags = e.tags();
    let has = |p: &str| tags.iter().any(|t| t == p);
    let starts = |p: &str| tags.iter().any(|t| t.starts_with(p));
    // the reducer keeps a select only when the failure needs it; a select of a SIGNED port
    // is the known typing defect C17/R8 and takes precedence over the surrounding construct
    if e.has(&|x| matches!(x, VE::Sel(i, _, _) if ports[*i].signed)) {
        return "select-of-signed-port".into();
    }
    if e.has(&|x| matches!(x, VE::Cond(..))) {
        return "if-expression".into();
    }
    if starts("as_u") || starts("as_i") {
        return "type-cast".into();
    }
    if has("as_n") {
        return "size-cast".into();
    }
    if has("$signed") || has("$unsigned") {
        return "sign-function".into();
    }
    for (class, ops) in [
        ("pow", &["bin**"][..]),
        ("shift", &["bin<<", "bin>>", "bin<<<", "bin>>>"][..]),
        ("logical", &["bin&&", "bin||", "un!"][..]),
        ("reduction", &["un&", "un|", "un^", "un~&", "un~|", "un~^"][..]),
        ("compare", &["bin==", "bin!=", "bin==?", "bin!=?", "bin<:", "bin<=", "bin>:", "bin>="][..]),
        ("divide", &["bin/", "bin%"][..]),
        ("arithmetic", &["bin+", "bin-", "bin*", "un-", "un+"][..]),
        ("bitwise", &["bin&", "bin|", "bin^", "bin~^", "un~"][..]),
        ("concat", &["concat", "repeat"][..]),
    ] {
        if ops.iter().any(|o| has(o)) {
            return class.into();
        }
    }
    let _ = ports;
    "operand".into()
}

/// Which engines fail: all, only compiled ones (jit/cc, the interpreter is right), only 4-state ones, …
fn engine_scope(failing: &[String], all_run: usize) -> String {
    if failing.len() == all_run {
        return "all-engines".into();
    }
    let mut fams: Vec<String> = failing.iter().map(|x| engine_family(x)).collect();
    fams.sort();
    fams.dedup();
    let interp = fams.iter().any(|f| f.starts_with("interp"));
    let only4 = fams.iter().all(|f| f.ends_with("4state"));
    if !interp {
        return if only4 { "compiled-4state".into() } else { "compiled".into() };
    }
    if only4 {
        return "4state".into();
    }
    fams.join(",")
}

pub fn run_case(seed: u64, i: u64, n_outs: usize, sets: usize, with_cc: bool, comptime_sets: usize) -> CaseOut {
    let mut rng = Rng::for_case(seed, "C18", i);
    let d = gen_design(&mut rng, n_outs);
    let (stim, envs) = gen_stimulus(&mut rng, &d, sets);
    run_design(&d, &stim, &envs, with_cc, comptime_sets, i)
}

pub fn run_design(d: &OpDesign, stim: &Stimulus, envs: &[Vec<Bv>], with_cc: bool, comptime_sets: usize, case_index: u64) -> CaseOut {
    let design = d.design();
    let mut out = CaseOut { text: design.text.clone(), n_exprs: d.outs.len(), ..Default::default() };
    let a = match accept(&design.text) {
        Ok(a) => a,
        Err((s, codes)) => {
            out.status = s;
            out.codes = codes;
            return out;
        }
    };
    out.status = "ok".into();
    for o in &d.outs {
        out.tags.extend(o.expr.tags());
        out.tags.push(format!("ctx:{}", o.ctx.name()));
        if o.width > 64 {
            out.widths_over_64 += 1;
        }
        if o.width > 128 {
            out.widths_over_128 += 1;
        }
    }
    out.tags.sort();
    out.tags.dedup();
    // expected values per cycle and output (all accepted readings)
    let expected: Vec<Vec<Vec<Bv>>> = envs.iter().map(|env| d.outs.iter().map(|o| o.expr.expected_all(env, o.width, o.signed)).collect()).collect();

    // failures: (output index, cycle) → engines that disagree, with their value
    let mut fails: std::collections::BTreeMap<(usize, usize), Vec<(String, Config, Bv)>> = Default::default();
    let mut engine_count = 0;
    for (name, cfg) in engines(with_cc) {
        let r = std::panic::catch_unwind(std::panic::AssertUnwindSafe(|| sim_run(&a.ir, &design, &cfg, stim)));
        let t: Trace = match r {
            Err(p) => {
                let msg = p.downcast_ref::<&str>().map(|s| s.to_string()).or_else(|| p.downcast_ref::<String>().cloned()).unwrap_or("<panic>".into());
                out.bad.push((
                    format!(
                        "engine-panic:{}:{}",
                        engine_family(&name),
                        if msg.contains("unwrap()` on a `None`") {
                            "unwrap-none"
                        } else if msg.contains("index out of bounds") {
                            "index-out-of-bounds"
                        } else if msg.contains("divergence") {
                            "cc-vs-cranelift-validator-divergence"
                        } else {
                            "other"
                        }
                    ),
                    format!("engine {name} panicked on an operator design: {}", msg.lines().next().unwrap_or("").chars().take(160).collect::<String>()),
                    json!({"case_index": case_index, "design": design.text, "engine": name, "panic": msg.chars().take(600).collect::<String>()}),
                ));
                continue;
            }
            Ok(Err(e)) => {
                out.engine_errors.push((name, e.lines().next().unwrap_or("").to_string()));
                continue;
            }
            Ok(Ok(t)) => t,
        };
        engine_count += 1;
        out.engines_run.push(name.clone());
        for (c, row) in t.steps.iter().enumerate() {
            if stim.cycles[c].reset {
                continue;
            }
            for (oi, o) in d.outs.iter().enumerate() {
                let exp = &expected[c][oi];
                if exp[0].has_xz() {
                    if !cfg.use_4state {
                        out.skipped_xz_2state += 1;
                        continue;
                    }
                    out.xz_compared_4state += 1;
                }
                let got = tval_to_bv(&row[oi], o.signed);
                out.comparisons += 1;
                match exp.iter().position(|e| e.bits == got.bits) {
                    Some(0) => {}
                    Some(_) => out.alt_reading_only += 1,
                    None => fails.entry((oi, c)).or_default().push((name.clone(), cfg.clone(), got)),
                }
            }
        }
    }
    let _ = engine_count;

    // report: one (reduced) violation per failing output, first failing cycle
    let mut done_outputs = std::collections::HashSet::new();
    for ((oi, c), list) in &fails {
        if !done_outputs.insert(*oi) || out.bad.len() >= 4 {
            continue;
        }
        if REDUCTIONS_LEFT.fetch_sub(1, std::sync::atomic::Ordering::Relaxed) <= 0 {
            out.not_reduced += 1;
            continue;
        }
        let o = &d.outs[*oi];
        let env = &envs[*c];
        let who = engine_scope(&list.iter().map(|x| x.0.clone()).collect::<Vec<_>>(), out.engines_run.len());
        let (ename, ecfg, got) = &list[0];
        let min = reduce(&o.expr, &d.ports, env, o.width, 60, &mut |cand| single_fails(&d.ports, o, cand, env, ecfg));
        let exp_min = min.expected_all(env, o.width, o.signed);
        let got_min = single_value(&d.ports, o, &min, env, ecfg);
        let class = expr_class(&min, &d.ports);
        let kind = if value_kind(got) == "xz" || value_kind(&expected[*c][*oi][0]) == "xz" { "xz" } else { "known" };
        let used: Vec<String> =
            d.ports.iter().zip(env).enumerate().filter(|(k, _)| min.uses_var(*k)).map(|(_, (p, v))| format!("{}={}'{}b{}", p.name, p.width, if p.signed { "s" } else { "" }, v.to_bitstr())).collect();
        out.bad.push((
            format!("sim:{who}:{class}:{kind}"),
            format!(
                "{} {}: {} = {} with {} → engine {ename} gives {} ; IEEE {} (minimal failing expression: {} → engine {} ; IEEE {})",
                o.ctx.name(),
                type_text(o.width, o.signed),
                o.name,
                clip(&o.expr.render(&d.ports)),
                clip(&used.join(" ")),
                clip(&got.to_bitstr()),
                clip(&expected[*c][*oi].iter().map(|e| e.to_bitstr()).collect::<Vec<_>>().join(" or ")),
                clip(&min.render(&d.ports)),
                clip(&got_min.as_ref().map(|g| g.to_bitstr()).unwrap_or("?".into())),
                clip(&exp_min[0].to_bitstr()),
            ),
            json!({"case_index": case_index, "design": design.text, "output": o.name, "cycle": c, "engines": list.iter().map(|x| x.0.clone()).collect::<Vec<_>>(),
                   "inputs": d.ports.iter().zip(env).map(|(p, v)| json!({"name": p.name, "value": v.to_bitstr()})).collect::<Vec<_>>(),
                   "engine_value": got.to_bitstr(), "ieee": expected[*c][*oi].iter().map(|e| e.to_bitstr()).collect::<Vec<_>>(),
                   "minimal_expression": min.render(&d.ports), "minimal_ieee": exp_min[0].to_bitstr(), "minimal_engine_value": got_min.as_ref().map(|g| g.to_bitstr()),
                   "minimal_design": OpDesign { ports: d.ports.clone(), outs: vec![OutDecl { expr: min.clone(), name: "o0".into(), ..o.clone() }] }.render()}),
        ));
    }

    // comptime leg: same expressions, operands as constants
    let mut ct_bad: Vec<(String, String, Json)> = vec![];
    for c in (2..envs.len()).take(comptime_sets) {
        let text = d.render_comptime(&envs[c]);
        let t2 = text.clone();
        let names: Vec<String> = d.outs.iter().map(|o| o.name.clone()).collect();
        let vals = fresh_thread(STACK_64M, move || {
            let md = default_metadata();
            let a = analyze_one(&t2, &md).ok()?;
            if !a.error_codes().is_empty() {
                return None;
            }
            let vars = module_vars(&a, "Top");
            Some(names.iter().map(|n| vars.get(n).and_then(|(_, v)| v.first()).and_then(value_to_bv)).collect::<Vec<_>>())
        });
        let Ok(Some(vals)) = vals else {
            out.comptime_status = "rejected_or_panic".into();
            continue;
        };
        out.comptime_status = "ok".into();
        for (oi, o) in d.outs.iter().enumerate() {
            let Some(got) = &vals[oi] else { continue };
            out.comptime_compared += 1;
            let exp = &expected[c][oi];
            if !exp.iter().any(|e| e.bits == got.bits) && ct_bad.len() < 2 {
                ct_bad.push((
                    // not reduced (C17 does that): a select of a signed port anywhere in the tree is
                    // the known C17 defect R8 and takes precedence over the outermost construct
                    format!(
                        "comptime:{}",
                        if o.expr.has(&|x| matches!(x, VE::Sel(i, _, _) if d.ports[*i].signed)) { "select-of-signed-port".to_string() } else { expr_class(&o.expr, &d.ports) }
                    ),
                    format!(
                        "compile-time value of {} = {} differs: analyzer {} ; IEEE {} (C17 judges compile-time evaluation in depth)",
                        o.name,
                        clip(&o.expr.render(&d.ports)),
                        clip(&got.to_bitstr()),
                        clip(&exp[0].to_bitstr())
                    ),
                    json!({"case_index": case_index, "comptime_text": text, "output": o.name, "analyzer": got.to_bitstr(), "ieee": exp.iter().map(|e| e.to_bitstr()).collect::<Vec<_>>()}),
                ));
            }
        }
    }
    out.bad.extend(ct_bad);
    out
}

fn clip(s: &str) -> String {
    if s.chars().count() <= 140 { s.to_string() } else { format!("{}…{}", s.chars().take(60).collect::<String>(), s.chars().rev().take(60).collect::<Vec<_>>().into_iter().rev().collect::<String>()) }
}

pub fn main(args: Args) {
    let run = Arc::new(Run::new(
        args.clone(),
        "exploration",
        "cases = OpGen designs: ports a,b,c of widths 1..300 (half of them at 63/64/65/127/128/129/255/256/1/32/33), signed or unsigned, \
         6 outputs each driven by a generated expression (depth 1..5; all unary/binary operators, selects, concat/repeat, size and type casts, \
         $signed/$unsigned, if-expressions, shifts by wide amounts, bounded ** exponents) in assign / always_comb / always_ff, output width = \
         context (self width, wider, narrower, word boundary); each design runs boundary-biased random 2-state value sets under every engine \
         Config; expected = bv4 with IEEE §11.6/§11.8 sizing; a subset of value sets is also evaluated at compile time (operands as consts). \
         non-trivial = accepted by the analyzer and simulated by >= 4 engines; distinct = distinct design texts",
    ));
    run.assume("refmodel::bv4 implements IEEE 1800-2017 §11 (self-tested at start)");
    run.assume("2-state engines are not compared when the IEEE result contains X/Z (division by zero, 0 ** negative); 4-state engines are");
    run.assume("readings accepted for constructs the sources leave open: signedness of `x as N`, '0/'1 sign-neutral (see notes/C17.md)");
    match bv4::self_test() {
        Ok(n) => run.count("bv4_self_test_checks", n as i64),
        Err(e) => {
            run.inconclusive(format!("bv4 self-test failed: {e}"));
            run.finish(&[]);
        }
    }
    let cc_ok = veryl_simulator::backend::aot_c::cc_available() && args.get("no_cc").is_none();
    if !cc_ok {
        run.inconclusive("cc backend unavailable: the cc engines were not exercised".into());
    }
    let n_outs = args.budget("outputs", 6, 6) as usize;
    let sets = args.budget("value_sets", 20, 50) as usize;
    let comptime_sets = args.budget("comptime_sets", 2, 4) as usize;
    let cc_every = args.budget("cc_every", 5, 4);
    let seed = args.seed;

    if let Some(rp) = &args.replay {
        let v: Json = serde_json::from_str(&std::fs::read_to_string(rp).expect("replay")).unwrap();
        let i = v["case"]["case_index"].as_u64().expect("case_index");
        let s = v["seed"].as_u64().unwrap_or(seed);
        if v["case"]["boundary"].as_bool() == Some(true) {
            let o = fresh_thread(STACK_64M, move || boundary_case(s, i, cc_ok).case);
            report(&run, i, o);
            run.finish(&[]);
        }
        let o = fresh_thread(STACK_64M, move || run_case(s, i, n_outs, sets, cc_ok, comptime_sets));
        report(&run, i, o);
        run.finish(&[]);
    }

    REDUCTIONS_LEFT.store(args.budget("max_reductions", 300, 1500) as i64, std::sync::atomic::Ordering::Relaxed);
    // ---------------- boundary arm
    let nb = args.budget("boundary_designs", 26, 26 * 8);
    let run2 = run.clone();
    par_cases(
        nb,
        args.jobs,
        STACK_64M,
        move |i| boundary_case(seed, i, cc_ok && i % 6 == 0),
        move |i, r| match r {
            Err(p) => {
                run2.count("cases_panicked_outside_engines_not_judged", 1);
                run2.note(format!("boundary case {i}: panic at {}: {}", p.location, p.message.chars().take(200).collect::<String>()));
            }
            Ok(b) => {
                run2.count("boundary_designs_simulated", (b.case.status == "ok") as i64);
                run2.count("shift_count_equals_width_cases", b.shift_eq_width as i64);
                run2.count(&format!("shift_count_equals_width_w{}", b.width), b.shift_eq_width as i64);
                run2.count("shift_count_at_or_above_width_cases", b.shift_ge_width as i64);
                run2.count("dynamic_select_index_equals_msb_cases", b.select_at_msb as i64);
                run2.count("boundary_output_value_comparisons", b.case.comparisons as i64);
                run2.count("boundary_comptime_values_compared", b.case.comptime_compared as i64);
                if b.case.status == "ok" {
                    run2.seen("boundary_widths", &format!("{:03}", b.width));
                }
                report(&run2, 1_000_000 + i, Ok(b.case));
            }
        },
    );

    let n = args.budget("designs", 100, 17_000);
    let run2 = run.clone();
    par_cases(n, args.jobs, STACK_64M, move |i| run_case(seed, i, n_outs, sets, cc_ok && i % cc_every == 0, comptime_sets), move |i, r| report(&run2, i, r));
    run.finish(&[
        ("designs_simulated", 40),
        ("expressions_simulated", 240),
        ("output_value_comparisons", 30_000),
        ("engines", if cc_ok { 11 } else { 8 }),
        ("outputs_wider_than_64", 60),
        ("outputs_wider_than_128", 25),
        ("comptime_values_compared", 200),
        ("constructs", 40),
        ("boundary_designs_simulated", 20),
        ("boundary_widths", 13),
        ("shift_count_equals_width_cases", 2000),
        ("shift_count_equals_width_w64", 150),
        ("shift_count_equals_width_w128", 150),
        ("shift_count_at_or_above_width_cases", 8000),
        ("dynamic_select_index_equals_msb_cases", 300),
        ("boundary_comptime_values_compared", 5000),
    ]);
}

fn report(run: &Run, i: u64, r: Result<CaseOut, vcommon::pool::PanicInfo>) {
    run.eval();
    match r {
        Err(p) => {
            run.count("cases_panicked_outside_engines_not_judged", 1);
            run.note(format!("case {i}: panic at {}: {}", p.location, p.message.chars().take(200).collect::<String>()));
        }
        Ok(o) => {
            if o.status != "ok" {
                let key = o.status.split(':').next().unwrap_or("other").to_string();
                run.count(&format!("not_simulated_{key}"), 1);
                for c in &o.codes {
                    run.seen("reject_codes", c);
                }
                if key == "parse_error" {
                    run.note(format!("case {i}: generator produced unparsable text"));
                }
                return;
            }
            run.count("designs_simulated", 1);
            run.count("expressions_simulated", o.n_exprs as i64);
            run.count("output_value_comparisons", o.comparisons as i64);
            run.count("comparisons_skipped_xz_result_in_2state_engine", o.skipped_xz_2state as i64);
            run.count("comparisons_with_xz_result_in_4state_engine", o.xz_compared_4state as i64);
            run.count("comparisons_accepted_by_alternative_reading_only", o.alt_reading_only as i64);
            run.count("comptime_values_compared", o.comptime_compared as i64);
            run.count("outputs_wider_than_64", o.widths_over_64 as i64);
            run.count("outputs_wider_than_128", o.widths_over_128 as i64);
            run.count("mismatching_outputs_beyond_max_reductions_counted_only", o.not_reduced as i64);
            for e in &o.engines_run {
                run.seen("engines", e);
            }
            for t in &o.tags {
                run.seen("constructs", t);
            }
            for (e, msg) in &o.engine_errors {
                run.count("engine_build_errors", 1);
                run.note(format!("case {i}: engine {e} refused an accepted design: {msg}"));
            }
            if o.engines_run.len() >= 4 {
                run.nontrivial(hash_str(&o.text));
            }
            if i % 9 == 0 {
                run.sample(json!({"case_index": i, "engines": o.engines_run.len(), "comparisons": o.comparisons, "design": o.text}));
            }
            for (sig, what, j) in o.bad {
                if let Ok(path) = std::env::var("VERIF_OPS_DUMP") {
                    use std::io::Write;
                    if let Ok(mut f) = std::fs::OpenOptions::new().create(true).append(true).open(path) {
                        let _ = writeln!(f, "{}", json!({"signature": sig, "what": what, "case": j}));
                    }
                }
                run.seen("mismatch_signatures", &sig);
                run.violation(&sig, &what, j);
            }
        }
    }
}

// ------------------------------------------------------------------------------------------------
// boundary arm: expression widths exactly at word/representation boundaries, run-time shift
// counts and select indices at {0, 1, w-1, w, w+1, 2w, max}, MSB-set / all-ones / alternating
// operands, all four shifts, compare/arith at the same widths, signed and unsigned.

pub const BOUNDARY_WIDTHS: [usize; 13] = [8, 16, 31, 32, 33, 63, 64, 65, 127, 128, 129, 255, 256];

/// (name, 1-bit result, veryl text over ports a b n m)
const BOUNDARY_OUTS: [(&str, bool, &str); 15] = [
    ("shl", false, "a << n"),
    ("shr", false, "a >> n"),
    ("ashl", false, "a <<< n"),
    ("ashr", false, "a >>> n"),
    ("shlm", false, "a << m"),
    ("shrm", false, "a >> m"),
    ("ashrm", false, "a >>> m"),
    ("add", false, "a + b"),
    ("sub", false, "a - b"),
    ("mul", false, "a * b"),
    ("neg", false, "-a"),
    ("lt", true, "a <: b"),
    ("ge", true, "a >= b"),
    ("eq", true, "a == b"),
    ("sel", true, "a[n]"),
];

fn boundary_expected(name: &str, a: &Bv, b: &Bv, n: &Bv, m: &Bv, w: usize, signed: bool) -> Bv {
    use bv4::{BinOp, UnOp, eval_binary, eval_unary};
    let fit = |v: Bv| v.resize(w).as_signed(signed);
    let bit = |v: Bv| v.resize(1).as_signed(false);
    match name {
        "shl" => fit(eval_binary(BinOp::Shl, a, n, Some(w))),
        "shr" => fit(eval_binary(BinOp::Shr, a, n, Some(w))),
        "ashl" => fit(eval_binary(BinOp::Ashl, a, n, Some(w))),
        "ashr" => fit(eval_binary(BinOp::Ashr, a, n, Some(w))),
        "shlm" => fit(eval_binary(BinOp::Shl, a, m, Some(w))),
        "shrm" => fit(eval_binary(BinOp::Shr, a, m, Some(w))),
        "ashrm" => fit(eval_binary(BinOp::Ashr, a, m, Some(w))),
        "add" => fit(eval_binary(BinOp::Add, a, b, Some(w))),
        "sub" => fit(eval_binary(BinOp::Sub, a, b, Some(w))),
        "mul" => fit(eval_binary(BinOp::Mul, a, b, Some(w))),
        "neg" => fit(eval_unary(UnOp::Neg, a, Some(w))),
        "lt" => bit(eval_binary(BinOp::Lt, a, b, None)),
        "ge" => bit(eval_binary(BinOp::Ge, a, b, None)),
        "eq" => bit(eval_binary(BinOp::Eq, a, b, None)),
        // dynamic bit select: out-of-range index reads x (IEEE 11.5.1)
        "sel" => {
            let idx = n.to_u64().unwrap_or(u64::MAX);
            if (idx as usize) < a.width() { Bv::new(vec![a.bit(idx as usize)], false) } else { Bv::xs(1, false) }
        }
        _ => unreachable!(),
    }
}

fn count_class(n: u64, w: usize) -> &'static str {
    let w = w as u64;
    if n == 0 {
        "0"
    } else if n == 1 {
        "1"
    } else if n == w - 1 {
        "w-1"
    } else if n == w {
        "w"
    } else if n == w + 1 {
        "w+1"
    } else if n == 2 * w {
        "2w"
    } else if n > 2 * w {
        "max"
    } else {
        "mid"
    }
}

#[derive(Default)]
pub struct BoundaryOut {
    pub case: CaseOut,
    pub shift_eq_width: u64,
    pub shift_ge_width: u64,
    pub select_at_msb: u64,
    pub width: usize,
}

pub fn boundary_case(seed: u64, i: u64, with_cc: bool) -> BoundaryOut {
    let w = BOUNDARY_WIDTHS[(i as usize / 2) % BOUNDARY_WIDTHS.len()];
    let signed = i % 2 == 1;
    let mut rng = Rng::for_case(seed, "C18boundary", i);
    let ty = type_text(w, signed);
    // design
    let mut text = format!(
        "module Top (\n    i_clk: input clock,\n    i_rst: input reset,\n    a: input {ty},\n    b: input {ty},\n    n: input logic<10>,\n    m: input logic<70>,\n"
    );
    for (name, one, _) in BOUNDARY_OUTS {
        text.push_str(&format!("    {name}: output {},\n", if one { "logic".to_string() } else { ty.clone() }));
    }
    text.push_str(") {\n");
    for (k, (name, _, e)) in BOUNDARY_OUTS.iter().enumerate() {
        match k % 3 {
            0 => text.push_str(&format!("    assign {name} = {e};\n")),
            1 => text.push_str(&format!("    always_comb {{\n        {name} = {e};\n    }}\n")),
            _ => text.push_str(&format!("    always_ff {{\n        if_reset {{\n            {name} = 0;\n        }} else {{\n            {name} = {e};\n        }}\n    }}\n")),
        }
    }
    text.push_str("}\n");
    let port = |n: &str, w: usize, s: bool, o: bool| Port { name: n.into(), width: w, signed: s, output: o };
    let design = Design {
        text: text.clone(),
        top: "Top".into(),
        clock: "i_clk".into(),
        reset: "i_rst".into(),
        inputs: vec![port("a", w, signed, false), port("b", w, signed, false), port("n", 10, false, false), port("m", 70, false, false)],
        outputs: BOUNDARY_OUTS.iter().map(|(n, one, _)| port(n, if *one { 1 } else { w }, !*one && signed, true)).collect(),
        features: vec![],
        has_ff: true,
    };
    // value sets: operand patterns x counts
    let msb = {
        let mut v = Bv::zeros(w, signed);
        v.bits[w - 1] = 1;
        v
    };
    let alt = Bv::new((0..w).map(|k| (k & 1) as u8).collect(), signed);
    let pats: Vec<Bv> = vec![msb.clone(), Bv::ones(w, signed), alt, {
        let mut v = pick_known(&mut rng, w, signed);
        v.bits[w - 1] = 1;
        v
    }, Bv::from_u64(1, w, signed)];
    let counts: Vec<u64> = vec![0, 1, w as u64 - 1, w as u64, w as u64 + 1, 2 * w as u64, 1023];
    let mut envs: Vec<(Bv, Bv, Bv, Bv)> = vec![];
    for (pi, a) in pats.iter().enumerate() {
        for &c in &counts {
            let b = match (pi + c as usize) % 4 {
                0 => msb.clone(),
                1 => Bv::ones(w, signed),
                2 => a.clone(),
                _ => pick_known(&mut rng, w, signed),
            };
            let n = Bv::from_u64(c.min(1023), 10, false);
            // the wide count port: same count, or (for "max") a value whose low 64 bits are 0
            let m = if c == 1023 {
                let mut v = Bv::zeros(70, false);
                v.bits[64 + rng.usize(6)] = 1;
                v
            } else {
                Bv::from_u64(c, 70, false)
            };
            envs.push((a.clone(), b, n, m));
        }
    }
    let mut cycles = vec![];
    for c in 0..envs.len() + 2 {
        let e = &envs[c.saturating_sub(2).min(envs.len() - 1)];
        cycles.push(CycleIn { reset: c < 2, inputs: vec![bv_to_tval(&e.0), bv_to_tval(&e.1), bv_to_tval(&e.2), bv_to_tval(&e.3)] });
    }
    let stim = Stimulus { cycles };
    let mut out = BoundaryOut { width: w, ..Default::default() };
    out.case.text = text.clone();
    out.case.n_exprs = BOUNDARY_OUTS.len();
    let a = match accept(&text) {
        Ok(a) => a,
        Err((s, codes)) => {
            out.case.status = s;
            out.case.codes = codes;
            return out;
        }
    };
    out.case.status = "ok".into();
    out.case.tags = BOUNDARY_OUTS.iter().map(|(n, _, _)| format!("boundary:{n}")).collect();
    let sg = if signed { "signed" } else { "unsigned" };
    let expected: Vec<Vec<Bv>> =
        envs.iter().map(|(a, b, n, m)| BOUNDARY_OUTS.iter().map(|(name, _, _)| boundary_expected(name, a, b, n, m, w, signed)).collect()).collect();
    // (output, count class) → (engines failing, first witness)
    let mut fails: std::collections::BTreeMap<(usize, &'static str), (Vec<String>, String)> = Default::default();
    let mut engines_run = 0usize;
    for (name, cfg) in engines(with_cc) {
        let r = std::panic::catch_unwind(std::panic::AssertUnwindSafe(|| sim_run(&a.ir, &design, &cfg, &stim)));
        let t = match r {
            Ok(Ok(t)) => t,
            Ok(Err(e)) => {
                out.case.engine_errors.push((name, e.lines().next().unwrap_or("").to_string()));
                continue;
            }
            Err(_) => {
                out.case.bad.push((format!("engine-panic:{}:boundary", engine_family(&name)), format!("engine {name} panicked on the boundary design of width {w}"), json!({"boundary": true, "case_index": i, "design": text})));
                continue;
            }
        };
        engines_run += 1;
        out.case.engines_run.push(name.clone());
        for (c, row) in t.steps.iter().enumerate().skip(2) {
            let env = &envs[c - 2];
            let cnt = env.2.to_u64().unwrap_or(0);
            let cc_ = count_class(cnt, w);
            for (oi, (oname, _, _)) in BOUNDARY_OUTS.iter().enumerate() {
                let exp = &expected[c - 2][oi];
                let is_shift = oi < 7;
                if is_shift && cc_ == "w" {
                    out.shift_eq_width += 1;
                }
                if is_shift && matches!(cc_, "w" | "w+1" | "2w" | "max") {
                    out.shift_ge_width += 1;
                }
                if *oname == "sel" && cc_ == "w-1" {
                    out.select_at_msb += 1;
                }
                if exp.has_xz() {
                    if !cfg.use_4state {
                        out.case.skipped_xz_2state += 1;
                        continue;
                    }
                    out.case.xz_compared_4state += 1;
                }
                let got = tval_to_bv(&row[oi], exp.signed);
                out.case.comparisons += 1;
                if got.bits != exp.bits {
                    let cls = if is_shift || *oname == "sel" { cc_ } else { "-" };
                    let e = fails.entry((oi, cls)).or_insert_with(|| {
                        (
                            vec![],
                            format!(
                                "{oname} = {} with a={w}'{}b{} b=…{} n={cnt} m={} → {name} gives {} ; IEEE {}",
                                BOUNDARY_OUTS[oi].2,
                                if signed { "s" } else { "" },
                                clip(&env.0.to_bitstr()),
                                clip(&env.1.to_bitstr()),
                                clip(&env.3.to_bitstr()),
                                clip(&got.to_bitstr()),
                                clip(&exp.to_bitstr())
                            ),
                        )
                    });
                    if !e.0.contains(&name) {
                        e.0.push(name.clone());
                    }
                }
            }
        }
    }
    for ((oi, cls), (engs, what)) in fails {
        let scope = engine_scope(&engs, engines_run);
        // an out-of-range dynamic bit select (IEEE: x) is one class whatever the width
        let sig = if BOUNDARY_OUTS[oi].0 == "sel" && matches!(cls, "w" | "w+1" | "2w" | "max") {
            format!("sim:{scope}:boundary:sel:index-out-of-range")
        } else {
            format!("sim:{scope}:boundary:{}:w{w}:{sg}:count={cls}", BOUNDARY_OUTS[oi].0)
        };
        out.case.bad.push((
            sig,
            format!("width {w} {sg}: {what}"),
            json!({"boundary": true, "case_index": i, "design": text, "engines": engs, "what": what}),
        ));
    }
    // compile-time leg: every value set as constants in one module
    let mut ct = String::from("module Top {\n");
    for (k, (a_, b_, n_, m_)) in envs.iter().enumerate() {
        ct.push_str(&format!("    const a{k}: {ty} = {};\n    const b{k}: {ty} = {};\n", plain_literal(a_).render(&[]), plain_literal(b_).render(&[])));
        ct.push_str(&format!("    const n{k}: logic<10> = {};\n    const m{k}: logic<70> = {};\n", plain_literal(n_).render(&[]), plain_literal(m_).render(&[])));
        for (name, one, e) in BOUNDARY_OUTS {
            if name == "sel" {
                continue;
            }
            let e = e.replace("a", &format!("a{k}")).replace(" b", &format!(" b{k}")).replace(" n", &format!(" n{k}")).replace(" m", &format!(" m{k}"));
            ct.push_str(&format!("    const {name}{k}: {} = {e};\n", if one { "logic".to_string() } else { ty.clone() }));
        }
    }
    ct.push_str("}\n");
    let ct2 = ct.clone();
    let vals = fresh_thread(STACK_64M, move || {
        let md = default_metadata();
        let a = analyze_one(&ct2, &md).ok()?;
        let codes: Vec<String> = a.error_codes().into_iter().filter(|c| !c.contains("unsigned_arith_shift")).collect();
        if !codes.is_empty() {
            return None;
        }
        Some(module_vars(&a, "Top"))
    });
    if let Ok(Some(vars)) = vals {
        out.case.comptime_status = "ok".into();
        let mut seen = std::collections::HashSet::new();
        for (k, env) in envs.iter().enumerate() {
            let cnt = env.2.to_u64().unwrap_or(0);
            for (oi, (name, _, _)) in BOUNDARY_OUTS.iter().enumerate() {
                let Some(got) = vars.get(&format!("{name}{k}")).and_then(|(_, v)| v.first()).and_then(value_to_bv) else { continue };
                out.case.comptime_compared += 1;
                let exp = &expected[k][oi];
                if got.bits != exp.bits {
                    let cls = if oi < 7 { count_class(cnt, w) } else { "-" };
                    if seen.insert((oi, cls)) {
                        out.case.bad.push((
                            format!("comptime:boundary:{name}:w{w}:{sg}:count={cls}"),
                            format!(
                                "width {w} {sg}: compile-time {name} = {} with a={} n={cnt} → analyzer {} ; IEEE {}",
                                BOUNDARY_OUTS[oi].2,
                                clip(&env.0.to_bitstr()),
                                clip(&got.to_bitstr()),
                                clip(&exp.to_bitstr())
                            ),
                            json!({"boundary": true, "case_index": i, "comptime_text": ct.chars().take(4000).collect::<String>()}),
                        ));
                    }
                }
            }
        }
    } else {
        out.case.comptime_status = "rejected_or_panic".into();
    }
    out
}
