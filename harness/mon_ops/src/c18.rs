use vcommon::Args;
pub fn main(_args: Args) {}
