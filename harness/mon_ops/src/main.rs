//! mon_ops — operator monitors (C17 comptime ops, C36 boundary encodings,
//! C18 run-time ops); dispatches on --prop.

use vcommon::Args;

mod c17;
mod c18;
mod c36;
mod common;
mod vexpr;

fn main() {
    vcommon::pool::install_panic_hook();
    let args = Args::parse();
    match args.prop.as_str() {
        "C17" => c17::main(args),
        "C36" => c36::main(args),
        "C18" => c18::main(args),
        "probe" => common::probe(args),
        p => {
            eprintln!("mon_ops: unknown property {p}");
            std::process::exit(2);
        }
    }
}
