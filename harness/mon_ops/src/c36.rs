//! C36 — value encodings at external boundaries are lossless and standard.
//!
//! (a) `Vec<SvLogicVecVal>::from(&Value)` == IEEE 1800 Annex H encoding computed from bv4
//!     digits (0 = a0b0, 1 = a1b0, Z = a0b1, X = a1b1); `Value::from(&[SvLogicVecVal])`
//!     round-trips every bit (both directions), widths 1…300 + word edges.
//! (b) the real C ABI of `libveryl_cosim.so` (built from the working tree, dlopen):
//!     cosim_open / set / get / step_clock / close on pass-through designs, 2- and 4-state,
//!     every width the fixed 4-word buffers can carry; above 128 bits the behaviour is
//!     observed and recorded (the DPI declaration is `logic [127:0]`).
//! (c) waveform dumps: DesignGen designs x stimuli simulated with a `WaveDumper` (VCD into a
//!     buffer parsed with the `vcd` crate, FST into a scratch file read back with `wellen`)
//!     compared signal by signal, time by time (last value carried forward) with
//!     `Simulator::get_var` sampled at the same times in the same run.

use crate::common::{bv_to_value, value_to_bv};
use crate::vexpr::{pick_4state, pick_known};
use refmodel::bv4::{self, Bv, X, Z};
use std::collections::{BTreeMap, HashMap};
use std::ffi::{CString, c_char, c_void};
use std::path::PathBuf;
use std::sync::{Arc, Mutex};
use vcommon::pipeline::{analyze_one, default_metadata};
use vcommon::pool::{STACK_64M, fresh_thread, par_cases};
use vcommon::rng::hash_str;
use vcommon::{Args, Json, Rng, Run, json};
use veryl_analyzer::value::{SvLogicVecVal, Value};
use veryl_simulator::ir::{ModuleVariables, build_ir};
use veryl_simulator::wave_dumper::{SharedVec, WaveDumper};
use veryl_simulator::{Config, Simulator};
use vgen::sim::{Stimulus, stimulus};
use vgen::{Design, GenOpts, generate};

// ------------------------------------------------------------------------------------------------
// (a) conversions

/// Annex H words of a 4-state value: bit i of aval/bval in word i/32.
pub fn annex_h(v: &Bv) -> Vec<(u32, u32)> {
    if MUTANT.load(std::sync::atomic::Ordering::Relaxed) == 1 {
        // sensitivity switch (`--set selftest_mutant=annexh`): Z and X swapped in the oracle
        let swapped = Bv::new(v.bits.iter().map(|d| if *d == X { Z } else if *d == Z { X } else { *d }).collect(), v.signed);
        return annex_h_real(&swapped);
    }
    annex_h_real(v)
}

/// 0 = off, 1 = oracle encodes Z as a1b1 / X as a0b1, 2 = dump samples taken one step late
static MUTANT: std::sync::atomic::AtomicU8 = std::sync::atomic::AtomicU8::new(0);

fn annex_h_real(v: &Bv) -> Vec<(u32, u32)> {
    let n = v.width().div_ceil(32);
    let mut out = vec![(0u32, 0u32); n];
    for (i, d) in v.bits.iter().enumerate() {
        let (a, b) = match *d {
            0 => (0, 0),
            1 => (1, 0),
            Z => (0, 1),
            _ => (1, 1), // X
        };
        out[i / 32].0 |= a << (i % 32);
        out[i / 32].1 |= b << (i % 32);
    }
    out
}

fn digits_of_words(w: &[(u32, u32)]) -> Bv {
    let bits = (0..w.len() * 32)
        .map(|i| {
            let a = (w[i / 32].0 >> (i % 32)) & 1;
            let b = (w[i / 32].1 >> (i % 32)) & 1;
            match (a, b) {
                (0, 0) => 0,
                (1, 0) => 1,
                (0, 1) => Z,
                _ => X,
            }
        })
        .collect();
    Bv::new(bits, false)
}

#[derive(Default)]
struct ConvStats {
    conversions: u64,
    roundtrips: u64,
    xz_values: u64,
    widths: Vec<usize>,
    bad: Vec<(String, String, Json)>,
    sample: Option<Json>,
}

fn conv_case(v: &Bv, st: &mut ConvStats) {
    let w = v.width();
    let value = bv_to_value(v);
    let got: Vec<SvLogicVecVal> = (&value).into();
    let exp = annex_h(v);
    st.conversions += 1;
    if v.has_xz() {
        st.xz_values += 1;
    }
    let got_pairs: Vec<(u32, u32)> = got.iter().map(|x| (x.aval, x.bval)).collect();
    let repr = if w > 64 { "BigUint" } else { "U64" };
    if got_pairs != exp {
        st.bad.push((
            format!("conv:value-to-svlogicvecval:{repr}"),
            format!("{w}'b{} → {:x?} ; Annex H {:x?}", v.to_bitstr(), got_pairs, exp),
            json!({"conv": "to", "value": v.to_bitstr()}),
        ));
    }
    // back
    let back: Value = got.as_slice().into();
    st.roundtrips += 1;
    let ok = back.width() == exp.len() * 32
        && value_to_bv(&back).map(|b| b.bits[..w] == v.bits[..] && b.bits[w..].iter().all(|d| *d == 0)).unwrap_or(false)
        && !back.signed();
    if !ok {
        st.bad.push((
            format!("conv:roundtrip:{repr}"),
            format!("{w}'b{} → words → {:x} (width {})", v.to_bitstr(), back, back.width()),
            json!({"conv": "roundtrip", "value": v.to_bitstr()}),
        ));
    }
    if st.sample.is_none() {
        st.sample = Some(json!({"conversion": format!("{w}'b{}", v.to_bitstr()), "words_aval_bval": format!("{:x?}", got_pairs)}));
    }
    st.widths.push(w);
}

/// Arbitrary words → Value → words must be the identity, and the Value's digits must be
/// the Annex H reading of the words.
fn words_case(rng: &mut Rng, st: &mut ConvStats) {
    let n = 1 + rng.usize(10);
    let words: Vec<(u32, u32)> = (0..n)
        .map(|_| match rng.below(5) {
            0 => (0, 0),
            1 => (u32::MAX, u32::MAX),
            2 => (0, u32::MAX),
            _ => (rng.next_u64() as u32, if rng.bool() { rng.next_u64() as u32 } else { 0 }),
        })
        .collect();
    let sv: Vec<SvLogicVecVal> = words.iter().map(|(a, b)| SvLogicVecVal { aval: *a, bval: *b }).collect();
    let v: Value = sv.as_slice().into();
    let digits = digits_of_words(&words);
    st.roundtrips += 1;
    let repr = if n > 2 { "BigUint" } else { "U64" };
    if value_to_bv(&v).map(|b| b.bits != digits.bits).unwrap_or(true) || v.width() != n * 32 {
        st.bad.push((
            format!("conv:svlogicvecval-to-value:{repr}"),
            format!("words {:x?} → {:x} ; Annex H digits {}", words, v, digits.to_bitstr()),
            json!({"conv": "from", "words": words.iter().map(|(a, b)| vec![*a, *b]).collect::<Vec<_>>()}),
        ));
        return;
    }
    let back: Vec<SvLogicVecVal> = (&v).into();
    let back: Vec<(u32, u32)> = back.iter().map(|x| (x.aval, x.bval)).collect();
    if back != words {
        st.bad.push((
            format!("conv:words-roundtrip:{repr}"),
            format!("words {:x?} → Value → {:x?}", words, back),
            json!({"conv": "words", "words": words.iter().map(|(a, b)| vec![*a, *b]).collect::<Vec<_>>()}),
        ));
    }
}

// ------------------------------------------------------------------------------------------------
// (b) cosim through the C ABI

type Words4 = [SvLogicVecVal; 4];

pub struct CosimLib {
    _lib: libloading::Library,
    open: unsafe extern "C" fn(*const c_char, *const c_char, bool) -> *mut c_void,
    close: unsafe extern "C" fn(*mut c_void),
    step_clock: unsafe extern "C" fn(*mut c_void, *const c_char),
    set: unsafe extern "C" fn(*mut c_void, *const c_char, *const Words4),
    get: unsafe extern "C" fn(*mut c_void, *const c_char, *mut Words4),
}

unsafe impl Send for CosimLib {}
unsafe impl Sync for CosimLib {}

fn harness_target() -> PathBuf {
    PathBuf::from(std::env::var("VERIF_HARNESS_TARGET").unwrap_or_else(|_| "/verif/target/harness".into()))
}

pub enum CosimLoadError {
    /// the .so is stale and cargo did not finish within the budget: the arm is skipped (counted)
    BuildTimeout(String),
    /// cargo failed / dlopen failed: the arm cannot be exercised at all
    Failed(String),
}

/// Build `libveryl_cosim.so` from the working tree (no-op when fresh) and dlopen it.
/// A stale library is never used: if the rebuild does not finish within `timeout_s` the
/// caller skips the arm.
pub fn load_cosim(timeout_s: u64) -> Result<CosimLib, CosimLoadError> {
    let repo = std::env::var("VERIF_REPO").unwrap_or_else(|_| "/repo".into());
    let tdir = harness_target().join("cosim");
    let log = tdir.join("verif_build.log");
    let _ = std::fs::create_dir_all(&tdir);
    let logf = std::fs::File::create(&log).map_err(|e| CosimLoadError::Failed(format!("cannot create {}: {e}", log.display())))?;
    let mut child = std::process::Command::new("cargo")
        .args(["build", "--release", "--offline", "--locked", "-j", "6", "--manifest-path"])
        .arg(format!("{repo}/crates/cosim/Cargo.toml"))
        .arg("--target-dir")
        .arg(&tdir)
        // always the same configuration, wherever the monitor was started from: cargo's
        // config search starts at the working directory (harness/.cargo/config.toml adds
        // `--cfg veryl_verif`, which would rebuild the whole tree on every alternation)
        .current_dir(&repo)
        .env_remove("RUSTFLAGS")
        .stdout(std::process::Stdio::null())
        .stderr(logf)
        .spawn()
        .map_err(|e| CosimLoadError::Failed(format!("cannot run cargo: {e}")))?;
    let deadline = std::time::Instant::now() + std::time::Duration::from_secs(timeout_s);
    let status = loop {
        match child.try_wait() {
            Ok(Some(st)) => break st,
            Ok(None) => {
                if std::time::Instant::now() > deadline {
                    let _ = child.kill();
                    let _ = child.wait();
                    return Err(CosimLoadError::BuildTimeout(format!(
                        "libveryl_cosim.so is stale and `cargo build` of crates/cosim did not finish within {timeout_s} s (--set cosim_build_timeout_s=N to wait longer; the build continues where it stopped next time)"
                    )));
                }
                std::thread::sleep(std::time::Duration::from_millis(300));
            }
            Err(e) => return Err(CosimLoadError::Failed(format!("waiting for cargo: {e}"))),
        }
    };
    if !status.success() {
        let err = std::fs::read_to_string(&log).unwrap_or_default();
        return Err(CosimLoadError::Failed(format!("cargo build of veryl-cosim failed: {}", err.lines().rev().take(4).collect::<Vec<_>>().join(" | "))));
    }
    let so = tdir.join("release").join("libveryl_cosim.so");
    unsafe {
        let lib = libloading::Library::new(&so).map_err(|e| CosimLoadError::Failed(format!("dlopen {}: {e}", so.display())))?;
        macro_rules! sym {
            ($n:literal) => {
                *lib.get($n).map_err(|e| CosimLoadError::Failed(format!("symbol {}: {e}", String::from_utf8_lossy($n))))?
            };
        }
        Ok(CosimLib {
            open: sym!(b"cosim_open\0"),
            close: sym!(b"cosim_close\0"),
            step_clock: sym!(b"cosim_step_clock\0"),
            set: sym!(b"cosim_set\0"),
            get: sym!(b"cosim_get\0"),
            _lib: lib,
        })
    }
}

fn to_words4(v: &Bv) -> Words4 {
    let h = annex_h(v);
    let mut w = [SvLogicVecVal { aval: 0, bval: 0 }; 4];
    for (i, x) in w.iter_mut().enumerate() {
        if let Some((a, b)) = h.get(i) {
            x.aval = *a;
            x.bval = *b;
        }
    }
    w
}

fn words4_pairs(w: &Words4) -> Vec<(u32, u32)> {
    w.iter().map(|x| (x.aval, x.bval)).collect()
}

#[derive(Default)]
struct CosimOut {
    width: usize,
    four_state: bool,
    roundtrips: u64,
    registered_roundtrips: u64,
    wide_observations: Vec<String>,
    bad: Vec<(String, String, Json)>,
    sample: Option<Json>,
}

/// One pass-through design of width `w`: `b = a` (comb), `r <= a` (ff), `hi` = the bits of `a`
/// above 128 (when w > 128), `k` = an all-ones constant output of width w.
fn cosim_case(lib: &CosimLib, dir: &std::path::Path, idx: u64, w: usize, four_state: bool, rng: &mut Rng, values: usize) -> CosimOut {
    let mut out = CosimOut { width: w, four_state, ..Default::default() };
    let hi = if w > 128 { format!("    hi: output logic<{}>,\n", w - 128) } else { String::new() };
    let hi_assign = if w > 128 { format!("    assign hi = a[{}:128];\n", w - 1) } else { String::new() };
    let text = format!(
        "module Top (\n    i_clk: input clock,\n    a: input logic<{w}>,\n    b: output logic<{w}>,\n    r: output logic<{w}>,\n    k: output logic<{w}>,\n{hi}) {{\n    assign b = a;\n    assign k = '1;\n{hi_assign}    always_ff (i_clk) {{\n        r = a;\n    }}\n}}\n"
    );
    let path = dir.join(format!("cosim_{idx}_{w}_{}.veryl", four_state as u8));
    if std::fs::write(&path, &text).is_err() {
        return out;
    }
    let cpath = CString::new(path.to_str().unwrap()).unwrap();
    let top = CString::new("Top").unwrap();
    let (na, nb, nr, nk, nhi, nclk) =
        (CString::new("a").unwrap(), CString::new("b").unwrap(), CString::new("r").unwrap(), CString::new("k").unwrap(), CString::new("hi").unwrap(), CString::new("i_clk").unwrap());
    unsafe {
        let h = (lib.open)(cpath.as_ptr(), top.as_ptr(), four_state);
        if h.is_null() {
            return out;
        }
        for vi in 0..values {
            // the value the caller hands over: always 128 bits of buffer
            let bw = w.min(128);
            let v = if four_state && rng.chance(2, 3) { pick_4state(rng, bw, false) } else { pick_known(rng, bw, false) };
            let mut buf = to_words4(&v);
            // garbage above the port width must be ignored (value.trunc in Simulator::set)
            if w < 128 && rng.bool() {
                let i = w / 32;
                for (j, x) in buf.iter_mut().enumerate() {
                    if j > i {
                        x.aval = rng.next_u64() as u32;
                        if four_state {
                            x.bval = rng.next_u64() as u32;
                        }
                    } else if j == i && w % 32 != 0 {
                        x.aval |= (rng.next_u64() as u32) << (w % 32);
                    }
                }
            }
            (lib.set)(h, na.as_ptr(), &buf);
            let exp = {
                let mut e = to_words4(&v);
                if w > 128 {
                    e = to_words4(&v.resize(128));
                }
                words4_pairs(&e)
            };
            for (port, registered) in [(&nb, false), (&nr, true)] {
                if registered {
                    (lib.step_clock)(h, nclk.as_ptr());
                }
                let mut got = [SvLogicVecVal { aval: 0xdead_beef, bval: 0xdead_beef }; 4];
                (lib.get)(h, port.as_ptr(), &mut got);
                let g = words4_pairs(&got);
                if w <= 128 {
                    out.roundtrips += 1;
                    if registered {
                        out.registered_roundtrips += 1;
                    }
                }
                if g != exp {
                    let cls = if w <= 128 { "port<=128" } else { "low128-of-wide-port" };
                    out.bad.push((
                        format!("cosim:{}:{cls}:{}", if registered { "set-step-get" } else { "set-get" }, if four_state { "4state" } else { "2state" }),
                        format!("width {w}: set a = {}'b{} → get {} = {:x?} ; expected {:x?}", bw, v.to_bitstr(), if registered { "r" } else { "b" }, g, exp),
                        json!({"cosim": true, "width": w, "four_state": four_state, "value": v.to_bitstr(), "registered": registered, "got": format!("{g:x?}"), "expected": format!("{exp:x?}")}),
                    ));
                }
                if out.sample.is_none() {
                    out.sample = Some(json!({"cosim_width": w, "four_state": four_state, "set_a": v.to_bitstr(), "get_b": format!("{g:x?}")}));
                }
            }
            if w > 128 && vi == 0 {
                // what happens to the part of the port the ABI cannot carry
                let mut got = [SvLogicVecVal { aval: 0xdead_beef, bval: 0xdead_beef }; 4];
                (lib.get)(h, nhi.as_ptr(), &mut got);
                let hi_w = w - 128;
                let hi_v = digits_of_words(&words4_pairs(&got)).resize(hi_w.min(128));
                let mut gk = [SvLogicVecVal { aval: 0, bval: 0 }; 4];
                (lib.get)(h, nk.as_ptr(), &mut gk);
                let ones = words4_pairs(&gk).iter().all(|(a, b)| *a == u32::MAX && *b == 0);
                out.bad.push((
                    "cosim:wide-port-truncated".into(),
                    format!(
                        "port width {w} > 128: cosim_open accepts the design, cosim_set drives only bits 127:0 (a[{}:128] reads {}) and cosim_get returns only bits 127:0 of the {w}-bit output ({}), without any error — the upper {} bits cannot cross the C ABI ([svLogicVecVal; 4])",
                        w - 1,
                        if hi_v.bits.iter().all(|d| *d == 0) { "all 0".to_string() } else { hi_v.to_bitstr() },
                        if ones { "four all-ones words for an all-ones value" } else { "unexpected words" },
                        hi_w
                    ),
                    json!({"cosim": true, "width": w, "four_state": four_state, "wide": true}),
                ));
                out.wide_observations.push(format!(
                    "width {w}: after cosim_set(a, 128 bits) the design sees a[{}:128] = {} ; cosim_get of the all-ones {w}-bit output k returns {} (the upper {} bits are not reported)",
                    w - 1,
                    if hi_v.bits.iter().all(|d| *d == 0) { "all 0".to_string() } else { hi_v.to_bitstr() },
                    if ones { "4 all-ones words" } else { "something else" },
                    hi_w
                ));
            }
        }
        (lib.close)(h);
    }
    let _ = std::fs::remove_file(&path);
    out
}

// ------------------------------------------------------------------------------------------------
// (c) waveform dumps

#[derive(Clone, Debug)]
struct Sampled {
    /// VCD scope path below (and including) the top module
    scope: Vec<String>,
    name: String,
    /// path for Simulator::get_var
    get_path: String,
    width: usize,
    is_array_elem0: bool,
}

fn sanitize(name: &str) -> String {
    name.replace("::<", "_").replace('>', "").replace("::", "_")
}

fn collect_vars(m: &ModuleVariables, scope: &mut Vec<String>, prefix: &str, out: &mut Vec<Sampled>) {
    scope.push(sanitize(&m.name.to_string()));
    for v in m.variables.values() {
        let p = v.path.to_string();
        let n = v.current_values.len();
        out.push(Sampled {
            scope: scope.clone(),
            name: if n > 1 { format!("{}[0]", sanitize(&p)) } else { sanitize(&p) },
            get_path: format!("{prefix}{p}"),
            width: v.width,
            is_array_elem0: n > 1,
        });
    }
    for c in &m.children {
        collect_vars(c, scope, &format!("{prefix}{}.", c.name), out);
    }
    scope.pop();
}

#[derive(Default)]
pub struct DumpOut {
    pub status: String,
    pub format: String,
    pub config: String,
    pub signals: usize,
    pub signals_skipped_ambiguous_name: usize,
    pub times: usize,
    pub samples_compared: u64,
    pub samples_with_xz: u64,
    pub changes_in_dump: u64,
    pub bad: Vec<(String, String, Json)>,
    pub design_text: String,
}

fn vcd_digit(v: vcd::Value) -> u8 {
    match v {
        vcd::Value::V0 => 0,
        vcd::Value::V1 => 1,
        vcd::Value::X => X,
        vcd::Value::Z => Z,
    }
}

/// Run `stim` on `design` under `cfg` with a dumper attached; sample every variable with
/// `Simulator::get_var` after every step.  Returns (sampled variable list, per-time samples).
#[allow(clippy::type_complexity)]
fn run_with_dump(
    ir: &veryl_analyzer::ir::Ir,
    design: &Design,
    cfg: &Config,
    stim: &Stimulus,
    dumper: WaveDumper,
) -> Result<(Vec<Sampled>, Vec<(u64, Vec<Option<Bv>>)>), String> {
    let sim_ir = build_ir(ir, design.top.as_str().into(), cfg).map_err(|e| format!("{e}"))?;
    let mut sim = Simulator::new(sim_ir, Some(dumper));
    let mut vars = vec![];
    collect_vars(&sim.ir.module_variables, &mut vec![], "", &mut vars);
    let clk = sim.get_clock(&design.clock).ok_or("no clock port")?;
    let rst = sim.get_reset(&design.reset);
    let mut samples = vec![];
    for cyc in &stim.cycles {
        for (p, v) in design.inputs.iter().zip(cyc.inputs.iter()) {
            sim.set(&p.name, v.to_value(p.signed));
        }
        // `step_reset` = assert level, step (which dumps), deassert level; the sample must be
        // taken while the state is the dumped one, so the three parts are done here
        let in_reset = match (&rst, cyc.reset) {
            (Some(r), true) => {
                if let Some(id) = r.var_id() {
                    sim.set_reset_level(&id, true);
                }
                sim.step_in_reset(&clk, r, true);
                true
            }
            _ => {
                sim.step(&clk);
                false
            }
        };
        // the step dumped all variables at `sim.time`; sample the same state now
        let t = if MUTANT.load(std::sync::atomic::Ordering::Relaxed) == 2 { sim.time.saturating_sub(10) } else { sim.time };
        let row: Vec<Option<Bv>> = vars.iter().map(|s| sim.get_var(&s.get_path).and_then(|v| value_to_bv(&v))).collect();
        samples.push((t, row));
        if in_reset && let Some(id) = rst.as_ref().and_then(|r| r.var_id()) {
            sim.set_reset_level(&id, false);
        }
        sim.time += 10;
    }
    drop(sim); // finishes an FST file
    Ok((vars, samples))
}

fn compare_dump(
    out: &mut DumpOut,
    vars: &[Sampled],
    samples: &[(u64, Vec<Option<Bv>>)],
    // per variable index: time-ordered (time, value) changes; None = signal not found in the dump
    changes: &[Option<Vec<(u64, Bv)>>],
) {
    for (vi, s) in vars.iter().enumerate() {
        let Some(ch) = &changes[vi] else {
            out.bad.push((
                format!("dump:{}:signal-missing", out.format),
                format!("variable {}/{} is not declared in the {} dump", s.scope.join("/"), s.name, out.format),
                json!({"dump": true, "design": out.design_text, "signal": s.name}),
            ));
            continue;
        };
        if ch.len() == 1 && ch[0].0 == u64::MAX - 1 {
            out.signals_skipped_ambiguous_name += 1;
            continue;
        }
        out.signals += 1;
        out.changes_in_dump += ch.len() as u64;
        let mut k = 0;
        let mut cur: Option<&Bv> = None;
        for (t, row) in samples {
            while k < ch.len() && ch[k].0 <= *t {
                cur = Some(&ch[k].1);
                k += 1;
            }
            let Some(exp) = &row[vi] else { continue };
            out.samples_compared += 1;
            if exp.has_xz() {
                out.samples_with_xz += 1;
            }
            let ok = match cur {
                None => false,
                // VCD drops leading zeros / extends x,z: both sides are compared at the declared width
                Some(c) => c.bits == exp.bits,
            };
            if !ok {
                if out.bad.len() < 3 {
                    out.bad.push((
                        format!("dump:{}:{}:value-differs", out.format, out.config),
                        format!(
                            "{} {}/{} at time {t}: dump has {} but Simulator::get_var returns {}",
                            out.format,
                            s.scope.join("/"),
                            s.name,
                            cur.map(|c| c.to_bitstr()).unwrap_or("<no value yet>".into()),
                            exp.to_bitstr()
                        ),
                        json!({"dump": true, "design": out.design_text, "signal": s.name, "time": t}),
                    ));
                }
                break;
            }
        }
    }
}

/// VCD text → per (scope path, name): width + changes.
#[allow(clippy::type_complexity)]
fn parse_vcd(text: &[u8]) -> Result<HashMap<(Vec<String>, String), Vec<(u32, Vec<(u64, Vec<u8>)>)>>, String> {
    let mut p = vcd::Parser::new(text);
    let header = p.parse_header().map_err(|e| format!("vcd header: {e}"))?;
    let mut by_code: HashMap<vcd::IdCode, Vec<(u64, Vec<u8>)>> = HashMap::new();
    let mut decl: Vec<((Vec<String>, String), u32, vcd::IdCode)> = vec![];
    fn walk(items: &[vcd::ScopeItem], path: &mut Vec<String>, decl: &mut Vec<((Vec<String>, String), u32, vcd::IdCode)>) {
        for it in items {
            match it {
                vcd::ScopeItem::Scope(s) => {
                    path.push(s.identifier.clone());
                    walk(&s.items, path, decl);
                    path.pop();
                }
                vcd::ScopeItem::Var(v) => {
                    let name = match &v.index {
                        None => v.reference.clone(),
                        Some(ix) => format!("{}{}", v.reference, ix),
                    };
                    decl.push(((path.clone(), name), v.size, v.code));
                }
                _ => {}
            }
        }
    }
    walk(&header.items, &mut vec![], &mut decl);
    let mut time = 0u64;
    for cmd in p {
        match cmd.map_err(|e| format!("vcd body: {e}"))? {
            vcd::Command::Timestamp(t) => time = t,
            vcd::Command::ChangeVector(code, v) => by_code.entry(code).or_default().push((time, v.iter().map(vcd_digit).collect())),
            vcd::Command::ChangeScalar(code, v) => by_code.entry(code).or_default().push((time, vec![vcd_digit(v)])),
            _ => {}
        }
    }
    let mut out: HashMap<(Vec<String>, String), Vec<(u32, Vec<(u64, Vec<u8>)>)>> = HashMap::new();
    for (key, size, code) in decl {
        out.entry(key).or_default().push((size, by_code.get(&code).cloned().unwrap_or_default()));
    }
    Ok(out)
}

/// MSB-first VCD digits → Bv of the declared width (VCD left-extension rule: 0 for 0/1, x for x, z for z).
fn vcd_value(digits_msb_first: &[u8], width: usize) -> Bv {
    let mut bits: Vec<u8> = digits_msb_first.iter().rev().copied().collect();
    let fill = match digits_msb_first.first() {
        Some(&X) => X,
        Some(&Z) => Z,
        _ => 0,
    };
    bits.resize(width.max(1), fill);
    Bv::new(bits, false)
}

pub fn dump_case(seed: u64, i: u64, cycles: usize, scratch: &std::path::Path) -> Vec<DumpOut> {
    let mut rng = Rng::for_case(seed, "C36dump", i);
    let opts = match rng.below(4) {
        0 => GenOpts::basic(),
        1 => GenOpts { unreset_ffs: true, ..GenOpts::default() },
        2 => GenOpts::wide(),
        _ => GenOpts::default(),
    };
    let d = generate(&mut rng, &opts);
    let stim = stimulus(&d, &mut rng, cycles);
    let md = default_metadata();
    let a = match analyze_one(&d.text, &md) {
        Ok(a) if a.error_codes().is_empty() => a,
        Ok(a) => return vec![DumpOut { status: format!("rejected: {}", a.error_codes().join(",")), ..Default::default() }],
        Err(e) => return vec![DumpOut { status: format!("parse_error: {e:?}"), ..Default::default() }],
    };
    let mut outs = vec![];
    let configs = [
        ("interp-2state", Config::default()),
        ("interp-4state", Config { use_4state: true, ..Default::default() }),
        ("jit-2state", Config { use_jit: true, ..Default::default() }),
        ("jit-4state", Config { use_jit: true, use_4state: true, ..Default::default() }),
    ];
    // two configurations per design, rotating
    for k in 0..2 {
        let (cname, cfg) = &configs[((i as usize) * 2 + k) % 4];
        for format in ["vcd", "fst"] {
            if format == "fst" && (i + k as u64) % 2 == 1 {
                continue;
            }
            let mut out = DumpOut { format: format.into(), config: cname.to_string(), design_text: d.text.clone(), ..Default::default() };
            let buf = Arc::new(Mutex::new(Vec::<u8>::new()));
            let fst_path = scratch.join(format!("d{i}_{k}.fst"));
            let dumper = if format == "vcd" { WaveDumper::new_vcd(Box::new(SharedVec(buf.clone()))) } else { WaveDumper::new_fst(fst_path.to_str().unwrap()) };
            // an engine panic (e.g. inside Cranelift) is C02's business: the dump is not judged
            let r = std::panic::catch_unwind(std::panic::AssertUnwindSafe(|| run_with_dump(&a.ir, &d, cfg, &stim, dumper)));
            let r = match r {
                Ok(r) => r,
                Err(_) => {
                    out.status = "engine_panic".into();
                    outs.push(out);
                    continue;
                }
            };
            let (vars, samples) = match r {
                Ok(x) => x,
                Err(e) => {
                    out.status = format!("sim_build_error: {}", e.lines().next().unwrap_or(""));
                    outs.push(out);
                    continue;
                }
            };
            out.times = samples.len();
            // names that occur twice in one scope cannot be matched by name
            let mut name_count: HashMap<(Vec<String>, String), usize> = HashMap::new();
            for s in &vars {
                *name_count.entry((s.scope.clone(), s.name.clone())).or_default() += 1;
            }
            let keep: Vec<usize> = (0..vars.len()).filter(|&k| name_count[&(vars[k].scope.clone(), vars[k].name.clone())] == 1).collect();
            out.signals_skipped_ambiguous_name = vars.len() - keep.len();
            let vars: Vec<Sampled> = keep.iter().map(|&k| vars[k].clone()).collect();
            let samples: Vec<(u64, Vec<Option<Bv>>)> = samples.into_iter().map(|(t, row)| (t, keep.iter().map(|&k| row[k].clone()).collect())).collect();
            outs.push(finish_dump(out, format, &buf, &fst_path, vars, samples));
            let _ = std::fs::remove_file(&fst_path);
        }
    }
    outs
}

#[allow(clippy::type_complexity)]
fn finish_dump(
    mut out: DumpOut,
    format: &str,
    buf: &Arc<Mutex<Vec<u8>>>,
    fst_path: &std::path::Path,
    vars: Vec<Sampled>,
    samples: Vec<(u64, Vec<Option<Bv>>)>,
) -> DumpOut {
    let changes: Vec<Option<Vec<(u64, Bv)>>> = if format == "vcd" {
        let text = buf.lock().unwrap().clone();
        match parse_vcd(&text) {
            Err(e) => {
                out.bad.push(("dump:vcd:unparsable".into(), format!("the vcd crate rejects the dump: {e}"), json!({"dump": true, "design": out.design_text})));
                out.status = "ok".into();
                return out;
            }
            Ok(map) => vars
                .iter()
                .map(|s| {
                    map.get(&(s.scope.clone(), s.name.clone())).and_then(|v| {
                        if v.len() != 1 {
                            return None;
                        }
                        let (size, ch) = &v[0];
                        if *size as usize != s.width {
                            return Some(vec![(u64::MAX, Bv::zeros(1, false))]); // width mismatch → never matches
                        }
                        Some(ch.iter().map(|(t, d)| (*t, vcd_value(d, s.width))).collect())
                    })
                })
                .collect(),
        }
    } else {
        match read_fst(fst_path, &vars) {
            Err(e) => {
                out.bad.push(("dump:fst:unreadable".into(), format!("wellen cannot read the FST dump: {e}"), json!({"dump": true, "design": out.design_text})));
                out.status = "ok".into();
                return out;
            }
            Ok(c) => c,
        }
    };
    out.status = "ok".into();
    compare_dump(&mut out, &vars, &samples, &changes);
    out
}

fn read_fst(path: &std::path::Path, vars: &[Sampled]) -> Result<Vec<Option<Vec<(u64, Bv)>>>, String> {
    let mut wave = wellen::simple::read(path).map_err(|e| format!("{e}"))?;
    let mut by_name: HashMap<String, Vec<(wellen::SignalRef, Option<u32>)>> = HashMap::new();
    {
        let h = wave.hierarchy();
        for vr in h.all_vars().map(|r| &h[r]) {
            // wellen turns `name[i]` into a pseudo scope `name` with a variable `[i]`
            let mut name = vr.full_name(h).replace(".[", "[");
            if let Some(ix) = vr.index() {
                // the dumper names array elements `name[i]`; wellen splits the suffix off as a bit index
                if ix.msb() == ix.lsb() {
                    name.push_str(&format!("[{}]", ix.msb()));
                } else {
                    name.push_str(&format!("[{}:{}]", ix.msb(), ix.lsb()));
                }
            }
            by_name.entry(name).or_default().push((vr.signal_ref(), vr.length(h)));
        }
    }
    let refs: Vec<wellen::SignalRef> = by_name.values().flat_map(|v| v.iter().map(|x| x.0)).collect();
    wave.load_signals(&refs);
    let times: Vec<u64> = wave.time_table().to_vec();
    let mut out = vec![];
    for s in vars {
        let full = format!("{}.{}", s.scope.join("."), s.name).replace(".[", "[");
        let Some(cands) = by_name.get(&full) else {
            // wellen re-derives a bit range for `name[i]` elements wider than one bit
            // (`r0[0]` of width 2 shows up as `r0[1:0]`): such elements cannot be told
            // apart by name; they are skipped and counted, not reported
            let base = full.split('[').next().unwrap_or("").to_string();
            if s.is_array_elem0 && by_name.keys().any(|k| k.split('[').next() == Some(base.as_str())) {
                out.push(Some(vec![(u64::MAX - 1, Bv::zeros(1, false))]));
                continue;
            }
            if std::env::var("VERIF_OPS_DEBUG").is_ok() {
                eprintln!("fst: {full} not found; similar: {:?}", by_name.keys().filter(|k| k.contains(&base)).collect::<Vec<_>>());
            }
            out.push(None);
            continue;
        };
        if cands.len() != 1 {
            out.push(None);
            continue;
        }
        let Some(sig) = wave.get_signal(cands[0].0) else {
            out.push(None);
            continue;
        };
        let mut ch = vec![];
        for (idx, t) in times.iter().enumerate() {
            if let Some(off) = sig.get_offset(idx as u32) {
                if !off.time_match {
                    continue;
                }
                let v = sig.get_value_at(&off, off.elements - 1);
                if let Some(bits) = v.to_bit_string() {
                    let digits: Vec<u8> = bits
                        .chars()
                        .map(|c| match c {
                            '0' => 0,
                            '1' => 1,
                            'z' | 'Z' => Z,
                            _ => X,
                        })
                        .collect();
                    ch.push((*t, vcd_value(&digits, s.width)));
                }
            }
        }
        out.push(Some(ch));
    }
    Ok(out)
}

// ------------------------------------------------------------------------------------------------

pub fn main(args: Args) {
    let run = Arc::new(Run::new(
        args.clone(),
        "exploration",
        "(a) conversions: every width 1..300 (plus 32/64/65/128/129-bit edges) x boundary-biased random 4-state values through \
         Vec<SvLogicVecVal>::from(&Value) and back, and random aval/bval words through Value::from and back; (b) cosim: pass-through designs \
         (comb b=a, registered r<=a) of widths 1..128 driven through the dlopen'ed C ABI in 2- and 4-state mode, plus widths 129..300 observed; \
         (c) dumps: DesignGen designs (basic/default/wide/unreset-FF) x random reset+input stimuli under interpreter/JIT x 2/4-state with a VCD \
         (in-memory, parsed by the vcd crate) or FST (scratch file, read by wellen) dumper, every variable at every dumped time against \
         Simulator::get_var. non-trivial = a conversion of a value with >=1 X/Z digit, a cosim round trip, or a dump with >=1 value change after \
         time 0; distinct = distinct values / designs",
    ));
    run.assume("bv4 digits ↔ veryl (payload, mask_xz): xz=0 → payload bit, xz=1 & payload=0 → X, xz=1 & payload=1 → Z (value.rs new_x/new_z/to_vcd_value)");
    run.assume("the vcd and wellen crates parse dumps correctly; VCD left-extension (0 / x / z) is applied to shortened vectors");
    run.assume("dump samples are compared for scalars and element [0] of unpacked arrays (Simulator::get_var reads element 0 only); names that occur twice in one scope are skipped and counted");
    match bv4::self_test() {
        Ok(n) => run.count("bv4_self_test_checks", n as i64),
        Err(e) => {
            run.inconclusive(format!("bv4 self-test failed: {e}"));
            run.finish(&[]);
        }
    }
    match args.get("selftest_mutant") {
        Some("annexh") => MUTANT.store(1, std::sync::atomic::Ordering::Relaxed),
        Some("stale-sample") => MUTANT.store(2, std::sync::atomic::Ordering::Relaxed),
        _ => {}
    }
    if args.get("selftest_mutant").is_some() {
        run.inconclusive("selftest_mutant: the oracle is deliberately broken; this run can only show that the monitor fires".into());
    }
    let seed = args.seed;
    let scratch = PathBuf::from(format!("/verif/scratch/c36_{}_{}", std::process::id(), seed));
    let _ = std::fs::create_dir_all(&scratch);

    if let Some(rp) = &args.replay {
        let v: Json = serde_json::from_str(&std::fs::read_to_string(rp).expect("replay file")).unwrap();
        replay(&run, &v["case"], &scratch);
        let _ = std::fs::remove_dir_all(&scratch);
        run.finish(&[]);
    }
    let arms = args.get("arms").unwrap_or("all").to_string();
    let on = |a: &str| arms == "all" || arms.split(',').any(|x| x == a);

    // ---------------- (a)
    if on("conv") {
        let n = args.budget("conversions", 20_000, 5_000_000);
        let chunk = 500u64;
        let run2 = run.clone();
        par_cases(
            n.div_ceil(chunk),
            args.jobs,
            STACK_64M,
            move |i| {
                let mut rng = Rng::for_case(seed, "C36conv", i);
                let mut st = ConvStats::default();
                for k in 0..chunk {
                    let idx = i * chunk + k;
                    let w = if idx % 11 == 10 {
                        *rng.pick(&[32usize, 33, 63, 64, 65, 95, 96, 97, 127, 128, 129, 255, 256, 257])
                    } else {
                        1 + ((idx - idx / 11) % 300) as usize
                    };
                    let s = rng.bool();
                    let v = if rng.chance(3, 4) { pick_4state(&mut rng, w, s) } else { pick_known(&mut rng, w, s) };
                    conv_case(&v, &mut st);
                    if k % 4 == 0 {
                        words_case(&mut rng, &mut st);
                    }
                }
                st
            },
            move |i, r| match r {
                Err(p) => {
                    // the conversions are total functions: a panic is a lost value
                    run2.violation("conv:panic", &format!("conversion panicked: {} at {}", p.message, p.location), json!({"conv_chunk": i}));
                }
                Ok(st) => {
                    run2.evals(st.conversions + st.roundtrips);
                    run2.count("conversions", st.conversions as i64);
                    run2.count("roundtrips", st.roundtrips as i64);
                    run2.count("conversions_of_values_with_xz", st.xz_values as i64);
                    for w in st.widths {
                        run2.seen("conversion_widths", &format!("{w:03}"));
                    }
                    run2.nontrivial(hash_str(&format!("conv{i}")));
                    if let Some(s) = st.sample {
                        if i % 13 == 0 {
                            run2.sample(s);
                        }
                    }
                    for (sig, what, j) in st.bad {
                        run2.violation(&sig, &what, j);
                    }
                }
            },
        );
    }

    // ---------------- (b)
    let mut cosim_skipped = false;
    if on("cosim") {
        match load_cosim(args.budget("cosim_build_timeout_s", 150, 5400)) {
            Err(CosimLoadError::Failed(e)) => {
                run.inconclusive(format!("cosim C ABI not exercised: {e}"));
            }
            Err(CosimLoadError::BuildTimeout(e)) => {
                // requested behaviour: do not block the quick tier on a full rebuild
                cosim_skipped = true;
                run.count("cosim_arm_skipped_library_stale", 1);
                run.set_extra("cosim_arm", json!(format!("SKIPPED: {e}")));
                run.note(format!("cosim arm skipped: {e}"));
            }
            Ok(lib) => {
                let lib = Arc::new(lib);
                let n = args.budget("cosim_designs", 60, 1200);
                let values = args.budget("cosim_values", 12, 40) as usize;
                let run2 = run.clone();
                let sc = scratch.clone();
                par_cases(
                    n,
                    args.jobs.min(8),
                    STACK_64M,
                    move |i| {
                        let mut rng = Rng::for_case(seed, "C36cosim", i);
                        let w = match i % 6 {
                            0 => *rng.pick(&[1usize, 31, 32, 33, 63, 64, 65, 95, 96, 97, 127, 128]),
                            5 => 129 + rng.usize(172),
                            _ => 1 + rng.usize(128),
                        };
                        let four = i % 2 == 1;
                        cosim_case(&lib, &sc, i, w, four, &mut rng, values)
                    },
                    move |i, r| match r {
                        Err(p) => {
                            run2.count("cosim_cases_panicked_not_judged", 1);
                            run2.note(format!("cosim case {i}: panic {} at {}", p.message, p.location));
                        }
                        Ok(o) => {
                            run2.evals(o.roundtrips);
                            run2.count("cosim_roundtrips", o.roundtrips as i64);
                            run2.count("cosim_registered_roundtrips", o.registered_roundtrips as i64);
                            if o.width <= 128 {
                                run2.seen("cosim_widths", &format!("{:03}", o.width));
                                run2.count(if o.four_state { "cosim_designs_4state" } else { "cosim_designs_2state" }, 1);
                                run2.nontrivial(hash_str(&format!("cosim{}{}", o.width, o.four_state)));
                            } else {
                                run2.count("cosim_wide_ports_observed", 1);
                                for w in &o.wide_observations {
                                    run2.note(format!("cosim >128 bits: {w}"));
                                }
                            }
                            if let Some(s) = o.sample {
                                if i % 7 == 0 {
                                    run2.sample(s);
                                }
                            }
                            for (sig, what, j) in o.bad {
                                run2.violation(&sig, &what, j);
                            }
                        }
                    },
                );
            }
        }
    }

    // ---------------- (c)
    if on("dump") {
        let n = args.budget("dump_designs", 30, 2000);
        let cycles = args.budget("cycles", 30, 120) as usize;
        let run2 = run.clone();
        let sc = scratch.clone();
        par_cases(
            n,
            args.jobs,
            STACK_64M,
            move |i| dump_case(seed, i, cycles, &sc),
            move |i, r| match r {
                Err(p) => {
                    run2.count("dump_cases_panicked_not_judged", 1);
                    run2.note(format!("dump case {i}: panic {} at {}", p.message.chars().take(160).collect::<String>(), p.location));
                }
                Ok(outs) => {
                    for o in outs {
                        report_dump(&run2, i, o);
                    }
                }
            },
        );
    }
    let _ = std::fs::remove_dir_all(&scratch);
    let mut floors: Vec<(&str, i64)> = vec![];
    if on("conv") {
        floors.extend([("conversions", 6000), ("conversions_of_values_with_xz", 3000), ("conversion_widths", 300)]);
    }
    if on("cosim") && !cosim_skipped {
        floors.extend([("cosim_roundtrips", 400), ("cosim_registered_roundtrips", 200), ("cosim_widths", 20), ("cosim_designs_4state", 8), ("cosim_wide_ports_observed", 3)]);
    }
    if on("dump") {
        floors.extend([("dumps_compared", 10), ("dump_samples_compared", 3000), ("dump_value_changes", 500), ("dump_formats", 2), ("dump_configs", 4)]);
    }
    run.finish(&floors);
}

fn report_dump(run: &Run, i: u64, o: DumpOut) {
    run.eval();
    if o.status != "ok" {
        let key = o.status.split(':').next().unwrap_or("other").to_string();
        run.count(&format!("dump_not_judged_{key}"), 1);
        return;
    }
    run.count("dumps_compared", 1);
    run.count("dump_signals_compared", o.signals as i64);
    run.count("dump_signals_skipped_ambiguous_name", o.signals_skipped_ambiguous_name as i64);
    run.count("dump_samples_compared", o.samples_compared as i64);
    run.count("dump_samples_with_xz", o.samples_with_xz as i64);
    run.count("dump_value_changes", o.changes_in_dump as i64);
    run.seen("dump_formats", &o.format);
    run.seen("dump_configs", &o.config);
    if o.changes_in_dump > o.signals as u64 {
        run.nontrivial(hash_str(&format!("{}{}{}", o.design_text, o.format, o.config)));
    }
    if i % 5 == 0 {
        run.sample(json!({"dump_case": i, "format": o.format, "config": o.config, "signals": o.signals, "times": o.times, "samples_compared": o.samples_compared, "design": o.design_text}));
    }
    for (sig, what, mut j) in o.bad {
        j["case_index"] = json!(i);
        run.violation(&sig, &what, j);
    }
}

fn replay(run: &Run, case: &Json, scratch: &std::path::Path) {
    run.eval();
    if let Some(v) = case["value"].as_str().filter(|_| case["conv"].is_string()) {
        let mut st = ConvStats::default();
        conv_case(&Bv::from_bitstr(v), &mut st);
        for (sig, what, j) in st.bad {
            run.violation(&sig, &what, j);
        }
        return;
    }
    if case["cosim"].as_bool() == Some(true) {
        match load_cosim(5400) {
            Err(CosimLoadError::Failed(e)) | Err(CosimLoadError::BuildTimeout(e)) => run.inconclusive(e),
            Ok(lib) => {
                let w = case["width"].as_u64().unwrap_or(8) as usize;
                let four = case["four_state"].as_bool().unwrap_or(false);
                let mut rng = Rng::for_case(run.seed(), "C36cosim-replay", w as u64);
                let o = cosim_case(&lib, scratch, 0, w, four, &mut rng, 40);
                for (sig, what, j) in o.bad {
                    run.violation(&sig, &what, j);
                }
            }
        }
        return;
    }
    if case["dump"].as_bool() == Some(true) {
        let i = case["case_index"].as_u64().unwrap_or(0);
        let seed = run.seed();
        let sc = scratch.to_path_buf();
        match fresh_thread(STACK_64M, move || dump_case(seed, i, 30, &sc)) {
            Ok(outs) => {
                for o in outs {
                    for (sig, what, j) in o.bad {
                        run.violation(&sig, &what, j);
                    }
                }
            }
            Err(p) => run.inconclusive(format!("replay panicked: {}", p.message)),
        }
        return;
    }
    run.inconclusive("replay: unknown case kind".into());
}

#[allow(dead_code)]
fn _btree(_: BTreeMap<u8, u8>) {}
