//! Miri workload for C35: host side of the component ABI against the
//! in-process fixture (the same source the monitor registers statically).

#[path = "../../fixtures/c35_comp/src/lib.rs"]
#[allow(dead_code)]
pub mod c35_fixture;

#[cfg(test)]
mod tests {
    use super::c35_fixture::VERYL_COMPONENT_TABLE;
    use veryl_simulator::component::host::{ExternalInstance, HostContext, HostValue, PortDir, PortRole};
    use veryl_simulator::component::loader::{lookup_component, register_static_component};
    use veryl_simulator::component::runtime::{host_value_from, host_value_to_value};

    fn register() {
        for (name, vt) in VERYL_COMPONENT_TABLE.iter() {
            register_static_component(name, vt);
        }
    }

    fn words_for(w: u32) -> usize {
        (w as usize).div_ceil(64).max(1)
    }

    fn pattern(n: usize, salt: u64, width: u32) -> Vec<u64> {
        let mut v: Vec<u64> = (0..n).map(|i| (0x9E37_79B9_7F4A_7C15u64.wrapping_mul(i as u64 + 1 + salt)).rotate_left(i as u32 * 7)).collect();
        let r = width % 64;
        if r != 0 {
            v[n - 1] &= (1u64 << r) - 1;
        }
        v
    }

    const WIDTHS: &[u32] = &[1, 7, 63, 64, 65, 128, 129, 200, 300];

    #[test]
    fn echo_value_path_masked_inputs() {
        register();
        for &four_state in &[false, true] {
            for &w in WIDTHS {
                let vt = lookup_component(None, "c35_echo").unwrap();
                let mut host = HostContext::new();
                host.use_4state = four_state;
                host.add_port_role("clk", PortDir::Input, PortRole::Clock, 1);
                let d = host.add_port("d", PortDir::Input, w);
                host.add_port("q", PortDir::Output, w);
                let mut inst = ExternalInstance::create(vt, &mut host).unwrap();
                let n = words_for(w);
                for k in 0..3u64 {
                    let words = pattern(n, k, w);
                    let mask = pattern(n, k + 100, w);
                    host.set_input_masked(d, &words, &mask);
                    assert_eq!(inst.on_clock(&mut host), 0);
                    assert!(host.output_dirty("q"));
                    assert_eq!(host.output_words("q"), &words[..]);
                    host.clear_output_dirty();
                    host.set_input(d, &words);
                    assert_eq!(inst.on_clock(&mut host), 0);
                    assert_eq!(host.output_words("q"), &words[..]);
                }
                assert!(!host.failed(), "{:?}", host.failures());
            }
        }
    }

    #[test]
    fn echo_fast_paths_direct_pointers() {
        register();
        for name in ["c35_echo_words", "c35_echo_u64"] {
            for &w in WIDTHS {
                if name == "c35_echo_u64" && w > 64 {
                    continue;
                }
                let vt = lookup_component(None, name).unwrap();
                let mut host = HostContext::new();
                host.use_4state = true;
                host.add_port_role("clk", PortDir::Input, PortRole::Clock, 1);
                let d = host.add_port("d", PortDir::Input, w);
                host.add_port("q", PortDir::Output, w);
                let mut inst = ExternalInstance::create(vt, &mut host).unwrap();
                let n = words_for(w);
                for k in 0..3u64 {
                    let words = pattern(n, k, w);
                    let mask = pattern(n, k + 7, w);
                    // the guest cached raw pointers into these buffers at create time
                    host.set_input_masked(d, &words, &mask);
                    assert_eq!(inst.on_clock(&mut host), 0);
                    assert_eq!(host.output_words("q"), &words[..]);
                    assert!(host.output_dirty("q"));
                    host.clear_output_dirty();
                }
            }
        }
    }

    #[test]
    fn recorder_and_methods() {
        register();
        for &w in WIDTHS {
            let vt = lookup_component(None, "c35_rec").unwrap();
            let mut host = HostContext::new();
            host.use_4state = true;
            host.add_port_role("clk", PortDir::Input, PortRole::Clock, 1);
            let d = host.add_port("d", PortDir::Input, w);
            let mut inst = ExternalInstance::create(vt, &mut host).unwrap();
            let n = words_for(w);
            let words = pattern(n, 3, w);
            let mask = pattern(n, 4, w);
            host.set_input_masked(d, &words, &mask);
            host.cycle = 1;
            assert_eq!(inst.on_clock(&mut host), 0);
            let got = inst.call_method(&mut host, "seen_words", &[HostValue::bits_u64(0, 64)]).unwrap();
            assert_eq!(got, HostValue::Bits { words: words.clone(), width: w });
            let got = inst.call_method(&mut host, "seen_mask", &[HostValue::bits_u64(0, 64)]).unwrap();
            assert_eq!(got, HostValue::Bits { words: mask.clone(), width: w });
            // words_to_value on the way back into a simulator value
            let v = host_value_to_value(&got).unwrap();
            assert_eq!(v.width(), w as usize);
            let back = host_value_from(&v);
            assert_eq!(back, got);
            assert_eq!(inst.call_method(&mut host, "seen_words", &[HostValue::bits_u64(9, 64)]), None);
            assert!(host.failed());
        }
    }

    #[test]
    fn probe_params_args_returns() {
        register();
        for &w in WIDTHS {
            let vt = lookup_component(None, "c35_probe").unwrap();
            let mut host = HostContext::new();
            let n = words_for(w);
            let p = pattern(n, 11, w);
            host.add_param("P", HostValue::Bits { words: p.clone(), width: w });
            host.add_param("S", HostValue::Str("héllo wörld".into()));
            let mut inst = ExternalInstance::create(vt, &mut host).unwrap();
            assert_eq!(inst.call_method(&mut host, "param", &[]), Some(HostValue::Bits { words: p.clone(), width: w }));
            assert_eq!(inst.call_method(&mut host, "s_len", &[]).unwrap().as_u64(), Some("héllo wörld".len() as u64));
            let a = pattern(n, 12, w);
            let b = pattern(n, 13, w);
            let x: Vec<u64> = a.iter().zip(b.iter()).map(|(x, y)| x ^ y).collect();
            let args = [HostValue::Bits { words: a.clone(), width: w }, HostValue::Bits { words: b, width: w }];
            assert_eq!(inst.call_method(&mut host, "echo", &args[..1]), Some(HostValue::Bits { words: a.clone(), width: w }));
            assert_eq!(inst.call_method(&mut host, "xor", &args), Some(HostValue::Bits { words: x, width: w }));
            assert_eq!(inst.call_method(&mut host, "last", &args).map(|v| matches!(v, HostValue::Bits { .. })), Some(true));
            assert_eq!(inst.call_method(&mut host, "str_hash", &[HostValue::Str(String::new())]).unwrap().as_u64(), Some(0xcbf2_9ce4_8422_2325));
            assert_eq!(inst.call_method(&mut host, "unit", &[]), Some(HostValue::Unit));
            assert_eq!(inst.call_method(&mut host, "nope", &[]), None);
            assert!(host.take_failures().iter().any(|m| m.contains("unknown method")));
            // empty-words argument: as_vrl hands out a dangling-but-aligned pointer with nwords = 0
            assert_eq!(inst.call_method(&mut host, "width_of", &[HostValue::Bits { words: vec![], width: 0 }]).unwrap().as_u64(), Some(0));
        }
    }

    #[test]
    fn init_component_writes_param() {
        register();
        let vt = lookup_component(None, "c35_init").unwrap();
        let mut host = HostContext::new();
        host.add_port("q", PortDir::Output, 100);
        host.add_param("P", HostValue::Bits { words: vec![0x1234, 0x5], width: 100 });
        let mut inst = ExternalInstance::create(vt, &mut host).unwrap();
        assert_eq!(inst.on_init(&mut host), 0);
        assert_eq!(host.output_words("q"), &[0x1234, 0x5]);
    }
}
