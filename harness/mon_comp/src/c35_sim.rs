//! Drive the real simulator on a design that instantiates user components,
//! under a chosen engine configuration and component transport.

use std::path::{Path, PathBuf};
use std::sync::Once;
use veryl_analyzer::ir as air;
use veryl_analyzer::value::Value;
use veryl_analyzer::{Analyzer, Context};
use veryl_parser::Parser;
use veryl_simulator::component::host::HostValue;
use veryl_simulator::component::loader::register_static_component;
use veryl_simulator::ir::{ComponentLibrary, Event, build_ir};
use veryl_simulator::{Config, Simulator};
pub use vgen::sim::TVal;

pub const COMPONENT_NAMES: &[&str] = &[
    "c35_echo",
    "c35_echo_rst",
    "c35_echo_words",
    "c35_echo_u64",
    "c35_rec",
    "c35_probe",
    "c35_init",
    "c35_mix",
];

#[derive(Clone, Copy, Debug, PartialEq, Eq, Hash, PartialOrd, Ord)]
pub enum Transport {
    /// in-process static registry (Rust fixture compiled into this binary)
    Static,
    /// the Rust fixture built as a cdylib, loaded with dlopen by the simulator
    Dlopen,
    /// the C guest source built natively (`cc -shared`), loaded with dlopen
    CNative,
    /// the same C guest source built for wasm32, run by the simulator's wasmtime host
    Wasm,
}

impl Transport {
    pub fn name(self) -> &'static str {
        match self {
            Transport::Static => "static",
            Transport::Dlopen => "dlopen_rust",
            Transport::CNative => "dlopen_c",
            Transport::Wasm => "wasm_c",
        }
    }
    pub fn parse(s: &str) -> Option<Transport> {
        Some(match s {
            "static" => Transport::Static,
            "dlopen_rust" => Transport::Dlopen,
            "dlopen_c" => Transport::CNative,
            "wasm_c" => Transport::Wasm,
            _ => return None,
        })
    }
}

#[derive(Clone, Copy, Debug, PartialEq, Eq, Hash)]
pub struct Engine {
    pub four_state: bool,
    pub jit: bool,
    pub disable_ff_opt: bool,
}

impl Engine {
    pub fn all() -> Vec<Engine> {
        let mut v = vec![];
        for four_state in [false, true] {
            for jit in [false, true] {
                for disable_ff_opt in [false, true] {
                    v.push(Engine {
                        four_state,
                        jit,
                        disable_ff_opt,
                    });
                }
            }
        }
        v
    }
    pub fn name(&self) -> String {
        format!(
            "{}{}{}",
            if self.four_state { "4st" } else { "2st" },
            if self.jit { "+jit" } else { "+interp" },
            if self.disable_ff_opt { "+noffopt" } else { "" }
        )
    }
    pub fn parse(s: &str) -> Option<Engine> {
        Engine::all().into_iter().find(|e| e.name() == s)
    }
}

#[derive(Clone, Debug, Default)]
pub struct Libs {
    pub rust_so: Option<PathBuf>,
    pub c_so: Option<PathBuf>,
    pub wasm: Option<PathBuf>,
}

impl Libs {
    pub fn path(&self, t: Transport) -> Option<&Path> {
        match t {
            Transport::Static => None,
            Transport::Dlopen => self.rust_so.as_deref(),
            Transport::CNative => self.c_so.as_deref(),
            Transport::Wasm => self.wasm.as_deref(),
        }
    }
    pub fn has(&self, t: Transport) -> bool {
        t == Transport::Static || self.path(t).is_some()
    }
}

static REGISTER: Once = Once::new();

/// Register the fixture's vtables (the real `veryl_component::export::vtable::<T>()`
/// glue) in the simulator's static registry.
pub fn register_static() {
    REGISTER.call_once(|| {
        for (name, vt) in crate::c35_fixture::VERYL_COMPONENT_TABLE.iter() {
            register_static_component(name, vt);
        }
    });
}

pub fn make_config(engine: Engine, transport: Transport, libs: &Libs) -> Config {
    let mut c = Config {
        use_4state: engine.four_state,
        use_jit: engine.jit,
        disable_ff_opt: engine.disable_ff_opt,
        ..Default::default()
    };
    if let Some(p) = libs.path(transport) {
        for n in COMPONENT_NAMES {
            c.component_libraries.insert(
                n.to_string(),
                ComponentLibrary {
                    path: p.to_path_buf(),
                    type_name: n.to_string(),
                },
            );
        }
    }
    c
}

/// Parse + analyze `text` (with the fixture component names declared the way
/// `Analyzer::new` declares `[[components]]`), build the simulator IR for
/// `top`, create the simulator and load the components.
/// Must run on a fresh thread.  Err = (stage, message).
pub fn build_sim(text: &str, top: &str, config: &Config) -> Result<Simulator, (String, String)> {
    register_static();
    let metadata = vcommon::pipeline::default_metadata();
    let parser = Parser::parse(text, &Path::new("c35.veryl")).map_err(|e| ("parse".to_string(), e.to_string()))?;
    let analyzer = Analyzer::new(&metadata);
    veryl_analyzer::tb_component::insert_external_components(COMPONENT_NAMES);
    let mut errors = vec![];
    let mut context = Context::default();
    let mut ir = air::Ir::default();
    errors.append(&mut analyzer.analyze_pass1("prj", &parser.veryl));
    errors.append(&mut Analyzer::analyze_post_pass1());
    errors.append(&mut analyzer.analyze_pass2(&parser.veryl, &mut context, Some(&mut ir)));
    errors.append(&mut Analyzer::analyze_post_pass2(&ir));
    let hard: Vec<String> = errors.iter().filter(|e| e.is_error()).map(|e| e.to_string()).collect();
    if !hard.is_empty() {
        return Err(("analyze".into(), hard.join(" | ")));
    }
    let top_id = veryl_parser::resource_table::insert_str(top);
    let sim_ir = build_ir(&ir, top_id, config).map_err(|e| ("build_ir".to_string(), format!("{e}")))?;
    let mut sim = Simulator::new(sim_ir, None);
    sim.init_components(0, top).map_err(|e| ("init_components".to_string(), e.to_string()))?;
    Ok(sim)
}

/// A 4-state value from payload / mask words (LSB first).
pub fn to_value(v: &TVal) -> Value {
    let mut p = vec![];
    let mut m = vec![];
    for w in &v.payload {
        p.extend_from_slice(&w.to_le_bytes());
    }
    for w in &v.xz {
        m.extend_from_slice(&w.to_le_bytes());
    }
    Value::from_le_bytes(&p, &m, v.width, false)
}

pub fn words_for(width: usize) -> usize {
    width.div_ceil(64).max(1)
}

pub fn top_mask(width: usize) -> u64 {
    let r = width % 64;
    if r == 0 { u64::MAX } else { (1u64 << r) - 1 }
}

pub fn tval(width: usize, payload: Vec<u64>, xz: Vec<u64>) -> TVal {
    let n = words_for(width);
    let mut payload = payload;
    let mut xz = xz;
    payload.resize(n, 0);
    xz.resize(n, 0);
    payload[n - 1] &= top_mask(width);
    xz[n - 1] &= top_mask(width);
    TVal { width, payload, xz }
}

pub fn host_bits(v: &TVal) -> HostValue {
    HostValue::Bits {
        words: v.payload.clone(),
        width: v.width as u32,
    }
}

/// Zero-time method call on instance `inst` through `Simulator::call_component_method`.
pub fn call(sim: &mut Simulator, inst: &str, method: &str, args: &[HostValue]) -> Result<HostValue, String> {
    let i = veryl_parser::resource_table::insert_str(inst);
    let m = veryl_parser::resource_table::insert_str(method);
    sim.call_component_method(i, m, args)
}

pub fn get(sim: &mut Simulator, port: &str) -> Result<TVal, String> {
    sim.get(port).map(|v| TVal::from_value(&v)).ok_or_else(|| format!("no port {port}"))
}

pub fn clock(sim: &Simulator, name: &str) -> Result<Event, String> {
    sim.get_clock(name).ok_or_else(|| format!("no clock {name}"))
}

/// Drain failures the components reported through `ctx.fail` / hook errors.
pub fn failures(sim: &mut Simulator) -> Vec<String> {
    sim.take_component_failures()
}
