//! C35 — user components see correct values and timing on every transport.
//!
//! Events that refute:
//!  (timing)  an echo component's output differs in some cycle from the output
//!            of an RTL register fed by the same signal (`always_ff { q = d; }`),
//!            side by side, component→FF, FF→component, component→component,
//!            with comb logic around it, and in a ring with an RTL register;
//!  (value)   a payload bit or X/Z mask bit of a value differs between what the
//!            simulator holds on the connected signal and what the component saw
//!            (recorder) / what comes back out of an echo, at some width 1…300;
//!            a parameter or method argument / return does not round-trip;
//!  (transport) the same scenario gives different observations when the
//!            component is registered in-process, dlopen'ed as a Rust cdylib,
//!            dlopen'ed as a C shared object, or run as WebAssembly (the same C
//!            source built for wasm32).
//! Oracle: the RTL reference register inside the same design (timing), the values
//! the monitor drove / the simulator's own port values before the edge (value),
//! literal parameters and arguments (methods), and pairwise comparison of
//! transports.  No model of the simulator is involved.

use crate::c35_build;
use crate::c35_sim::*;
use std::collections::BTreeMap;
use std::sync::Arc;
use vcommon::pool::{STACK_64M, fresh_thread, par_cases};
use vcommon::rng::hash_str;
use vcommon::{Args, Json, Rng, Run, json};
use veryl_simulator::component::host::HostValue;

// ---------------------------------------------------------------------------
// Scenario: everything needed to run (and replay) one case on one engine and
// one transport.
// ---------------------------------------------------------------------------

#[derive(Clone, Debug)]
struct Cycle {
    sets: Vec<(String, TVal)>,
    reset: bool,
}

#[derive(Clone, Debug)]
enum Arg {
    Bits(TVal),
    Str(String),
}

#[derive(Clone, Debug, PartialEq, Eq)]
enum HV {
    Bits { width: u32, words: Vec<u64> },
    Str(String),
    Unit,
    Err(String),
}

impl HV {
    fn from_host(r: Result<HostValue, String>) -> HV {
        match r {
            Ok(HostValue::Bits { words, width }) => HV::Bits { width, words },
            Ok(HostValue::Str(s)) => HV::Str(s),
            Ok(HostValue::Unit) => HV::Unit,
            Err(e) => HV::Err(e),
        }
    }
    fn show(&self) -> String {
        match self {
            HV::Bits { width, words } => format!("{}'h{}", width, hex_words(words)),
            HV::Str(s) => format!("{s:?}"),
            HV::Unit => "unit".into(),
            HV::Err(e) => format!("error({e})"),
        }
    }
}

#[derive(Clone, Debug)]
struct Call {
    inst: String,
    method: String,
    args: Vec<Arg>,
    expect: HV,
}

#[derive(Clone, Debug)]
struct Pair {
    reference: String,
    comp: String,
    warmup: usize,
}

#[derive(Clone, Debug)]
struct EchoCheck {
    input: String,
    output: String,
    /// the flavour uses the documented two-state fast path (X/Z is dropped)
    drops_xz: bool,
}

#[derive(Clone, Debug)]
struct Scenario {
    kind: String,
    template: String,
    flavour: String,
    text: String,
    top: String,
    width: usize,
    clock: String,
    reset: Option<String>,
    cycles: Vec<Cycle>,
    /// ports sampled before every step (as the simulator holds them)
    inputs: Vec<String>,
    /// ports sampled after every step
    observe: Vec<String>,
    pairs: Vec<Pair>,
    echo: Option<EchoCheck>,
    /// (recorder instance, port it watches)
    rec: Option<(String, String)>,
    calls: Vec<Call>,
    /// "tb" family: variables of the test module and the values they must hold
    /// after the generated `initial` block ran through `run_testbench`
    tb_expect: Vec<(String, TVal)>,
    /// ports and the values they must show right after `init_components`
    /// (component `on_init` outputs are visible from the first settle)
    init_expect: Vec<(String, TVal)>,
}

fn hex_words(w: &[u64]) -> String {
    let mut s = String::new();
    for (i, x) in w.iter().enumerate().rev() {
        if i == w.len() - 1 {
            s.push_str(&format!("{x:x}"));
        } else {
            s.push_str(&format!("{x:016x}"));
        }
    }
    s
}

fn parse_hex_words(s: &str, n: usize) -> Vec<u64> {
    // s = most significant first, arbitrary length
    let mut out = vec![0u64; n];
    let digits: Vec<u8> = s.bytes().filter(|b| b.is_ascii_hexdigit()).collect();
    for (k, b) in digits.iter().rev().enumerate() {
        let v = (*b as char).to_digit(16).unwrap() as u64;
        let word = k / 16;
        if word < n {
            out[word] |= v << ((k % 16) * 4);
        }
    }
    out
}

fn tval_json(v: &TVal) -> Json {
    json!({"w": v.width, "p": hex_words(&v.payload), "x": hex_words(&v.xz)})
}

fn tval_from_json(j: &Json) -> TVal {
    let w = j["w"].as_u64().unwrap_or(1) as usize;
    let n = words_for(w);
    tval(w, parse_hex_words(j["p"].as_str().unwrap_or("0"), n), parse_hex_words(j["x"].as_str().unwrap_or("0"), n))
}

fn hv_json(h: &HV) -> Json {
    match h {
        HV::Bits { width, words } => json!({"bits": {"w": width, "p": hex_words(words), "n": words.len()}}),
        HV::Str(s) => json!({"str": s}),
        HV::Unit => json!("unit"),
        HV::Err(e) => json!({"err": e}),
    }
}

fn hv_from_json(j: &Json) -> HV {
    if let Some(b) = j.get("bits") {
        let n = b["n"].as_u64().unwrap_or(1) as usize;
        HV::Bits {
            width: b["w"].as_u64().unwrap_or(0) as u32,
            words: parse_hex_words(b["p"].as_str().unwrap_or("0"), n),
        }
    } else if let Some(s) = j.get("str") {
        HV::Str(s.as_str().unwrap_or("").to_string())
    } else if let Some(e) = j.get("err") {
        HV::Err(e.as_str().unwrap_or("").to_string())
    } else {
        HV::Unit
    }
}

impl Scenario {
    fn to_json(&self) -> Json {
        json!({
            "kind": self.kind, "template": self.template, "flavour": self.flavour,
            "text": self.text, "top": self.top, "width": self.width,
            "clock": self.clock, "reset": self.reset,
            "cycles": self.cycles.iter().map(|c| json!({
                "reset": c.reset,
                "sets": c.sets.iter().map(|(n, v)| json!({"port": n, "v": tval_json(v)})).collect::<Vec<_>>(),
            })).collect::<Vec<_>>(),
            "inputs": self.inputs, "observe": self.observe,
            "pairs": self.pairs.iter().map(|p| json!({"ref": p.reference, "comp": p.comp, "warmup": p.warmup})).collect::<Vec<_>>(),
            "echo": self.echo.as_ref().map(|e| json!({"input": e.input, "output": e.output, "drops_xz": e.drops_xz})),
            "rec": self.rec.as_ref().map(|(i, p)| json!({"inst": i, "port": p})),
            "calls": self.calls.iter().map(|c| json!({
                "inst": c.inst, "method": c.method,
                "args": c.args.iter().map(|a| match a { Arg::Bits(v) => json!({"bits": tval_json(v)}), Arg::Str(s) => json!({"str": s}) }).collect::<Vec<_>>(),
                "expect": hv_json(&c.expect),
            })).collect::<Vec<_>>(),
            "tb_expect": self.tb_expect.iter().map(|(n, v)| json!({"var": n, "v": tval_json(v)})).collect::<Vec<_>>(),
            "init_expect": self.init_expect.iter().map(|(n, v)| json!({"var": n, "v": tval_json(v)})).collect::<Vec<_>>(),
        })
    }

    fn from_json(j: &Json) -> Scenario {
        let s = |k: &str| j[k].as_str().unwrap_or("").to_string();
        let strs = |k: &str| -> Vec<String> {
            j[k].as_array().map(|a| a.iter().map(|x| x.as_str().unwrap_or("").to_string()).collect()).unwrap_or_default()
        };
        Scenario {
            kind: s("kind"),
            template: s("template"),
            flavour: s("flavour"),
            text: s("text"),
            top: s("top"),
            width: j["width"].as_u64().unwrap_or(1) as usize,
            clock: s("clock"),
            reset: j["reset"].as_str().map(|x| x.to_string()),
            cycles: j["cycles"]
                .as_array()
                .map(|a| {
                    a.iter()
                        .map(|c| Cycle {
                            reset: c["reset"].as_bool().unwrap_or(false),
                            sets: c["sets"]
                                .as_array()
                                .map(|s| s.iter().map(|x| (x["port"].as_str().unwrap_or("").to_string(), tval_from_json(&x["v"]))).collect())
                                .unwrap_or_default(),
                        })
                        .collect()
                })
                .unwrap_or_default(),
            inputs: strs("inputs"),
            observe: strs("observe"),
            pairs: j["pairs"]
                .as_array()
                .map(|a| {
                    a.iter()
                        .map(|p| Pair {
                            reference: p["ref"].as_str().unwrap_or("").into(),
                            comp: p["comp"].as_str().unwrap_or("").into(),
                            warmup: p["warmup"].as_u64().unwrap_or(0) as usize,
                        })
                        .collect()
                })
                .unwrap_or_default(),
            echo: j.get("echo").filter(|e| !e.is_null()).map(|e| EchoCheck {
                input: e["input"].as_str().unwrap_or("").into(),
                output: e["output"].as_str().unwrap_or("").into(),
                drops_xz: e["drops_xz"].as_bool().unwrap_or(false),
            }),
            rec: j.get("rec").filter(|e| !e.is_null()).map(|e| (e["inst"].as_str().unwrap_or("").to_string(), e["port"].as_str().unwrap_or("").to_string())),
            calls: j["calls"]
                .as_array()
                .map(|a| {
                    a.iter()
                        .map(|c| Call {
                            inst: c["inst"].as_str().unwrap_or("").into(),
                            method: c["method"].as_str().unwrap_or("").into(),
                            args: c["args"]
                                .as_array()
                                .map(|x| {
                                    x.iter()
                                        .map(|a| match a.get("bits") {
                                            Some(b) => Arg::Bits(tval_from_json(b)),
                                            None => Arg::Str(a["str"].as_str().unwrap_or("").to_string()),
                                        })
                                        .collect()
                                })
                                .unwrap_or_default(),
                            expect: hv_from_json(&c["expect"]),
                        })
                        .collect()
                })
                .unwrap_or_default(),
            tb_expect: j["tb_expect"]
                .as_array()
                .map(|a| a.iter().map(|x| (x["var"].as_str().unwrap_or("").to_string(), tval_from_json(&x["v"]))).collect())
                .unwrap_or_default(),
            init_expect: j["init_expect"]
                .as_array()
                .map(|a| a.iter().map(|x| (x["var"].as_str().unwrap_or("").to_string(), tval_from_json(&x["v"]))).collect())
                .unwrap_or_default(),
        }
    }
}

// ---------------------------------------------------------------------------
// Running one scenario on one (engine, transport)
// ---------------------------------------------------------------------------

#[derive(Clone, Debug, Default, PartialEq, Eq)]
struct RunOut {
    pre: Vec<Vec<TVal>>,
    post: Vec<Vec<TVal>>,
    rec_count: Option<HV>,
    rec_seen: Vec<(HV, HV, HV)>,
    calls: Vec<HV>,
    failures: Vec<String>,
    /// "tb" family: result of run_testbench and the variables read back
    tb_result: Option<String>,
    tb_vars: Vec<Option<TVal>>,
    init_vals: Vec<TVal>,
}

#[derive(Clone, Debug)]
enum RunResult {
    Ok(RunOut),
    /// (stage, message): parse / analyze / build_ir / init_components / drive
    Rejected(String, String),
    Panicked(String),
}

fn run_scenario(sc: &Scenario, engine: Engine, transport: Transport, libs: &Libs) -> RunResult {
    let cfg = make_config(engine, transport, libs);
    let sc2 = sc.clone();
    let r = fresh_thread(STACK_64M, move || -> Result<RunOut, (String, String)> {
        let sc = &sc2;
        let mut sim = build_sim(&sc.text, &sc.top, &cfg)?;
        let drive = |m: String| ("drive".to_string(), m);
        let mut init_vals = vec![];
        for (p, _) in &sc.init_expect {
            init_vals.push(get(&mut sim, p).map_err(drive)?);
        }
        if sc.kind == "tb" {
            use veryl_simulator::ir::Event;
            use veryl_simulator::testbench::{TestResult, build_clock_periods, build_event_map, convert_initial_to_testbench, run_testbench};
            let event_map = build_event_map(&sim.ir.event_statements, &sim.ir.module_variables);
            let clock_periods = build_clock_periods(&sim.ir.event_statements);
            let tb = {
                let stmts = sim.ir.event_statements.get(&Event::Initial).ok_or_else(|| drive("no initial block".into()))?;
                convert_initial_to_testbench(stmts, &event_map, &clock_periods, 3)
            };
            let mut out = RunOut::default();
            out.tb_result = Some(match run_testbench(&mut sim, &tb) {
                TestResult::Pass => "pass".to_string(),
                TestResult::Fail(m) => format!("fail: {m}"),
            });
            for (n, _) in &sc.tb_expect {
                out.tb_vars.push(sim.get_var(n).map(|v| TVal::from_value(&v)));
            }
            return Ok(out);
        }
        let clk = clock(&sim, &sc.clock).map_err(drive)?;
        let rst = match &sc.reset {
            Some(r) => Some(sim.get_reset(r).ok_or_else(|| drive(format!("no reset {r}")))?),
            None => None,
        };
        let mut out = RunOut::default();
        out.init_vals = init_vals;
        for cyc in &sc.cycles {
            for (p, v) in &cyc.sets {
                sim.set(p, to_value(v));
            }
            let mut row = vec![];
            for p in &sc.inputs {
                row.push(get(&mut sim, p).map_err(drive)?);
            }
            out.pre.push(row);
            match (&rst, cyc.reset) {
                (Some(r), true) => sim.step_reset(&clk, r),
                _ => sim.step(&clk),
            }
            let mut row = vec![];
            for p in &sc.observe {
                row.push(get(&mut sim, p).map_err(drive)?);
            }
            out.post.push(row);
        }
        if let Some((inst, _)) = &sc.rec {
            out.rec_count = Some(HV::from_host(call(&mut sim, inst, "count", &[])));
            for i in 0..sc.cycles.len() {
                let a = [HostValue::bits_u64(i as u64, 64)];
                let w = HV::from_host(call(&mut sim, inst, "seen_words", &a));
                let m = HV::from_host(call(&mut sim, inst, "seen_mask", &a));
                let c = HV::from_host(call(&mut sim, inst, "seen_cycle", &a));
                out.rec_seen.push((w, m, c));
            }
        }
        for c in &sc.calls {
            let args: Vec<HostValue> = c
                .args
                .iter()
                .map(|a| match a {
                    Arg::Bits(v) => host_bits(v),
                    Arg::Str(s) => HostValue::Str(s.clone()),
                })
                .collect();
            out.calls.push(HV::from_host(call(&mut sim, &c.inst, &c.method, &args)));
        }
        sim.finish_components();
        out.failures = failures(&mut sim);
        Ok(out)
    });
    match r {
        Ok(Ok(o)) => RunResult::Ok(o),
        Ok(Err((stage, msg))) => RunResult::Rejected(stage, msg),
        Err(p) => RunResult::Panicked(format!("{} at {}", p.message, p.location)),
    }
}

// ---------------------------------------------------------------------------
// Judging one run against the scenario's oracle
// ---------------------------------------------------------------------------

#[derive(Default)]
struct Tally {
    counts: BTreeMap<String, i64>,
}
impl Tally {
    fn add(&mut self, k: &str, n: i64) {
        *self.counts.entry(k.to_string()).or_insert(0) += n;
    }
}

struct Finding {
    class: String,
    detail: String,
}

fn idx(names: &[String], n: &str) -> Option<usize> {
    names.iter().position(|x| x == n)
}

fn judge(sc: &Scenario, engine: Engine, out: &RunOut, t: &mut Tally) -> Vec<Finding> {
    let mut f = vec![];
    // hook errors / ctx.fail reported by a component
    if !out.failures.is_empty() {
        f.push(Finding {
            class: "component_failure".into(),
            detail: format!("component reported failures: {:?}", out.failures),
        });
    }
    // (1) timing: component output == RTL reference register, every cycle after warm-up
    for p in &sc.pairs {
        let (Some(ri), Some(ci)) = (idx(&sc.observe, &p.reference), idx(&sc.observe, &p.comp)) else {
            continue;
        };
        for (c, row) in out.post.iter().enumerate() {
            if c > 0 && out.post[c - 1][ci] != row[ci] {
                t.add("timing_component_output_changes", 1);
            }
            if c < p.warmup {
                continue;
            }
            let (r, q) = (&row[ri], &row[ci]);
            if r.has_xz() {
                t.add("timing_cycles_skipped_reference_xz", 1);
                continue;
            }
            t.add("timing_cycles_compared", 1);
            if r != q {
                f.push(Finding {
                    class: format!("timing:{}~{}", p.comp, p.reference),
                    detail: format!(
                        "cycle {c}: component-driven `{}` = {} but RTL reference register `{}` = {} (after the same edge)",
                        p.comp,
                        q.hex(),
                        p.reference,
                        r.hex()
                    ),
                });
                break;
            }
        }
    }
    // (2) value fidelity: echo output after the edge == connected value before the edge
    if let Some(e) = &sc.echo
        && let (Some(ii), Some(oi)) = (idx(&sc.inputs, &e.input), idx(&sc.observe, &e.output))
    {
        for c in 0..out.post.len() {
            let d = &out.pre[c][ii];
            let q = &out.post[c][oi];
            // what was driven must be what the simulator holds (4-state engines); otherwise
            // the stimulus did not reach the boundary and this is not C35's business
            if let Some((_, v)) = sc.cycles[c].sets.iter().find(|(n, _)| *n == e.input)
                && engine.four_state
                && v != d
            {
                t.add("driven_value_not_held_by_simulator", 1);
            }
            t.add("echo_cycles_compared", 1);
            if d.has_xz() {
                t.add("echo_cycles_with_xz", 1);
            }
            let bad = if e.drops_xz {
                // documented: X/Z is dropped by the two-state fast path -> no X/Z driven,
                // known bits intact
                let known_equal = d.payload.iter().zip(q.payload.iter()).zip(d.xz.iter()).all(|((a, b), m)| (a & !m) == (b & !m));
                q.has_xz() || !known_equal
            } else {
                d != q
            };
            if bad {
                let which = if e.drops_xz {
                    if q.has_xz() { "xz_not_dropped" } else { "payload" }
                } else if d.payload != q.payload {
                    "payload"
                } else {
                    "xz_mask"
                };
                f.push(Finding {
                    class: format!("value:echo:{which}"),
                    detail: format!(
                        "cycle {c}: value on `{}` before the edge = {} but echo output `{}` after the edge = {}{}",
                        e.input,
                        d.hex(),
                        e.output,
                        q.hex(),
                        if e.drops_xz { " (two-state fast path: X/Z must be dropped, known bits kept)" } else { "" }
                    ),
                });
                break;
            }
        }
    }
    // (2b) recorder: what on_clock saw == connected value before the edge
    if let Some((_, port)) = &sc.rec
        && let Some(ii) = idx(&sc.inputs, port)
    {
        let n = sc.cycles.len();
        let want = HV::Bits {
            width: 64,
            words: vec![n as u64],
        };
        if out.rec_count.as_ref() != Some(&want) {
            f.push(Finding {
                class: "value:rec:count".into(),
                detail: format!("recorder saw {} clock hooks, {} edges were stepped", out.rec_count.as_ref().map(|x| x.show()).unwrap_or_default(), n),
            });
        }
        for (c, (w, m, cy)) in out.rec_seen.iter().enumerate() {
            let d = &out.pre[c][ii];
            t.add("rec_cycles_compared", 1);
            if d.has_xz() {
                t.add("rec_cycles_with_xz", 1);
            }
            let want_w = HV::Bits {
                width: d.width as u32,
                words: d.payload.clone(),
            };
            let want_m = HV::Bits {
                width: d.width as u32,
                words: d.xz.clone(),
            };
            let want_c = HV::Bits {
                width: 64,
                words: vec![c as u64 + 1],
            };
            if *w != want_w || *m != want_m {
                let which = if *w != want_w { "payload" } else { "xz_mask" };
                f.push(Finding {
                    class: format!("value:rec:{which}"),
                    detail: format!(
                        "hook {c}: value on `{port}` before the edge = {} but the component's clock hook read payload {} mask {}",
                        d.hex(),
                        w.show(),
                        m.show()
                    ),
                });
                break;
            }
            if *cy != want_c {
                f.push(Finding {
                    class: "value:rec:cycle".into(),
                    detail: format!("hook {c}: ctx.cycle() = {} expected {}", cy.show(), want_c.show()),
                });
                break;
            }
        }
    }
    // (2f) mixed read/write APIs on the same ports over time: what the component wrote
    // this hook (payload of d; mask of d only for full read + masked write) is exactly
    // what the port, a comb consumer and a register consumer show
    if sc.kind == "mix"
        && let (Some(di), Some(si), Some(qi), Some(yi), Some(ri)) =
            (idx(&sc.inputs, "d"), idx(&sc.inputs, "sel"), idx(&sc.observe, "q"), idx(&sc.observe, "y"), idx(&sc.observe, "r"))
    {
        let mut prev: Option<TVal> = None;
        for c in 0..out.post.len() {
            let d = &out.pre[c][di];
            let s = out.pre[c][si].payload[0];
            let (wmode, rmode) = (s & 3, (s >> 2) & 3);
            let w = d.width;
            let full_read = rmode == 0 || rmode == 3;
            let api = match wmode {
                0 => "write_masked_value",
                2 if w <= 64 => "write_u64",
                1 | 2 => "write_words",
                _ => "write_known_value",
            };
            let exp = TVal {
                width: w,
                payload: d.payload.clone(),
                xz: if full_read && wmode == 0 { d.xz.clone() } else { vec![0; d.xz.len()] },
            };
            t.add("mix_cycles_compared", 1);
            t.add(&format!("mix_{api}"), 1);
            t.add(
                match rmode {
                    2 if w <= 64 => "mix_read_u64",
                    1 | 2 => "mix_read_words",
                    _ => "mix_read_full",
                },
                1,
            );
            if exp.has_xz() {
                t.add("mix_masked_writes", 1);
            }
            if !full_read && d.has_xz() {
                t.add("mix_fast_read_of_xz_input", 1);
            }
            let prev_masked = prev.as_ref().is_some_and(|p| p.has_xz());
            if prev_masked && !exp.has_xz() {
                t.add(
                    match api {
                        "write_u64" => "scalar_write_after_masked_write",
                        "write_words" => "words_write_after_masked_write",
                        _ => "known_value_write_after_masked_write",
                    },
                    1,
                );
            }
            let q = &out.post[c][qi];
            let y = &out.post[c][yi];
            let r = &out.post[c][ri];
            let mut bad: Option<(&str, &TVal, &TVal)> = None;
            if *q != exp {
                bad = Some(("q", q, &exp));
            } else if *y != exp {
                bad = Some(("y (assign y = q)", y, &exp));
            } else if let Some(p) = &prev {
                // The register consumer is judged on fully known values only: how an RTL
                // flip-flop copies a partially-X/Z value is the engines' business (C02/C03).
                if p.has_xz() {
                    t.add("mix_register_checks_skipped_xz", 1);
                } else {
                    t.add("mix_register_checks", 1);
                    if r != p {
                        bad = Some(("r (always_ff r = q, previous hook's value)", r, p));
                    }
                }
            }
            if let Some((what, got, want)) = bad {
                let how = if got.payload != want.payload {
                    "payload"
                } else if prev_masked && !want.has_xz() {
                    "stale_mask"
                } else {
                    "xz_mask"
                };
                f.push(Finding {
                    class: format!("value:mix:{api}:{how}"),
                    detail: format!(
                        "hook {c}: component read d = {} ({}) and drove q with {api}: expected {} but `{what}` = {}{}",
                        d.hex(),
                        if full_read { "ctx.read" } else { "fast read" },
                        want.hex(),
                        got.hex(),
                        if prev_masked { " (the previous hook drove X/Z on the same port)" } else { "" }
                    ),
                });
                break;
            }
            prev = Some(exp);
        }
    }
    // (2e) on_init outputs: visible from the first settle, value == parameter
    for ((n, want), got) in sc.init_expect.iter().zip(out.init_vals.iter()) {
        t.add("init_values_checked", 1);
        if want != got {
            f.push(Finding {
                class: "value:on_init".into(),
                detail: format!("right after init_components `{n}` = {} expected {} (written by on_init from parameter P)", got.hex(), want.hex()),
            });
        }
    }
    // (2d) the same through the testbench statement path
    if sc.kind == "tb" {
        t.add("tb_runs", 1);
        if out.tb_result.as_deref() != Some("pass") {
            f.push(Finding {
                class: "value:tb:result".into(),
                detail: format!("run_testbench of the generated initial block: {:?}", out.tb_result),
            });
        } else {
            for ((n, want), got) in sc.tb_expect.iter().zip(out.tb_vars.iter()) {
                t.add("tb_values_checked", 1);
                if got.as_ref() != Some(want) {
                    f.push(Finding {
                        class: "value:tb:var".into(),
                        detail: format!("after the initial block `{n}` = {} expected {}", got.as_ref().map(|x| x.hex()).unwrap_or("<no such variable>".into()), want.hex()),
                    });
                    break;
                }
            }
        }
    }
    // (2c) parameters, method arguments and returns
    for (c, got) in sc.calls.iter().zip(out.calls.iter()) {
        t.add("method_calls_checked", 1);
        if c.method.starts_with("param") || c.method.starts_with("s_") {
            t.add("param_checks", 1);
        }
        let ok = match (&c.expect, got) {
            (HV::Err(_), HV::Err(_)) => true,
            (a, b) => a == b,
        };
        if !ok {
            f.push(Finding {
                class: format!("value:method:{}", c.method),
                detail: format!(
                    "{}.{}({}) returned {} expected {}",
                    c.inst,
                    c.method,
                    c.args
                        .iter()
                        .map(|a| match a {
                            Arg::Bits(v) => v.hex(),
                            Arg::Str(s) => format!("{s:?}"),
                        })
                        .collect::<Vec<_>>()
                        .join(", "),
                    got.show(),
                    c.expect.show()
                ),
            });
        }
    }
    f
}

// ---------------------------------------------------------------------------
// Generators
// ---------------------------------------------------------------------------

const EDGE_WIDTHS: &[usize] = &[1, 2, 3, 7, 8, 16, 31, 32, 33, 63, 64, 65, 96, 100, 127, 128, 129, 191, 192, 193, 255, 256, 257, 299, 300];

fn pick_width(rng: &mut Rng, max: usize) -> usize {
    loop {
        let w = if rng.chance(1, 2) { *rng.pick(EDGE_WIDTHS) } else { rng.range(1, 300) as usize };
        if w <= max {
            return w;
        }
    }
}

fn rand2(rng: &mut Rng, width: usize) -> TVal {
    vgen::sim::random_value(rng, width)
}

/// A random 4-state value: random payload plus a random X/Z mask of random density.
fn rand4(rng: &mut Rng, width: usize) -> TVal {
    let n = words_for(width);
    let base = rand2(rng, width);
    let mode = rng.below(8);
    let xz: Vec<u64> = (0..n)
        .map(|i| match mode {
            0 => 0,
            1 => u64::MAX,
            2 => rng.next_u64() & rng.next_u64() & rng.next_u64(),
            3 => {
                // only the top word carries X/Z
                if i == n - 1 { rng.next_u64() | 1 } else { 0 }
            }
            4 => {
                // only the lowest word
                if i == 0 { rng.next_u64() } else { 0 }
            }
            5 => 1u64 << rng.below(64),
            _ => rng.next_u64(),
        })
        .collect();
    let payload: Vec<u64> = if rng.chance(1, 2) { (0..n).map(|_| rng.next_u64()).collect() } else { base.payload.clone() };
    let mut v = tval(width, payload, xz);
    if mode == 3 && v.xz[n - 1] == 0 {
        // make sure the most significant bit is X/Z
        v.xz[n - 1] = 1u64 << ((width - 1) % 64);
    }
    v
}

fn lit(v: &TVal) -> String {
    format!("{}'h{}", v.width, hex_words(&v.payload))
}

const CLOCKED_FLAVOURS: &[&str] = &["c35_echo", "c35_echo_words", "c35_echo_u64"];

fn pick_flavour(rng: &mut Rng, width: usize) -> &'static str {
    loop {
        let f = *rng.pick(CLOCKED_FLAVOURS);
        if f == "c35_echo_u64" && width > 64 {
            continue;
        }
        return f;
    }
}

const TIMING_TEMPLATES: &[&str] = &["side_by_side", "comp_to_ff", "ff_to_comp", "comp_to_comp", "comp_to_comp_rev", "comb_around", "inline_expr", "ring", "reset", "gated_clock", "divided_clock", "ff_clock"];

fn gen_timing(rng: &mut Rng, case: u64, ncycles: usize) -> Scenario {
    let template = TIMING_TEMPLATES[(case % TIMING_TEMPLATES.len() as u64) as usize];
    let w = pick_width(rng, 300);
    let fl = if template == "reset" { "c35_echo_rst" } else { pick_flavour(rng, w) };
    let fl2 = pick_flavour(rng, w);
    let k = rand2(rng, w);
    let k = if k.payload.iter().all(|x| *x == 0) { tval(w, vec![1], vec![]) } else { k };
    let klit = lit(&k);
    let hdr = |extra_in: &str, outs: &[&str]| -> String {
        let mut s = String::from("#[test(c35t)]\nmodule C35T (\n    clk: input clock,\n");
        s.push_str(extra_in);
        s.push_str(&format!("    d: input logic<{w}>,\n"));
        for o in outs {
            s.push_str(&format!("    {o}: output logic<{w}>,\n"));
        }
        s.push_str(") {\n");
        s
    };
    let mut pairs = vec![];
    let mut p = |r: &str, c: &str, warm: usize| {
        pairs.push(Pair {
            reference: r.into(),
            comp: c.into(),
            warmup: warm,
        })
    };
    let mut observe: Vec<String> = vec![];
    let mut reset = None;
    let mut extra_inputs: Vec<(&str, usize)> = vec![];
    let text = match template {
        "side_by_side" => {
            observe = vec!["r1".into(), "c1".into()];
            p("r1", "c1", 1);
            format!(
                "{}    always_ff (clk) {{\n        r1 = d;\n    }}\n    inst u: $comp::{fl} (clk, d, q: c1);\n}}\n",
                hdr("", &["r1", "c1"])
            )
        }
        "comp_to_ff" => {
            observe = vec!["r1".into(), "r2".into(), "c1".into(), "c2".into()];
            p("r1", "c1", 1);
            p("r2", "c2", 2);
            format!(
                "{}    always_ff (clk) {{\n        r1 = d;\n        r2 = r1;\n        c2 = c1;\n    }}\n    inst u: $comp::{fl} (clk, d, q: c1);\n}}\n",
                hdr("", &["r1", "r2", "c1", "c2"])
            )
        }
        "ff_to_comp" => {
            observe = vec!["r1".into(), "r2".into(), "c2".into()];
            p("r2", "c2", 2);
            format!(
                "{}    always_ff (clk) {{\n        r1 = d;\n        r2 = r1;\n    }}\n    inst u: $comp::{fl} (clk, d: r1, q: c2);\n}}\n",
                hdr("", &["r1", "r2", "c2"])
            )
        }
        "comp_to_comp" | "comp_to_comp_rev" => {
            observe = vec!["r1".into(), "r2".into(), "c1".into(), "c2".into()];
            p("r1", "c1", 1);
            p("r2", "c2", 2);
            let a = format!("    inst a: $comp::{fl} (clk, d, q: c1);\n");
            let b = format!("    inst b: $comp::{fl2} (clk, d: c1, q: c2);\n");
            let (x, y) = if template == "comp_to_comp" { (a, b) } else { (b, a) };
            format!(
                "{}    always_ff (clk) {{\n        r1 = d;\n        r2 = r1;\n    }}\n{x}{y}}}\n",
                hdr("", &["r1", "r2", "c1", "c2"])
            )
        }
        "comb_around" => {
            observe = vec!["r1".into(), "c1".into(), "ry".into(), "cy".into()];
            p("r1", "c1", 1);
            p("ry", "cy", 1);
            format!(
                "{}    var x: logic<{w}>;\n    assign x = d ^ {klit};\n    always_ff (clk) {{\n        r1 = x;\n    }}\n    assign ry = r1 + {w}'d1;\n    inst u: $comp::{fl} (clk, d: x, q: c1);\n    assign cy = c1 + {w}'d1;\n}}\n",
                hdr("", &["r1", "c1", "ry", "cy"])
            )
        }
        "inline_expr" => {
            observe = vec!["r1".into(), "c1".into()];
            p("r1", "c1", 1);
            let e = match rng.below(3) {
                0 => format!("d ^ {klit}"),
                1 => "~d".to_string(),
                _ => {
                    if w == 1 {
                        "d[0]".to_string()
                    } else {
                        format!("d[{}:0]", w - 1)
                    }
                }
            };
            format!(
                "{}    always_ff (clk) {{\n        r1 = {e};\n    }}\n    inst u: $comp::{fl} (clk, d: {e}, q: c1);\n}}\n",
                hdr("", &["r1", "c1"])
            )
        }
        "ring" => {
            observe = vec!["rc".into(), "cnt".into(), "r1".into(), "c1".into()];
            p("rc", "cnt", 3);
            p("r1", "c1", 3);
            extra_inputs.push(("load", 1));
            format!(
                "{}    always_ff (clk) {{\n        if load {{\n            cnt = d;\n            rc  = d;\n        }} else {{\n            cnt = c1 + {klit};\n            rc  = r1 + {klit};\n        }}\n        r1 = rc;\n    }}\n    inst u: $comp::{fl} (clk, d: cnt, q: c1);\n}}\n",
                hdr("    load: input logic,\n", &["rc", "cnt", "r1", "c1"])
            )
        }
        "gated_clock" => {
            // RTL register and component both on `clk & en`
            observe = vec!["r1".into(), "c1".into()];
            p("r1", "c1", 1);
            extra_inputs.push(("en", 1));
            format!(
                "{}    let clk_g: '_ clock = clk & en;\n    always_ff (clk_g) {{\n        r1 = d;\n    }}\n    inst u: $comp::{fl} (clk: clk_g, d, q: c1);\n}}\n",
                hdr("    en: input logic,\n", &["r1", "c1"])
            )
        }
        "divided_clock" | "ff_clock" => {
            // RTL register and component both on a clock driven by a flip-flop
            // (fires after the master edge's commit); data comes from a master-domain FF
            observe = vec!["r1".into(), "c1".into(), "s".into()];
            p("r1", "c1", 5);
            extra_inputs.push(("init", 1));
            let clkexpr = if template == "divided_clock" { "clk & t" } else { "t" };
            format!(
                "{}    var t: logic;\n    always_ff (clk) {{\n        if init {{\n            t = 0;\n        }} else {{\n            t = ~t;\n        }}\n        s = d;\n    }}\n    let clk_d: '_ clock = {clkexpr};\n    always_ff (clk_d) {{\n        r1 = s;\n    }}\n    inst u: $comp::{fl} (clk: clk_d, d: s, q: c1);\n}}\n",
                hdr("    init: input logic,\n", &["r1", "c1", "s"])
            )
        }
        _ => {
            // reset
            observe = vec!["r1".into(), "c1".into()];
            p("r1", "c1", 1);
            reset = Some("rst".to_string());
            format!(
                "{}    always_ff (clk, rst) {{\n        if_reset {{\n            r1 = 0;\n        }} else {{\n            r1 = d;\n        }}\n    }}\n    inst u: $comp::{fl} (clk, rst, d, q: c1);\n}}\n",
                hdr("    rst: input reset,\n", &["r1", "c1"])
            )
        }
    };
    let hold = rng.below(4);
    let mut cycles = vec![];
    let mut prev: Option<TVal> = None;
    for c in 0..ncycles {
        let v = match &prev {
            Some(pv) if rng.below(4) < hold => pv.clone(),
            _ => rand2(rng, w),
        };
        prev = Some(v.clone());
        let mut sets = vec![("d".to_string(), v)];
        for (n, iw) in &extra_inputs {
            let on = if *n == "en" { rng.bool() } else { c < 2 || rng.chance(1, 8) };
            sets.push((n.to_string(), tval(*iw, vec![on as u64], vec![])));
        }
        cycles.push(Cycle {
            sets,
            reset: reset.is_some() && (c == 0 || rng.chance(1, 6)),
        });
    }
    let flavour = if template.starts_with("comp_to_comp") { format!("{fl}+{fl2}") } else { fl.to_string() };
    Scenario {
        kind: "timing".into(),
        template: template.into(),
        flavour,
        text,
        top: "C35T".into(),
        width: w,
        clock: "clk".into(),
        reset,
        cycles,
        inputs: vec!["d".into()],
        observe,
        pairs,
        echo: None,
        rec: None,
        calls: vec![],
        tb_expect: vec![],
        init_expect: vec![],
    }
}

fn gen_value(rng: &mut Rng, case: u64, ncycles: usize) -> Scenario {
    // walk the widths systematically (1..=300 and back), flavours and connection shapes randomly
    let w = if case % 3 == 0 { pick_width(rng, 300) } else { 1 + ((case / 3 * 7 + case) % 300) as usize };
    let fl = pick_flavour(rng, w);
    let in_shape = rng.below(3);
    let out_shape = rng.below(2);
    let (conn, pre_decl, template_in) = match in_shape {
        0 => ("d".to_string(), String::new(), "port"),
        1 => {
            let e = if w == 1 { "d[0]".to_string() } else { format!("d[{}:0]", w - 1) };
            (e, String::new(), "select")
        }
        _ => ("dv".to_string(), format!("    var dv: logic<{w}>;\n    assign dv = d;\n"), "comb_var"),
    };
    let (qconn, post_decl, template_out) = match out_shape {
        0 => ("q".to_string(), String::new(), "port"),
        _ => ("qi".to_string(), format!("    var qi: logic<{w}>;\n    assign q = qi;\n"), "via_assign"),
    };
    let sg = if rng.chance(1, 4) { "signed " } else { "" };
    let text = format!(
        "#[test(c35v)]\nmodule C35V (\n    clk: input clock,\n    d: input {sg}logic<{w}>,\n    q: output {sg}logic<{w}>,\n) {{\n{pre_decl}{post_decl}    inst e: $comp::{fl} (clk, d: {conn}, q: {qconn});\n    inst r: $comp::c35_rec (clk, d: {conn});\n}}\n"
    );
    let mut cycles = vec![];
    for c in 0..ncycles {
        let v = match c % 4 {
            0 => rand2(rng, w),
            _ => rand4(rng, w),
        };
        cycles.push(Cycle {
            sets: vec![("d".into(), v)],
            reset: false,
        });
    }
    Scenario {
        kind: "value".into(),
        template: format!("in:{template_in}/out:{template_out}"),
        flavour: fl.into(),
        text,
        top: "C35V".into(),
        width: w,
        clock: "clk".into(),
        reset: None,
        cycles,
        inputs: vec!["d".into()],
        observe: vec!["q".into()],
        pairs: vec![],
        echo: Some(EchoCheck {
            input: "d".into(),
            output: "q".into(),
            drops_xz: fl != "c35_echo",
        }),
        rec: Some(("r".into(), "d".into())),
        calls: vec![],
        tb_expect: vec![],
        init_expect: vec![],
    }
}

fn fnv(b: &[u8]) -> u64 {
    let mut h: u64 = 0xcbf2_9ce4_8422_2325;
    for c in b {
        h ^= *c as u64;
        h = h.wrapping_mul(0x0000_0100_0000_01b3);
    }
    h
}

fn rand_str(rng: &mut Rng, max: usize) -> String {
    const CH: &[u8] = b"abcdefghijklmnopqrstuvwxyzABCDEFGHIJKLMNOPQRSTUVWXYZ0123456789 _-+.,:;!?()[]<>=/*#@$%&";
    let n = match rng.below(4) {
        0 => 0,
        1 => rng.below(8) as usize,
        _ => rng.below(max as u64 + 1) as usize,
    };
    (0..n).map(|_| CH[rng.usize(CH.len())] as char).collect()
}

fn bits_hv(v: &TVal) -> HV {
    HV::Bits {
        width: v.width as u32,
        words: v.payload.clone(),
    }
}

fn u64_hv(v: u64) -> HV {
    HV::Bits {
        width: 64,
        words: vec![v],
    }
}

fn gen_method(rng: &mut Rng, _case: u64, ncalls: usize) -> Scenario {
    let pw = pick_width(rng, 300);
    let p = rand2(rng, pw);
    let s = rand_str(rng, 120);
    let qw = pick_width(rng, 300);
    let p2 = rand2(rng, qw);
    let k2 = rand2(rng, qw);
    let y2 = tval(qw, p2.payload.iter().zip(k2.payload.iter()).map(|(a, b)| a ^ b).collect(), vec![]);
    let text = format!(
        "#[test(c35m)]\nmodule C35M (\n    clk: input clock,\n    q0: output logic<{qw}>,\n    y0: output logic<{qw}>,\n) {{\n    inst p: $comp::c35_probe #( P: {}, S: \"{}\" );\n    inst i: $comp::c35_init #( P: {} ) ( q: q0 );\n    assign y0 = q0 ^ {};\n}}\n",
        lit(&p),
        s,
        lit(&p2),
        lit(&k2)
    );
    let call = |m: &str, args: Vec<Arg>, expect: HV| Call {
        inst: "p".into(),
        method: m.into(),
        args,
        expect,
    };
    let mut calls = vec![
        call("param", vec![], bits_hv(&p)),
        call("param_width", vec![], u64_hv(pw as u64)),
        call("s_len", vec![], u64_hv(s.len() as u64)),
        call("s_hash", vec![], u64_hv(fnv(s.as_bytes()))),
        call("unit", vec![], HV::Unit),
        call("nargs", vec![], u64_hv(0)),
        call("no_such_method", vec![], HV::Err(String::new())),
    ];
    for _ in 0..ncalls {
        let w = pick_width(rng, 300);
        let a = rand2(rng, w);
        match rng.below(6) {
            0 | 1 => calls.push(call("echo", vec![Arg::Bits(a.clone())], bits_hv(&a))),
            2 => calls.push(call("width_of", vec![Arg::Bits(a.clone())], u64_hv(w as u64))),
            3 => {
                let b = rand2(rng, w);
                let x = tval(w, a.payload.iter().zip(b.payload.iter()).map(|(x, y)| x ^ y).collect(), vec![]);
                calls.push(call("xor", vec![Arg::Bits(a.clone()), Arg::Bits(b)], bits_hv(&x)));
            }
            4 => {
                let n = 1 + rng.below(5) as usize;
                let mut args: Vec<Arg> = (0..n - 1)
                    .map(|_| {
                        let ww = pick_width(rng, 300);
                        Arg::Bits(rand2(rng, ww))
                    })
                    .collect();
                args.push(Arg::Bits(a.clone()));
                if rng.bool() {
                    calls.push(call("last", args, bits_hv(&a)));
                } else {
                    calls.push(call("nargs", args, u64_hv(n as u64)));
                }
            }
            _ => {
                let t = rand_str(rng, 200);
                calls.push(call("str_hash", vec![Arg::Str(t.clone())], u64_hv(fnv(t.as_bytes()))));
            }
        }
    }
    Scenario {
        kind: "method".into(),
        template: "probe".into(),
        flavour: "c35_probe".into(),
        text,
        top: "C35M".into(),
        width: pw,
        clock: "clk".into(),
        reset: None,
        cycles: vec![],
        inputs: vec![],
        observe: vec![],
        pairs: vec![],
        echo: None,
        rec: None,
        calls,
        tb_expect: vec![],
        init_expect: vec![("q0".into(), p2), ("y0".into(), y2)],
    }
}

/// The same probe component, but driven the way a user drives it: method calls
/// written in the test module's `initial` block, arguments marshalled from Veryl
/// values (`host_value_from`), returns assigned to Veryl variables
/// (`host_value_to_value`), executed by the real `run_testbench`.
fn gen_tb(rng: &mut Rng, _case: u64, ncalls: usize) -> Scenario {
    let pw = pick_width(rng, 300);
    let p = rand2(rng, pw);
    let s = rand_str(rng, 60);
    let mut decls = String::new();
    let mut body = String::new();
    let mut expect: Vec<(String, TVal)> = vec![];
    let u64v = |v: u64| tval(64, vec![v], vec![]);
    decls.push_str(&format!("    var rp: logic<{pw}>;\n    var rw: logic<64>;\n    var rl: logic<64>;\n"));
    body.push_str("        rp = p.get_p();\n        rw = p.param_width();\n        rl = p.s_len();\n        p.unit();\n");
    expect.push(("rp".into(), p.clone()));
    expect.push(("rw".into(), u64v(pw as u64)));
    expect.push(("rl".into(), u64v(s.len() as u64)));
    for i in 0..ncalls {
        let w = pick_width(rng, 300);
        let a = rand2(rng, w);
        let r = format!("r{i}");
        // argument as a literal or through a testbench variable
        let via_var = rng.chance(1, 3);
        let arg = if via_var {
            decls.push_str(&format!("    var a{i}: logic<{w}>;\n"));
            body.push_str(&format!("        a{i} = {};\n", lit(&a)));
            format!("a{i}")
        } else {
            lit(&a)
        };
        match rng.below(5) {
            0 | 1 => {
                decls.push_str(&format!("    var {r}: logic<{w}>;\n"));
                body.push_str(&format!("        {r} = p.echo({arg});\n"));
                expect.push((r, a));
            }
            2 => {
                decls.push_str(&format!("    var {r}: logic<64>;\n"));
                body.push_str(&format!("        {r} = p.width_of({arg});\n"));
                expect.push((r, u64v(w as u64)));
            }
            3 => {
                let b = rand2(rng, w);
                let x = tval(w, a.payload.iter().zip(b.payload.iter()).map(|(x, y)| x ^ y).collect(), vec![]);
                decls.push_str(&format!("    var {r}: logic<{w}>;\n"));
                body.push_str(&format!("        {r} = p.xor({arg}, {});\n", lit(&b)));
                expect.push((r, x));
            }
            _ => {
                let t = rand_str(rng, 80);
                decls.push_str(&format!("    var {r}: logic<64>;\n"));
                body.push_str(&format!("        {r} = p.str_hash(\"{t}\");\n"));
                expect.push((r, u64v(fnv(t.as_bytes()))));
            }
        }
    }
    let text = format!(
        "#[test(c35tb)]\nmodule C35TB {{\n    inst p: $comp::c35_probe #( P: {}, S: \"{}\" );\n{decls}    initial {{\n{body}        $finish();\n    }}\n}}\n",
        lit(&p),
        s
    );
    Scenario {
        kind: "tb".into(),
        template: "initial_block".into(),
        flavour: "c35_probe".into(),
        text,
        top: "C35TB".into(),
        width: pw,
        clock: String::new(),
        reset: None,
        cycles: vec![],
        inputs: vec![],
        observe: vec![],
        pairs: vec![],
        echo: None,
        rec: None,
        calls: vec![],
        tb_expect: expect,
        init_expect: vec![],
    }
}

// ---------------------------------------------------------------------------
// One case = one scenario on every engine x every available transport
// ---------------------------------------------------------------------------

#[derive(Default)]
struct CaseOut {
    tally: Tally,
    seen: Vec<(String, String)>,
    violations: Vec<(String, String, Json)>,
    notes: Vec<String>,
    sample: Option<Json>,
    nontrivial: Option<u64>,
    inconclusive: Vec<String>,
}

/// `c35_mix`: the read API for `d` and the write API for `q` change from hook to hook
/// on the SAME ports (masked Value / write_words / write_u64 / fully known Value;
/// read / read_words / read_u64).  Three sequences are forced in every case: a masked
/// write followed by a scalar (or words, when wide) write, by a words write, and by a
/// known-Value write.
fn gen_mix(rng: &mut Rng, case: u64, ncycles: usize) -> Scenario {
    let w = if case % 2 == 0 {
        if rng.bool() { *rng.pick(&[1usize, 2, 7, 8, 16, 31, 32, 33, 63, 64]) } else { rng.range(1, 64) as usize }
    } else {
        pick_width(rng, 300)
    };
    let text = format!(
        "#[test(c35x)]\nmodule C35X (\n    clk: input clock,\n    d: input logic<{w}>,\n    sel: input logic<4>,\n    q: output logic<{w}>,\n    y: output logic<{w}>,\n    r: output logic<{w}>,\n) {{\n    inst m: $comp::c35_mix (clk, d, sel, q);\n    assign y = q;\n    always_ff (clk) {{\n        r = q;\n    }}\n}}\n"
    );
    let masked = |rng: &mut Rng| -> TVal {
        let mut v = rand4(rng, w);
        if !v.has_xz() {
            v.xz[0] |= 1;
        }
        v
    };
    let ncycles = ncycles.max(10);
    let mut ds: Vec<TVal> = (0..ncycles).map(|_| if rng.chance(3, 4) { rand4(rng, w) } else { rand2(rng, w) }).collect();
    let mut sels: Vec<u64> = (0..ncycles).map(|_| rng.below(16)).collect();
    // forced sequences: (masked write, then write mode m) at cycles (k, k+1)
    for (k, m) in [(1usize, 2u64), (4, 1), (7, 3)] {
        ds[k] = masked(rng);
        sels[k] = if rng.bool() { 0 } else { 3 << 2 }; // full read, masked write
        ds[k + 1] = if rng.bool() { rand2(rng, w) } else { rand4(rng, w) };
        sels[k + 1] = (rng.below(4) << 2) | m;
    }
    let cycles = ds
        .into_iter()
        .zip(sels)
        .map(|(d, s)| Cycle {
            sets: vec![("d".into(), d), ("sel".into(), tval(4, vec![s], vec![]))],
            reset: false,
        })
        .collect();
    Scenario {
        kind: "mix".into(),
        template: "mixed_read_write_apis".into(),
        flavour: "c35_mix".into(),
        text,
        top: "C35X".into(),
        width: w,
        clock: "clk".into(),
        reset: None,
        cycles,
        inputs: vec!["d".into(), "sel".into()],
        observe: vec!["q".into(), "y".into(), "r".into()],
        pairs: vec![],
        echo: None,
        rec: None,
        calls: vec![],
        tb_expect: vec![],
        init_expect: vec![],
    }
}

fn engines_for(sc: &Scenario, rng: &mut Rng, all_engines: bool) -> Vec<Engine> {
    let all = Engine::all();
    match sc.kind.as_str() {
        "timing" => all,
        "value" if all_engines => all,
        "value" | "mix" => {
            // both state modes, both engines; ff-opt toggle at random
            let mut v = vec![];
            for four_state in [false, true] {
                for jit in [false, true] {
                    v.push(Engine {
                        four_state,
                        jit,
                        disable_ff_opt: rng.bool(),
                    });
                }
            }
            v
        }
        _ => vec![
            Engine {
                four_state: false,
                jit: false,
                disable_ff_opt: false,
            },
            Engine {
                four_state: true,
                jit: true,
                disable_ff_opt: false,
            },
        ],
    }
}

fn replay_json(sc: &Scenario, engine: Engine, transport: Transport, other: Option<Transport>) -> Json {
    json!({
        "scenario": sc.to_json(),
        "engine": engine.name(),
        "transport": transport.name(),
        "compare_with_transport": other.map(|t| t.name()),
    })
}

/// Input class of a scenario for violation signatures: which boundary path its
/// components use.
fn path_class(sc: &Scenario) -> &'static str {
    if sc.flavour.contains("c35_echo_words") || sc.flavour.contains("c35_echo_u64") {
        "fast_path" // NULL mask pointers (read_words/write_words/read_u64/write_u64)
    } else if sc.flavour.contains("c35_echo_rst") {
        "value_path+reset"
    } else if sc.flavour.contains("c35_mix") {
        "mixed_api"
    } else if sc.flavour.contains("c35_probe") {
        "methods"
    } else {
        "value_path"
    }
}

fn run_case(sc: &Scenario, engines: &[Engine], transports: &[Transport], libs: &Libs) -> CaseOut {
    let mut co = CaseOut::default();
    let class4 = |e: Engine| if e.four_state { "4st" } else { "2st" };
    let mut any_ok = false;
    for &e in engines {
        let mut base: Option<(Transport, RunOut)> = None;
        for &t in transports {
            co.tally.add("runs", 1);
            match run_scenario(sc, e, t, libs) {
                RunResult::Panicked(m) => {
                    co.tally.add("runs_panicked_not_judged", 1);
                    co.notes.push(format!("{} {} {} {}: panic in real code: {m}", sc.kind, sc.template, e.name(), t.name()));
                }
                RunResult::Rejected(stage, msg) => {
                    co.tally.add(&format!("runs_rejected_at_{stage}"), 1);
                    if t == Transport::Static || base.is_none() {
                        co.notes.push(format!("{} {} w={} {} {}: rejected at {stage}: {msg}", sc.kind, sc.template, sc.width, e.name(), t.name()));
                    } else if stage == "init_components" {
                        // the in-process transport accepted the very same design
                        co.violations.push((
                            format!("transport:load:{}:{}", t.name(), path_class(sc)),
                            format!(
                                "{} {} w={} [{}]: component loads and runs on transport {} but fails on {}: {msg}",
                                sc.kind,
                                sc.template,
                                sc.width,
                                e.name(),
                                base.as_ref().unwrap().0.name(),
                                t.name()
                            ),
                            replay_json(sc, e, t, None),
                        ));
                    }
                }
                RunResult::Ok(out) => {
                    let out = normalise(out);
                    any_ok = true;
                    co.tally.add("runs_judged", 1);
                    co.tally.add(&format!("runs_{}", t.name()), 1);
                    co.seen.push(("transports".into(), t.name().into()));
                    co.seen.push(("engines".into(), e.name()));
                    let mut tl = Tally::default();
                    let findings = judge(sc, e, &out, &mut tl);
                    if tl.counts.get("timing_component_output_changes").copied().unwrap_or(0) >= 4 {
                        co.seen.push(("timing_templates_with_activity".into(), sc.template.clone()));
                    }
                    for (k, v) in tl.counts {
                        co.tally.add(&k, v);
                        co.tally.add(&format!("{k}_{}", t.name()), v);
                    }
                    for f in findings {
                        if f.class == "component_failure" && t == Transport::Static {
                            // the fixture itself failed on the reference transport: a harness problem
                            co.inconclusive.push(format!("fixture component failed in-process: {}", f.detail));
                            continue;
                        }
                        co.violations.push((
                            format!("{}:{}:{}:{}:{}", f.class, sc.kind, path_class(sc), t.name(), class4(e)),
                            format!("{} {} {} w={} [{} / {}]: {}", sc.kind, sc.template, sc.flavour, sc.width, e.name(), t.name(), f.detail),
                            replay_json(sc, e, t, None),
                        ));
                    }
                    // (3) transports must agree with each other, observation by observation
                    match &base {
                        None => base = Some((t, out)),
                        Some((bt, bo)) => {
                            co.tally.add("transport_pairs_compared", 1);
                            if *bo != out {
                                let what = first_difference(sc, bo, &out);
                                let how = if what.contains("/xz:") && xz_only_difference(bo, &out) { "xz_mask_only" } else { "values" };
                                co.violations.push((
                                    format!("transport:differs:{how}:{}:{}:{}:{}", sc.kind, path_class(sc), t.name(), class4(e)),
                                    format!(
                                        "{} {} {} w={} [{}]: transport {} and transport {} disagree: {}",
                                        sc.kind,
                                        sc.template,
                                        sc.flavour,
                                        sc.width,
                                        e.name(),
                                        bt.name(),
                                        t.name(),
                                        what
                                    ),
                                    replay_json(sc, e, t, Some(*bt)),
                                ));
                            }
                        }
                    }
                }
            }
        }
    }
    if any_ok {
        co.tally.add(&format!("{}_cases", sc.kind), 1);
        co.seen.push(("widths".into(), format!("{:03}", sc.width)));
        if sc.width > 64 {
            co.tally.add("cases_wider_than_64", 1);
        }
        if sc.width > 128 {
            co.tally.add("cases_wider_than_128", 1);
        }
        co.seen.push(("templates".into(), format!("{}:{}", sc.kind, sc.template)));
        co.seen.push(("flavours".into(), sc.flavour.clone()));
        if sc.kind == "value" && sc.cycles.iter().any(|c| c.sets.iter().any(|(_, v)| v.has_xz())) {
            co.tally.add("value_cases_with_nonzero_mask", 1);
        }
        for k in ["scalar_write_after_masked_write", "words_write_after_masked_write", "known_value_write_after_masked_write"] {
            if co.tally.counts.get(k).copied().unwrap_or(0) > 0 {
                co.tally.add(&format!("{k}_cases"), 1);
            }
        }
        co.nontrivial = Some(hash_str(&format!("{}{:?}{:?}", sc.text, sc.cycles, sc.calls)));
        co.sample = Some(json!({
            "kind": sc.kind, "template": sc.template, "flavour": sc.flavour, "width": sc.width,
            "design": sc.text,
            "first_stimuli": sc.cycles.iter().take(3).map(|c| c.sets.iter().map(|(n, v)| format!("{n}={}", v.hex())).collect::<Vec<_>>()).collect::<Vec<_>>(),
            "first_calls": sc.calls.iter().take(3).map(|c| format!("{}.{} -> {}", c.inst, c.method, c.expect.show())).collect::<Vec<_>>(),
            "engines": engines.iter().map(|e| e.name()).collect::<Vec<_>>(),
            "transports": transports.iter().map(|t| t.name()).collect::<Vec<_>>(),
        }));
    }
    co
}

/// True when two runs differ only in X/Z mask bits of sampled port values.
fn xz_only_difference(a: &RunOut, b: &RunOut) -> bool {
    let strip = |o: &RunOut| -> RunOut {
        let mut o = o.clone();
        for row in o.post.iter_mut() {
            for v in row.iter_mut() {
                for w in v.xz.iter_mut() {
                    *w = 0;
                }
            }
        }
        o
    };
    strip(a) == strip(b)
}

fn first_difference(sc: &Scenario, a: &RunOut, b: &RunOut) -> String {
    for (c, (x, y)) in a.post.iter().zip(b.post.iter()).enumerate() {
        for (o, (p, q)) in x.iter().zip(y.iter()).enumerate() {
            if p != q {
                return format!("cycle {c} `{}`: {} vs {}", sc.observe[o], p.hex(), q.hex());
            }
        }
    }
    if a.rec_count != b.rec_count {
        return format!("recorder count {:?} vs {:?}", a.rec_count, b.rec_count);
    }
    for (c, (x, y)) in a.rec_seen.iter().zip(b.rec_seen.iter()).enumerate() {
        if x != y {
            return format!("recorded hook {c}: ({}, {}, {}) vs ({}, {}, {})", x.0.show(), x.1.show(), x.2.show(), y.0.show(), y.1.show(), y.2.show());
        }
    }
    for (i, (x, y)) in a.calls.iter().zip(b.calls.iter()).enumerate() {
        if x != y {
            // error texts may legitimately differ in wording between guests
            if matches!((x, y), (HV::Err(_), HV::Err(_))) {
                continue;
            }
            return format!("call {} `{}`: {} vs {}", i, sc.calls[i].method, x.show(), y.show());
        }
    }
    if a.failures != b.failures {
        return format!("component failures {:?} vs {:?}", a.failures, b.failures);
    }
    if a.init_vals != b.init_vals {
        return format!("on_init outputs {:?} vs {:?}", a.init_vals.iter().map(|v| v.hex()).collect::<Vec<_>>(), b.init_vals.iter().map(|v| v.hex()).collect::<Vec<_>>());
    }
    if a.tb_result != b.tb_result {
        return format!("testbench result {:?} vs {:?}", a.tb_result, b.tb_result);
    }
    for (i, (x, y)) in a.tb_vars.iter().zip(b.tb_vars.iter()).enumerate() {
        if x != y {
            return format!("testbench variable `{}`: {:?} vs {:?}", sc.tb_expect[i].0, x.as_ref().map(|v| v.hex()), y.as_ref().map(|v| v.hex()));
        }
    }
    if a.pre != b.pre {
        return "pre-edge input samples differ".into();
    }
    "only error message wording differs".into()
}

/// RunOut equality that ignores the wording of error messages.
fn normalise(mut o: RunOut) -> RunOut {
    for c in o.calls.iter_mut() {
        if let HV::Err(_) = c {
            *c = HV::Err(String::new());
        }
    }
    o
}

// ---------------------------------------------------------------------------

pub fn main(args: Args) {
    let run = Arc::new(Run::new(
        args.clone(),
        "exploration",
        "five generated case families, each run on every engine configuration (interpreter/JIT x 2/4-state x ff-opt on/off) \
         and every available component transport: (timing) 12 design templates placing an echo component next to / before / after / \
         between RTL registers, random width 1..300 and random two-state stimulus; (value) echo + recorder components on a port of \
         width 1..300 driven with random payloads and random X/Z masks through three connection shapes; (method) a probe component \
         with a random literal parameter (1..300 bits) and string parameter, and random method calls through Simulator::call_component_method; \
         (tb) the same probe driven from a generated `initial` block through run_testbench (arguments marshalled from Veryl values, returns \
         assigned to Veryl variables); \
         (mix) a component that changes, from clock hook to clock hook and on the same ports, which read API samples its input and which write API \
         drives its output (masked Value / write_words / write_u64 / fully known Value), with masked-then-scalar/words/known sequences forced in every case. A case is non-trivial when at \
         least one run of it was accepted by the analyzer, built and stepped; distinct = distinct (design text, stimulus, calls)",
    ));
    run.assume("the RTL register `always_ff { q = d; }` of the same design under the same engine is the timing reference (C01/C02 own its correctness)");
    run.assume("Simulator::get on the connected top-level port right before the step is the value 'the simulator holds' (C36 owns the driver-side encoding)");
    run.assume("the Rust fixture (fixtures/c35_comp) and the C fixture (fixtures/c35_cguest/guest.c) implement echo/record/probe faithfully; sabotage switch C35_SABOTAGE unset");
    run.assume("two-state fast-path flavours (read_words/write_words, read_u64/write_u64, NULL mask pointers) are judged by their documented contract: X/Z dropped, known bits intact");

    // ----- replay -------------------------------------------------------------
    if let Some(rp) = &args.replay {
        let v: Json = serde_json::from_str(&std::fs::read_to_string(rp).expect("replay file")).expect("replay json");
        let case = &v["case"];
        let sc = Scenario::from_json(&case["scenario"]);
        let e = Engine::parse(case["engine"].as_str().unwrap_or("")).expect("engine");
        let t = Transport::parse(case["transport"].as_str().unwrap_or("")).expect("transport");
        let rep = c35_build::build_all();
        let mut ts = vec![];
        if let Some(o) = case["compare_with_transport"].as_str().and_then(Transport::parse) {
            ts.push(o);
        }
        ts.push(t);
        for x in &ts {
            if !rep.libs.has(*x) {
                run.inconclusive(format!("transport {} cannot be built here", x.name()));
            }
        }
        let co = run_case(&sc, &[e], &ts, &rep.libs);
        run.eval();
        if let Some(s) = &co.sample {
            run.sample(s.clone());
        }
        if let Some(k) = co.nontrivial {
            run.nontrivial(k);
        }
        for n in &co.notes {
            run.note(n.clone());
            println!("note: {n}");
        }
        for (sig, what, rj) in co.violations {
            run.violation(&sig, &what, rj);
        }
        for (k, v) in &co.tally.counts {
            run.count(k, *v);
        }
        run.finish(&[]);
    }

    // ----- build the transports ---------------------------------------------------
    let rep = c35_build::build_all();
    let mut transports = vec![Transport::Static];
    match (&rep.libs.rust_so, &rep.rust_err) {
        (Some(p), _) => {
            transports.push(Transport::Dlopen);
            run.note(format!("dlopen_rust: {}", p.display()));
        }
        (None, e) => run.inconclusive(format!("the Rust fixture cdylib could not be built: {}", e.clone().unwrap_or_default())),
    }
    match (&rep.libs.c_so, &rep.c_native_err) {
        (Some(p), _) => {
            transports.push(Transport::CNative);
            run.note(format!("dlopen_c: {}", p.display()));
        }
        (None, e) => run.note(format!("dlopen_c UNEXERCISED: {}", e.clone().unwrap_or_default())),
    }
    match (&rep.libs.wasm, &rep.wasm_err) {
        (Some(p), _) => {
            transports.push(Transport::Wasm);
            run.note(format!(
                "wasm_c: {} (freestanding C guest implementing the export/import ABI of crates/component/src/export/wasm.rs; the repo's Rust wasm fixture cannot be built: no wasm32 Rust target)",
                p.display()
            ));
        }
        (None, e) => {
            run.note(format!("wasm clause UNEXERCISED: the C wasm guest could not be built: {}", e.clone().unwrap_or_default()));
            run.assume("UNEXERCISED: 'identical results as native library or WebAssembly' (no wasm guest could be built in this sandbox)");
        }
    }
    run.assume("UNEXERCISED: the Rust guest-side wasm glue (crates/component/src/export/wasm.rs, veryl_component_export! wasm arm) - no wasm32 Rust target; the wasm HOST (simulator/src/component/wasm.rs) is exercised by a C guest");
    run.assume("UNEXERCISED: cc (AOT-C) engine configs; modport/struct connections; multi-clock components; host file service; trace variables");
    run.note("Miri arm (harness/vmiri_comp) prepared but NOT run to completion (build of veryl-simulator under Miri did not finish on the overloaded machine): no Miri result is claimed".to_string());
    if let Some(only) = args.get("transports") {
        let want: Vec<Transport> = only.split(',').filter_map(Transport::parse).collect();
        transports.retain(|t| want.contains(t));
    }
    run.set_extra("transports_exercised", json!(transports.iter().map(|t| t.name()).collect::<Vec<_>>()));
    run.set_extra(
        "sabotage",
        json!(std::env::var("C35_SABOTAGE").ok()),
    );

    let n_timing = args.budget("timing", 60, 180);
    let n_value = args.budget("value", 200, 600);
    let n_method = args.budget("method", 40, 120);
    let n_tb = args.budget("tb", 40, 120);
    let cyc_timing = args.budget("timing_cycles", 40, 60) as usize;
    let cyc_value = args.budget("value_cycles", 8, 10) as usize;
    let n_calls = args.budget("calls", 12, 16) as usize;
    let all_engines_value = args.budget("value_all_engines", 0, 0) != 0;
    let n_mix = args.budget("mix", 60, 180);
    let cyc_mix = args.budget("mix_cycles", 12, 16) as usize;
    let total = n_timing + n_value + n_method + n_tb + n_mix;
    let seed = args.seed;
    let libs = Arc::new(rep.libs.clone());
    let transports = Arc::new(transports);

    let sample_at = [0, n_timing, n_timing + n_value, n_timing + n_value + n_method, n_timing + n_value + n_method + n_tb];
    let run2 = run.clone();
    let libs2 = libs.clone();
    let tr2 = transports.clone();
    // Each case spawns its own fresh threads per run; the case worker itself only generates.
    par_cases(
        total,
        args.jobs,
        8 << 20,
        move |i| {
            let (sc, mut rng) = if i < n_timing {
                let mut rng = Rng::for_case(seed, "C35/timing", i);
                (gen_timing(&mut rng, i, cyc_timing), rng)
            } else if i < n_timing + n_value {
                let k = i - n_timing;
                let mut rng = Rng::for_case(seed, "C35/value", k);
                (gen_value(&mut rng, k + seed * 101, cyc_value), rng)
            } else if i < n_timing + n_value + n_method {
                let k = i - n_timing - n_value;
                let mut rng = Rng::for_case(seed, "C35/method", k);
                (gen_method(&mut rng, k, n_calls), rng)
            } else if i < n_timing + n_value + n_method + n_tb {
                let k = i - n_timing - n_value - n_method;
                let mut rng = Rng::for_case(seed, "C35/tb", k);
                (gen_tb(&mut rng, k, n_calls), rng)
            } else {
                let k = i - n_timing - n_value - n_method - n_tb;
                let mut rng = Rng::for_case(seed, "C35/mix", k);
                (gen_mix(&mut rng, k, cyc_mix), rng)
            };
            let engines = engines_for(&sc, &mut rng, all_engines_value);
            run_case(&sc, &engines, &tr2, &libs2)
        },
        move |i, r| {
            run2.eval();
            match r {
                Err(p) => {
                    run2.inconclusive(format!("case {i}: harness panic {} at {}", p.message, p.location));
                }
                Ok(co) => {
                    for (k, v) in &co.tally.counts {
                        run2.count(k, *v);
                    }
                    for (s, m) in &co.seen {
                        run2.seen(s, m);
                    }
                    for n in co.notes {
                        run2.note(n);
                    }
                    for r in co.inconclusive {
                        run2.inconclusive(r);
                    }
                    if let Some(k) = co.nontrivial {
                        run2.nontrivial(k);
                    }
                    // one sample per family (the first case of each) plus two more
                    if let Some(s) = co.sample
                        && (sample_at.contains(&i) || i % 97 == 5)
                    {
                        run2.sample(s);
                    }
                    for (sig, what, rj) in co.violations {
                        run2.count("violating_observations", 1);
                        run2.violation(&sig, &what, rj);
                    }
                }
            }
        },
    );

    // Non-vacuity floors: a third of what the budgets nominally produce.
    let nt = transports.len() as i64;
    let f_timing = (n_timing as i64) * (cyc_timing as i64 - 3).max(1) * 8 * nt / 3;
    let f_value = (n_value as i64) * (cyc_value as i64) * 4 * nt / 3;
    let f_xz = (n_value as i64) * (cyc_value as i64 / 2).max(1) * 2 * nt / 3;
    let f_calls = (n_method as i64) * (7 + n_calls as i64) * 2 * nt / 3;
    let f_params = (n_method as i64) * 4 * 2 * nt / 3;
    let f_tb = (n_tb as i64) * (3 + n_calls as i64) * 2 * nt / 3;
    let f_widths = ((n_value + n_timing + n_method) as i64 / 8).min(45);
    let mut floors: Vec<(String, i64)> = vec![
        ("timing_cycles_compared".into(), f_timing),
        ("echo_cycles_compared".into(), f_value),
        ("rec_cycles_compared".into(), f_value),
        ("rec_cycles_with_xz".into(), f_xz),
        ("echo_cycles_with_xz".into(), f_xz),
        ("method_calls_checked".into(), f_calls),
        ("param_checks".into(), f_params),
        ("tb_values_checked".into(), f_tb),
        ("mix_cycles_compared".into(), (n_mix as i64) * (cyc_mix as i64) * 4 * nt / 3),
        ("mix_masked_writes".into(), (n_mix as i64) * 2 * nt),
        ("scalar_write_after_masked_write".into(), (n_mix as i64) * nt / 3),
        ("scalar_write_after_masked_write_cases".into(), (n_mix as i64) / 6),
        ("words_write_after_masked_write_cases".into(), (n_mix as i64) / 3),
        ("known_value_write_after_masked_write_cases".into(), (n_mix as i64) / 3),
        ("mix_read_u64".into(), (n_mix as i64) * nt / 3),
        ("mix_fast_read_of_xz_input".into(), (n_mix as i64) * nt / 3),
        ("init_values_checked".into(), f_params / 2),
        ("timing_templates_with_activity".into(), if n_timing >= 12 { 12 } else { 1 }),
        ("widths".into(), f_widths),
        ("cases_wider_than_64".into(), (total as i64) / 6),
        ("cases_wider_than_128".into(), (total as i64) / 10),
        ("value_cases_with_nonzero_mask".into(), (n_value as i64) / 3),
        ("engines".into(), if n_timing > 0 { 8 } else { 2 }),
        ("transports".into(), nt.min(2)),
        ("templates".into(), if n_timing >= 12 { 12 } else { 1 }),
    ];
    for t in transports.iter() {
        floors.push((format!("runs_{}", t.name()), (total as i64) * 2 / 3));
    }
    if n_timing == 0 {
        floors.retain(|(k, _)| k != "timing_cycles_compared" && k != "templates" && k != "timing_templates_with_activity");
    }
    if n_value == 0 {
        floors.retain(|(k, _)| !k.starts_with("echo_") && !k.starts_with("rec_") && k != "value_cases_with_nonzero_mask");
    }
    if n_method == 0 {
        floors.retain(|(k, _)| k != "method_calls_checked" && k != "param_checks" && k != "init_values_checked");
    }
    if n_mix == 0 {
        floors.retain(|(k, _)| !k.starts_with("mix_") && !k.contains("_after_masked_write"));
    }
    if n_tb == 0 {
        floors.retain(|(k, _)| k != "tb_values_checked");
    }
    let fl: Vec<(&str, i64)> = floors.iter().map(|(k, v)| (k.as_str(), *v)).collect();
    run.finish(&fl);
}
