//! mon_comp — user-component monitors; dispatches on --prop.
//!
//! C35: user components see correct values and timing on every transport.

// The fixture components: literally the source of the cdylib that the dlopen
// transport loads, compiled into this binary for the in-process static registry.
#[path = "../../fixtures/c35_comp/src/lib.rs"]
#[allow(dead_code)]
pub mod c35_fixture;

mod c35;
mod c35_build;
mod c35_sim;

use vcommon::Args;

fn main() {
    vcommon::pool::install_panic_hook();
    let args = Args::parse();
    match args.prop.as_str() {
        "C35" => c35::main(args),
        p => {
            eprintln!("mon_comp: unknown property {p}");
            std::process::exit(2);
        }
    }
}
