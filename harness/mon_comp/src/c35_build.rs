//! (Re)build the fixture component libraries the transports need:
//!  * the Rust fixture as a native cdylib (cargo, offline),
//!  * the freestanding C guest as a native shared object (cc) and
//!  * the same C source for wasm32 (clang --target=wasm32 + wasm-ld).
//! Every failure is reported as a reason string; the caller decides whether a
//! missing transport makes the run inconclusive or merely unexercised.

use crate::c35_sim::Libs;
use std::path::{Path, PathBuf};
use std::process::Command;

pub const FIXTURES: &str = concat!(env!("CARGO_MANIFEST_DIR"), "/../fixtures");

pub fn fixture_target() -> PathBuf {
    let bin = std::env::var("VERIF_HARNESS_BIN").unwrap_or_else(|_| {
        // running the binary by hand: <target>/release/mon_comp
        std::env::current_exe()
            .ok()
            .and_then(|p| p.parent().map(|x| x.display().to_string()))
            .unwrap_or_else(|| "/verif/target/harness/release".into())
    });
    Path::new(&bin).parent().unwrap_or(Path::new("/verif/target/harness")).join("fixture")
}

fn run(cmd: &mut Command) -> Result<String, String> {
    let shown = format!("{cmd:?}");
    let out = cmd.output().map_err(|e| format!("cannot run {shown}: {e}"))?;
    let text = format!("{}{}", String::from_utf8_lossy(&out.stdout), String::from_utf8_lossy(&out.stderr));
    if !out.status.success() {
        let tail: Vec<&str> = text.lines().rev().take(12).collect();
        return Err(format!("{shown} failed: {}", tail.into_iter().rev().collect::<Vec<_>>().join(" / ")));
    }
    Ok(text)
}

pub struct BuildReport {
    pub libs: Libs,
    pub notes: Vec<String>,
    pub rust_err: Option<String>,
    pub c_native_err: Option<String>,
    pub wasm_err: Option<String>,
}

pub fn build_all() -> BuildReport {
    let target = fixture_target();
    let _ = std::fs::create_dir_all(&target);
    // one builder at a time per target dir (several seeds may start together)
    let lock = std::fs::OpenOptions::new().create(true).write(true).truncate(false).open(target.join(".c35.lock"));
    if let Ok(f) = &lock {
        let _ = f.lock();
    }
    let mut rep = BuildReport {
        libs: Libs::default(),
        notes: vec![],
        rust_err: None,
        c_native_err: None,
        wasm_err: None,
    };

    // --- Rust cdylib ---------------------------------------------------------
    let manifest = format!("{FIXTURES}/c35_comp/Cargo.toml");
    let mut cmd = Command::new("cargo");
    cmd.args(["build", "--offline", "--release", "--manifest-path", &manifest, "--target-dir"])
        .arg(&target)
        .env("CARGO_NET_OFFLINE", "true")
        .env("CARGO_TERM_COLOR", "never")
        .env_remove("RUSTFLAGS")
        .env_remove("CARGO_TARGET_DIR");
    match run(&mut cmd) {
        Ok(_) => {
            let so = target.join("release").join("libc35_comp.so");
            if so.exists() {
                rep.libs.rust_so = Some(so);
            } else {
                rep.rust_err = Some(format!("cargo succeeded but {} is missing", so.display()));
            }
        }
        Err(e) => rep.rust_err = Some(e),
    }

    // --- C guest, native -----------------------------------------------------
    let csrc = format!("{FIXTURES}/c35_cguest/guest.c");
    let cdir = target.join("cguest");
    let _ = std::fs::create_dir_all(&cdir);
    let c_so = cdir.join("libc35_cguest.so");
    let mut cmd = Command::new("cc");
    cmd.args(["-O2", "-fPIC", "-shared", "-Wall", "-Wextra", "-Werror", "-fvisibility=hidden", "-o"])
        .arg(&c_so)
        .arg(&csrc);
    match run(&mut cmd) {
        Ok(_) => rep.libs.c_so = Some(c_so),
        Err(e) => rep.c_native_err = Some(e),
    }

    // --- C guest, wasm32 -----------------------------------------------------
    let obj = cdir.join("guest.wasm.o");
    let wasm = cdir.join("c35_cguest.wasm");
    let clang = ["clang", "clang-14"].into_iter().find(|c| Command::new(c).arg("--version").output().is_ok());
    let wasm_ld = ["wasm-ld", "wasm-ld-14"].into_iter().find(|c| Command::new(c).arg("--version").output().is_ok());
    match (clang, wasm_ld) {
        (Some(clang), Some(wasm_ld)) => {
            let mut c1 = Command::new(clang);
            c1.args(["--target=wasm32", "-nostdlib", "-ffreestanding", "-fno-builtin", "-O2", "-Wall", "-Wextra", "-Werror", "-c", "-o"])
                .arg(&obj)
                .arg(&csrc);
            let r = run(&mut c1).and_then(|_| {
                let mut c2 = Command::new(wasm_ld);
                c2.args(["--no-entry", "--export-dynamic", "--allow-undefined", "-z", "stack-size=65536", "-o"])
                    .arg(&wasm)
                    .arg(&obj);
                run(&mut c2)
            });
            match r {
                Ok(_) => rep.libs.wasm = Some(wasm),
                Err(e) => rep.wasm_err = Some(e),
            }
        }
        _ => rep.wasm_err = Some("clang with a wasm32 backend and/or wasm-ld not found".into()),
    }
    if let Ok(f) = &lock {
        let _ = f.unlock();
    }
    rep
}
