//! C02 — all simulator engines produce identical traces.
//!
//! Events that refute: two `Config`s whose port values after some step differ
//! for the same design + stimulus.  Oracle: pairwise equality against the
//! 2-state interpreter trace (`Config::default()`); a 4-state engine is
//! compared only on cycles where none of its observed values carries X/Z.
//! The repo's own cc-vs-Cranelift dual-run validator (`aot_c_validate`) runs as
//! one more engine; its panic is a violation.
//!
//! Workload: a FIXED corpus of generated designs (design #i comes from a
//! constant corpus seed, so "design #i" names one specific input for ever);
//! `VERIF_SEED` drives the stimuli.  This is what lets genuine engine defects
//! be recorded as known findings "design #i under engine E" — exact inputs —
//! while any other (design, engine) disagreement still fails the check.

use crate::common::{Accept, accept};
use std::sync::Arc;
use vcommon::pipeline::default_metadata;
use vcommon::pool::{STACK_64M, par_cases};
use vcommon::rng::hash_str;
use vcommon::{Args, Json, Rng, Run, json};
use veryl_simulator::Config;
use vgen::sim::{Stimulus, Trace, run as sim_run, stimulus};
use vgen::{Design, GenOpts, generate};

/// Constant: changing it (or DesignGen) changes every design of the corpus and
/// invalidates known.d/C02.json.
pub const CORPUS_SEED: u64 = 0xC02_C0DE_2026;

pub fn engines(with_cc: bool) -> Vec<(String, Config)> {
    let mut v = vec![];
    for use_4state in [false, true] {
        for use_jit in [false, true] {
            for disable_ff_opt in [false, true] {
                let name = format!(
                    "{}{}{}",
                    if use_jit { "jit" } else { "interp" },
                    if use_4state { "+4state" } else { "" },
                    if disable_ff_opt { "+noffopt" } else { "" }
                );
                v.push((name, Config { use_4state, use_jit, disable_ff_opt, ..Default::default() }));
            }
        }
    }
    if with_cc {
        for disable_ff_opt in [false, true] {
            let sfx = if disable_ff_opt { "+noffopt" } else { "" };
            v.push((
                format!("cc+event{sfx}"),
                Config { use_jit: true, disable_ff_opt, aot_c: true, aot_c_event: true, ..Default::default() },
            ));
            v.push((
                format!("cc-comb-only{sfx}"),
                Config { use_jit: true, disable_ff_opt, aot_c: true, aot_c_event: false, ..Default::default() },
            ));
        }
        v.push((
            "cc+validate".to_string(),
            Config { use_jit: true, aot_c: true, aot_c_event: true, aot_c_validate: true, ..Default::default() },
        ));
    }
    v
}

pub fn pick_opts(rng: &mut Rng) -> (GenOpts, &'static str) {
    match rng.below(10) {
        0 | 1 => (GenOpts::basic(), "basic"),
        2 | 3 => (GenOpts::wide(), "wide"),
        4 => (GenOpts { big: 20 + rng.usize(60), ..GenOpts::default() }, "big"),
        5 => (GenOpts { unreset_ffs: true, ..GenOpts::default() }, "unreset_ffs"),
        6 => (GenOpts { explicit_clock_reset: true, ..GenOpts::default() }, "explicit_clock_reset"),
        _ => (GenOpts::default(), "default"),
    }
}

const LAB_WIDTHS: &[usize] = &[8, 16, 31, 32, 33, 63, 64, 65, 127, 128, 129, 200, 256];

/// "Boundary lab" design: every shift operator with a RUN-TIME count port, compares and
/// arithmetic at an expression width that sits exactly on a representation boundary.
/// Every 8th corpus design is one of these (the random designs almost never put a dynamic
/// shift count exactly at a 64/128-bit expression width).
fn lab_design(k: u64) -> Design {
    let mut rng = Rng::for_case(CORPUS_SEED, "C02-lab", k);
    let w = LAB_WIDTHS[(k as usize) % LAB_WIDTHS.len()];
    let w1 = *rng.pick(&[w, w, w.saturating_sub(1).max(1), w + 1]);
    let sw = if w >= 128 { 9 } else { 8 };
    let s1 = if rng.bool() { "signed " } else { "" };
    let mut t = String::new();
    t.push_str("module Top (\n    i_clk: input clock,\n    i_rst: input reset,\n");
    t.push_str(&format!("    i0: input logic<{w}>,\n    i1: input {s1}logic<{w1}>,\n    i2: input logic<{sw}>,\n    i3: input signed logic<{w}>,\n"));
    for (k, ow) in [w, w, w, w, w, w, 1, 1, w, w].iter().enumerate() {
        t.push_str(&format!("    o{k}: output logic<{ow}>,\n"));
    }
    t.push_str(") {\n");
    t.push_str(&format!("    var r0: logic<{w}>;\n    var r1: signed logic<{w}>;\n"));
    t.push_str("    assign o0 = i0 >> i2;\n    assign o1 = i0 << i2;\n    assign o2 = i3 >>> i2;\n    assign o3 = i3 <<< i2;\n");
    t.push_str("    assign o4 = (i0 >> i2) + i1;\n    assign o5 = (i0 - i1) ^ (i3 >>> i2);\n");
    t.push_str("    assign o6 = i3 <: $signed(i1);\n    assign o7 = i0 >= i1;\n");
    t.push_str("    always_ff {\n        if_reset {\n            r0 = 0;\n            r1 = 0;\n        } else {\n            r0 = r0 ^ (i0 >> i2);\n            r1 = (r1 + i3) >>> i2;\n        }\n    }\n");
    t.push_str("    assign o8 = r0;\n    assign o9 = r1;\n}\n");
    let mut d = Design::from_text(&t);
    d.features = vec!["boundary_lab".into(), format!("lab_width_{w}")];
    d.has_ff = true;
    d
}

/// Stimulus for lab designs: the shift count sits on and around the expression width.
fn lab_stimulus(d: &Design, rng: &mut Rng, cycles: usize) -> Stimulus {
    let mut s = stimulus(d, rng, cycles);
    let w = d.inputs[0].width as u64;
    for (c, cyc) in s.cycles.iter_mut().enumerate() {
        if c >= 2 && rng.chance(3, 4) {
            let sw = cyc.inputs[2].width;
            let v = *rng.pick(&[0, 1, w - 1, w, w + 1, 2 * w, 63, 64, 65, 127, 128, 129, (1u64 << sw) - 1]);
            cyc.inputs[2].payload[0] = v & ((1u64 << sw) - 1);
        }
    }
    s
}

pub fn is_lab(i: u64) -> bool {
    i % 8 == 7
}

/// Design #i of the fixed corpus.
pub fn corpus_design(i: u64) -> (Design, &'static str) {
    if is_lab(i) {
        return (lab_design(i / 8), "boundary_lab");
    }
    let mut rng = Rng::for_case(CORPUS_SEED, "C02-corpus", i);
    let (mut opts, mode) = pick_opts(&mut rng);
    if let Ok(w) = std::env::var("VERIF_MAX_WIDTH") {
        opts.max_width = opts.max_width.min(w.parse().unwrap());
    }
    (generate(&mut rng, &opts), mode)
}

#[derive(Default)]
pub struct CaseOut {
    pub status: String,
    pub design: Option<Design>,
    pub mode: String,
    pub cycles: usize,
    pub engines_run: Vec<String>,
    pub engine_build_errors: Vec<(String, String)>,
    pub comparisons: u64,
    pub xmasked: u64,
    /// one entry per engine that differs from the reference
    pub mismatches: Vec<Json>,
    /// (engine, message, location) per engine that panicked
    pub engine_panics: Vec<(String, String, String)>,
    pub codes: Vec<String>,
}

impl CaseOut {
    /// stable description of which engines fail on this design ("jit:mismatch", "jit+4state:panic"…)
    pub fn failing(&self) -> Vec<String> {
        let mut v: Vec<String> = self
            .mismatches
            .iter()
            .map(|m| m["engine"].as_str().unwrap_or("?").to_string())
            .chain(self.engine_panics.iter().map(|p| format!("{}:panic", p.0)))
            .collect();
        v.sort();
        v
    }
}

fn trace_row(t: &Trace, c: usize) -> Vec<String> {
    t.steps[c].iter().map(|v| v.hex()).collect()
}

/// The corpus is fixed in both dimensions: 1200 designs x `STIM_SETS` stimulus sets.  `VERIF_SEED`
/// selects the stimulus set (seed mod 8).  Engine defects are stimulus-dependent (a design that is
/// translated wrongly shows it only for some input values), so with free-running stimuli every new
/// seed exposed (design, engine) pairs that no recording had seen — findings must name exact inputs,
/// and the exact input of a simulation is the design *and* its stimulus.
pub const STIM_SETS: u64 = 8;

pub fn run_case(seed: u64, i: u64, cycles: usize, with_cc: bool) -> CaseOut {
    let (d, mode) = corpus_design(i);
    let mut rng = Rng::for_case(seed % STIM_SETS, "C02-stim", i);
    let stim = if is_lab(i) { lab_stimulus(&d, &mut rng, cycles) } else { stimulus(&d, &mut rng, cycles) };
    run_design(d, mode, stim, with_cc && (i % 3 == 0 || is_lab(i)))
}

pub fn run_design(d: Design, mode: &str, stim: Stimulus, with_cc: bool) -> CaseOut {
    run_design_filtered(d, mode, stim, with_cc, None, None)
}

/// `only`: run just this engine (plus the reference); `allowed_codes`: reject the
/// design unless every diagnostic code (warnings included) is in this set.
pub fn run_design_filtered(
    d: Design,
    mode: &str,
    stim: Stimulus,
    with_cc: bool,
    only: Option<&str>,
    allowed_codes: Option<&[String]>,
) -> CaseOut {
    let mut out = CaseOut { mode: mode.into(), cycles: stim.cycles.len(), ..Default::default() };
    let md = default_metadata();
    let a = match accept(&d, &md) {
        Accept::Ok(a) => a,
        Accept::ParseError(e) => {
            out.status = format!("generator_bug_parse_error: {e}");
            out.design = Some(d);
            return out;
        }
        Accept::Rejected(c) => {
            out.status = format!("rejected: {}", c.join(","));
            return out;
        }
    };
    out.codes = a.all_codes();
    if let Some(allowed) = allowed_codes
        && out.codes.iter().any(|c| !allowed.contains(c))
    {
        out.status = format!("new_diagnostics: {}", out.codes.join(","));
        return out;
    }
    let reference = match sim_run(&a.ir, &d, &Config::default(), &stim) {
        Ok(t) => t,
        Err(e) => {
            out.status = format!("sim_build_error: {}", e.lines().next().unwrap_or(""));
            return out;
        }
    };
    out.status = "ok".into();
    for (name, cfg) in engines(with_cc).into_iter().skip(1) {
        if only.is_some_and(|o| o != name) {
            continue;
        }
        // each engine inside catch_unwind so that a panic in one engine is attributed to it
        let r = std::panic::catch_unwind(std::panic::AssertUnwindSafe(|| sim_run(&a.ir, &d, &cfg, &stim)));
        match r {
            Err(p) => {
                let msg = if let Some(s) = p.downcast_ref::<&str>() {
                    s.to_string()
                } else if let Some(s) = p.downcast_ref::<String>() {
                    s.clone()
                } else {
                    "<panic>".into()
                };
                let loc = vcommon::pool::take_panic_info().map(|p| p.location).unwrap_or_default();
                out.engine_panics.push((name.clone(), msg, loc));
            }
            Ok(Err(e)) => out.engine_build_errors.push((name, e.lines().next().unwrap_or("").to_string())),
            Ok(Ok(t)) => {
                out.engines_run.push(name.clone());
                let mut reported = false;
                for c in 0..t.steps.len().min(reference.steps.len()) {
                    if cfg.use_4state && t.steps[c].iter().any(|v| v.has_xz()) {
                        out.xmasked += 1;
                        continue;
                    }
                    out.comparisons += 1;
                    if t.steps[c] != reference.steps[c] && !reported {
                        reported = true;
                        let o = (0..t.steps[c].len()).find(|&o| t.steps[c][o] != reference.steps[c][o]).unwrap_or(0);
                        out.mismatches.push(json!({
                            "engine": name,
                            "reference_engine": "interp",
                            "cycle": c,
                            "output": d.outputs[o].name,
                            "engine_value": t.steps[c][o].hex(),
                            "reference_value": reference.steps[c][o].hex(),
                            "engine_row": trace_row(&t, c),
                            "reference_row": trace_row(&reference, c),
                            "inputs_at_cycle": stim.cycles[c].inputs.iter().map(|v| v.hex()).collect::<Vec<_>>(),
                            "reset_at_cycle": stim.cycles[c].reset,
                        }));
                    }
                }
            }
        }
    }
    out.design = Some(d);
    out
}

pub fn main(args: Args) {
    let run = Arc::new(Run::new(
        args.clone(),
        "exploration",
        "cases = designs #0..N of a fixed DesignGen corpus (modes basic/default/wide/big/unreset_ffs/explicit_clock_reset, filtered by the \
         real analyzer), each with a VERIF_SEED-dependent random reset+input stimulus, run under every engine Config (interpreter/JIT x 2/4-state \
         x disable_ff_opt, cc comb-only, cc+event, cc+validate on every third design); non-trivial = accepted by the analyzer and simulated by \
         >=4 engines; distinct = distinct design texts",
    ));
    run.assume("the 2-state interpreter (Config::default) is the reference; an error common to all engines is invisible here (C01/C18 cover it)");
    run.assume("4-state engines are compared only on cycles without X/Z in their observed outputs");
    run.assume("known findings are keyed on (corpus design index, engine): DesignGen and CORPUS_SEED are frozen");
    let with_cc = veryl_simulator::backend::aot_c::cc_available() && args.get("no_cc").is_none();
    if !with_cc && args.get("no_cc").is_none() {
        run.inconclusive("cc backend unavailable: the cc engines were not exercised".into());
    }
    // the same cycle count in both tiers: the stimulus of a lab design depends on it, and the known
    // list is recorded once for the whole (design, stimulus set) corpus; thorough = all 1200 designs
    let cycles = args.budget("cycles", 40, 40) as usize;

    if let Some(rp) = &args.replay {
        let v: Json = serde_json::from_str(&std::fs::read_to_string(rp).expect("replay")).unwrap();
        let i = v["case"]["case_index"].as_u64().expect("case_index");
        let seed = v["seed"].as_u64().unwrap_or(args.seed);
        let cyc = v["case"]["cycles"].as_u64().unwrap_or(cycles as u64) as usize;
        let o = vcommon::pool::fresh_thread(STACK_64M, move || run_case(seed, i, cyc, with_cc));
        if args.get("reduce").is_some()
            && let Ok(first) = &o
            && let Some(d0) = first.design.clone()
        {
            // shrink the witness: same engine must still disagree / panic at the same place
            let want_engine = v["case"]["engine"].as_str().map(|x| x.to_string()).or_else(|| first.failing().first().cloned());
            let want_engine = want_engine.map(|e| e.trim_end_matches(":panic").to_string());
            let mut rng = Rng::for_case(seed % STIM_SETS, "C02-stim", i);
            let stim = if is_lab(i) { lab_stimulus(&d0, &mut rng, cyc) } else { stimulus(&d0, &mut rng, cyc) };
            let allowed: Vec<String> = first.codes.clone();
            let mut keep = |text: &str| -> bool {
                let mut d = d0.clone();
                d.text = text.to_string();
                let stim = stim.clone();
                let only = want_engine.clone();
                let allowed = allowed.clone();
                let want = want_engine.clone();
                let r = vcommon::pool::fresh_thread(STACK_64M, move || {
                    run_design_filtered(d, "reduce", stim, true, only.as_deref(), Some(&allowed))
                });
                match r {
                    Ok(o) => want.is_some_and(|w| o.failing().iter().any(|f| f.trim_end_matches(":panic") == w)),
                    Err(_) => false,
                }
            };
            let small = vgen::reduce::reduce(&d0.text, &mut keep, 3000);
            let out = rp.with_extension("reduced.veryl");
            std::fs::write(&out, &small).unwrap();
            println!("reduced witness ({} -> {} lines) written to {}\n{}", d0.text.lines().count(), small.lines().count(), out.display(), small);
        }
        run.eval();
        report(&run, i, o);
        run.finish(&[]);
    }

    let n = args.budget("cases", 600, 1200);
    let seed = args.seed;

    // `--set record=K`: list every (design, engine) pair that fails under stimulus seeds 0..K
    // on the current tree, as a candidate known.d/C02.json (written to scratch, never used at run time).
    if let Some(k) = args.get("record") {
        let k: u64 = k.parse().unwrap();
        let found = Arc::new(std::sync::Mutex::new(std::collections::BTreeMap::<String, String>::new()));
        let f2 = found.clone();
        // one fresh OS thread per (design, stimulus set): the analyzer's tables are thread-local, a second
        // analysis of the same module on one thread is rejected as a redefinition and would record nothing
        par_cases(
            n * k,
            args.jobs,
            STACK_64M,
            move |j| {
                let (i, s) = (j / k, j % k);
                let mut all = vec![];
                let o = run_case(s, i, cycles, with_cc);
                for m in &o.mismatches {
                    all.push((format!("design#{i}:{}", m["engine"].as_str().unwrap_or("?")), format!("trace differs from the interpreter (e.g. stimulus set {s}, cycle {}, {})", m["cycle"], m["output"])));
                }
                for p in &o.engine_panics {
                    all.push((format!("design#{i}:{}:panic", p.0), format!("panics at {} ({})", p.2, p.1.lines().next().unwrap_or("").chars().take(80).collect::<String>())));
                }
                all
            },
            move |_j, r| {
                if let Ok(all) = r {
                    let mut f = f2.lock().unwrap();
                    for (sig, what) in all {
                        f.entry(sig).or_insert(what);
                    }
                }
            },
        );
        let list: Vec<Json> = found
            .lock()
            .unwrap()
            .iter()
            .map(|(sig, what)| {
                json!({"property": "C02", "signature": sig, "status": "known",
                       "what": format!("{sig} of the fixed C02 corpus: {what}"), "notes": "notes/C02.md"})
            })
            .collect();
        let path = "/verif/scratch/C02.known.candidate.json";
        std::fs::write(path, serde_json::to_string_pretty(&list).unwrap()).unwrap();
        println!("recorded {} failing (design, engine) pairs over {n} designs x {k} stimulus seeds -> {path}", list.len());
        std::process::exit(0);
    }

    let run2 = run.clone();
    par_cases(n, args.jobs, STACK_64M, move |i| run_case(seed, i, cycles, with_cc), move |i, r| {
        run2.eval();
        report(&run2, i, r);
    });
    // Sanitizer arm: the same workload (first designs of the corpus, every engine incl. the
    // JIT-generated and cc-compiled code) under valgrind memcheck.  memcheck translates all executed
    // code, so out-of-bounds stores from generated code into heap red zones are seen.
    let vg_cases = args.budget("memcheck_cases", 0, 40);
    if vg_cases > 0 && args.get("memcheck_child").is_none() {
        crate::common::memcheck_arm(&run, &args, "C02", vg_cases, &[("cycles", "12".to_string())]);
    }
    run.finish(&[
        ("designs_simulated", 150),
        ("port_value_comparisons", 100_000),
        ("engines", 8),
        ("designs_with_ff", 50),
        ("mode_boundary_lab", 20),
    ]);
}

fn report(run: &Run, i: u64, r: Result<CaseOut, vcommon::pool::PanicInfo>) {
    match r {
        Err(p) => {
            // the reference engine (or the analyzer) panicked: not an engine disagreement; C11 judges analyzer panics
            run.count("cases_panicked_outside_engine_comparison", 1);
            run.note(format!("case {i}: panic at {}: {}", p.location, p.message.chars().take(200).collect::<String>()));
        }
        Ok(o) => {
            if o.status != "ok" {
                let key = o.status.split(':').next().unwrap_or("").to_string();
                run.count(&format!("not_simulated_{key}"), 1);
                if key.starts_with("generator_bug") {
                    run.note(format!("case {i}: {}", o.status));
                }
                return;
            }
            let d = o.design.as_ref().unwrap();
            run.count("designs_simulated", 1);
            run.count(&format!("mode_{}", o.mode), 1);
            if d.has_ff {
                run.count("designs_with_ff", 1);
            }
            run.count("port_value_comparisons", (o.comparisons * d.outputs.len() as u64) as i64);
            run.count("cycles_compared", o.comparisons as i64);
            run.count("cycles_skipped_xz_in_4state", o.xmasked as i64);
            for e in &o.engines_run {
                run.seen("engines", e);
            }
            let failed = !o.mismatches.is_empty() || !o.engine_panics.is_empty();
            for f in &d.features {
                run.seen("features", f);
                if std::env::var("VERIF_FEATURE_STATS").is_ok() {
                    run.count(&format!("fstat_sim_{f}"), 1);
                    if failed {
                        run.count(&format!("fstat_bad_{f}"), 1);
                    }
                }
            }
            if std::env::var("VERIF_FEATURE_STATS").is_ok() {
                run.count("fstat_sim_ALL", 1);
                if failed {
                    run.count("fstat_bad_ALL", 1);
                    run.count(&format!("fstat_kind_{}", o.failing().join("+")), 1);
                }
            }
            for (e, msg) in &o.engine_build_errors {
                run.count("engine_build_errors", 1);
                run.note(format!("case {i}: engine {e} refused a design the interpreter accepted: {msg}"));
            }
            if o.engines_run.len() >= 4 {
                run.nontrivial(hash_str(&d.text));
            }
            run.sample(json!({"case_index": i, "mode": o.mode, "features": d.features, "engines": o.engines_run.len(), "cycles": o.cycles, "design": d.text}));
            for (engine, msg, loc) in &o.engine_panics {
                let first = msg.lines().next().unwrap_or("").chars().take(160).collect::<String>();
                run.violation(
                    &format!("design#{i}:{engine}:panic"),
                    &format!("corpus design #{i}: engine {engine} panicked at {loc} on a design the interpreter simulates: {first}"),
                    json!({"case_index": i, "cycles": o.cycles, "engine": engine, "panic": msg, "location": loc, "design": d.text}),
                );
            }
            for m in &o.mismatches {
                let engine = m["engine"].as_str().unwrap_or("?");
                run.violation(
                    &format!("design#{i}:{engine}"),
                    &format!(
                        "corpus design #{i}: engine {} differs from the interpreter at cycle {} on {}: {} vs {}",
                        m["engine"], m["cycle"], m["output"], m["engine_value"], m["reference_value"]
                    ),
                    json!({"case_index": i, "cycles": o.cycles, "engine": engine, "mismatch": m, "design": d.text}),
                );
            }
        }
    }
}
