//! Shared by the simulator monitors.

use vcommon::pipeline::{Analyzed, analyze_one};
use veryl_metadata::Metadata;
use vgen::Design;

/// Diagnostics the simulator's own test-suite also tolerates (lint-like errors
/// that do not stop simulation) — a design carrying only these is still
/// "accepted" for simulator monitors.
pub fn tolerated(code: &str) -> bool {
    code.contains("invalid_logical_operand") || code.contains("unsigned_arith_shift")
}

pub enum Accept {
    Ok(Analyzed),
    ParseError(String),
    Rejected(Vec<String>),
}

/// Run the real parser + analyzer; the design is accepted when no *error*
/// diagnostic remains.
pub fn accept(design: &Design, metadata: &Metadata) -> Accept {
    match analyze_one(&design.text, metadata) {
        Err(e) => Accept::ParseError(format!("{e:?}")),
        Ok(a) => {
            let codes: Vec<String> = a.error_codes();
            if codes.is_empty() { Accept::Ok(a) } else { Accept::Rejected(codes) }
        }
    }
}
