//! Shared by the simulator monitors.

use vcommon::pipeline::{Analyzed, analyze_one};
use veryl_metadata::Metadata;
use vgen::Design;
use vcommon::{Args, Run, json};

/// Diagnostics the simulator's own test-suite also tolerates (lint-like errors
/// that do not stop simulation) — a design carrying only these is still
/// "accepted" for simulator monitors.
pub fn tolerated(code: &str) -> bool {
    code.contains("invalid_logical_operand") || code.contains("unsigned_arith_shift")
}

pub enum Accept {
    Ok(Analyzed),
    ParseError(String),
    Rejected(Vec<String>),
}

/// Run the real parser + analyzer; the design is accepted when no *error*
/// diagnostic remains.
pub fn accept(design: &Design, metadata: &Metadata) -> Accept {
    match analyze_one(&design.text, metadata) {
        Err(e) => Accept::ParseError(format!("{e:?}")),
        Ok(a) => {
            let codes: Vec<String> = a.error_codes();
            if codes.is_empty() { Accept::Ok(a) } else { Accept::Rejected(codes) }
        }
    }
}

/// Sanitizer arm shared by the simulator monitors: run this binary again for property `prop` on
/// `cases` cases under valgrind memcheck (`--smc-check=all-non-file`: JIT- and cc-generated code is
/// translated too) and
/// turn every error context whose stack contains a frame of a veryl crate into a
/// violation keyed on that frame.  A missing valgrind or a crashed child is inconclusive.
pub fn memcheck_arm(run: &Run, args: &Args, prop: &str, cases: u64, sets: &[(&str, String)]) {
    let exe = std::env::current_exe().unwrap();
    let dir = std::path::PathBuf::from(format!("/verif/scratch/{}-memcheck-{}", prop.to_lowercase(), std::process::id()));
    let _ = std::fs::create_dir_all(&dir);
    let log = dir.join("vg.log");
    let st = std::process::Command::new("valgrind")
        .args(["--smc-check=all-non-file", "--num-callers=16", "--error-limit=no"])
        .arg(format!("--log-file={}", log.display()))
        .arg(&exe)
        .args(["--prop", prop, "--seed", &args.seed.to_string(), "--jobs", "4"])
        .args(["--set", &format!("cases={cases}"), "--set", "memcheck_child=1"])
        .args(sets.iter().flat_map(|(k, v)| ["--set".to_string(), format!("{k}={v}")]))
        .arg("--evidence")
        .arg(dir.join("child.json"))
        .arg("--replay-dir")
        .arg(dir.join("replay"))
        .stdout(std::process::Stdio::null())
        .stderr(std::process::Stdio::null())
        .status();
    match st {
        Err(e) => run.inconclusive(format!("memcheck arm: cannot start valgrind: {e}")),
        Ok(s) if s.code().is_none() => run.inconclusive("memcheck arm: child killed by a signal".into()),
        Ok(_) => {
            let text = std::fs::read_to_string(&log).unwrap_or_default();
            let mut contexts = 0u64;
            let mut cur: Option<(String, Option<String>)> = None;
            let mut flush = |cur: &mut Option<(String, Option<String>)>| {
                if let Some((kind, frame)) = cur.take() {
                    contexts += 1;
                    match frame {
                        Some(f) => run.violation(
                            &format!("memcheck:{f}"),
                            &format!("valgrind memcheck: {kind} with in-repo frame {f}"),
                            json!({"kind": kind, "frame": f, "log": log.display().to_string()}),
                        ),
                        None => run.note(format!("memcheck report without a veryl frame: {kind}")),
                    }
                }
            };
            for line in text.lines() {
                let body = line.splitn(3, "==").nth(2).unwrap_or("").trim();
                if body.starts_with("Invalid ") || body.starts_with("Conditional jump") || body.starts_with("Use of uninitialised") || body.starts_with("Mismatched ") || body.starts_with("Source and destination overlap") {
                    flush(&mut cur);
                    cur = Some((body.to_string(), None));
                } else if let Some((_, frame)) = cur.as_mut()
                    && frame.is_none()
                    && (body.starts_with("at ") || body.starts_with("by "))
                    && body.contains("veryl_")
                {
                    let f = body.split(": ").nth(1).unwrap_or(body);
                    *frame = Some(f.split(" (").next().unwrap_or(f).to_string());
                } else if body.is_empty() {
                    flush(&mut cur);
                }
            }
            flush(&mut cur);
            // what the child really did, from its own evidence file
            let child: serde_json::Value =
                std::fs::read_to_string(dir.join("child.json")).ok().and_then(|t| serde_json::from_str(&t).ok()).unwrap_or(serde_json::Value::Null);
            let child_evals = child["coverage"]["evaluations"].as_u64().unwrap_or(0);
            let vg_ran = text.contains("ERROR SUMMARY");
            if child_evals == 0 || !vg_ran {
                run.inconclusive(format!("memcheck arm: child evaluated {child_evals} cases, valgrind summary present: {vg_ran}"));
            }
            run.count("memcheck_designs", child_evals as i64);
            run.count("memcheck_error_contexts", contexts as i64);
            if contexts > 0 {
                // keep the valgrind log next to the replay files
                return;
            }
        }
    }
    let _ = std::fs::remove_dir_all(&dir);
}

