//! C03 — simulator optimisations never change observable behaviour.
//!
//! The optimisation toggles are process-global (`OnceLock` on env vars), so the
//! parent launches one worker *process* per toggle set over the same seed
//! range; each worker prints, per design and engine, a digest of the full
//! per-step output trace.  Oracle: for every design and engine the digest is
//! the same under every toggle set as under the all-passes-on baseline.  On a
//! mismatch both processes are re-run for that one design with full traces.
//!
//! Non-vacuity: one extra baseline arm runs with the repo's own `*_DIAG=1`
//! switches; the parent counts the diagnostic lines each pass prints when it
//! commits a transformation.  A pass that never fired makes the run
//! inconclusive (an A/B comparison of a pass that rewrote nothing says nothing).

use crate::c02::pick_opts;
use crate::common::{Accept, accept};
use std::collections::BTreeMap;
use std::io::{BufRead, Write};
use std::process::{Command, Stdio};
use std::sync::Arc;
use vcommon::pipeline::default_metadata;
use vcommon::pool::{STACK_64M, fresh_thread};
use vcommon::{Args, Json, Rng, Run, json};
use veryl_simulator::Config;
use vgen::sim::{run as sim_run, stimulus};
use vgen::{GenOpts, generate};

/// (arm name, env settings).  `=0` switches a default-on pass off.
pub fn single_toggles() -> Vec<(&'static str, Vec<(&'static str, &'static str)>)> {
    vec![
        ("comb_fusion_off", vec![("VERYL_COMB_FUSION", "0")]),
        ("comb_fusion_cse_off", vec![("VERYL_COMB_FUSION_CSE", "0")]),
        ("comb_fusion_coalesce_off", vec![("VERYL_COMB_FUSION_COALESCE", "0"), ("VERYL_COMB_FUSION_WORD_COALESCE", "0")]),
        ("comb_fusion_cheap_off", vec![("VERYL_COMB_FUSION_CHEAP", "0")]),
        ("cone_gate_off", vec![("VERYL_CONE_GATE", "0")]),
        ("dead_var_dce_off", vec![("VERYL_DEAD_VAR_DCE", "0")]),
        ("vsplit_off", vec![("VERYL_VSPLIT", "0")]),
        ("vsplit_lut_off", vec![("VERYL_VSPLIT_LUT", "0")]),
        ("lane_vector_off", vec![("VERYL_LANE_VECTOR", "0")]),
        ("lane_fold_off", vec![("VERYL_LANE_FOLD", "0")]),
        ("lane_merge_off", vec![("VERYL_LANE_MERGE", "0")]),
        ("comb_layout_off", vec![("VERYL_COMB_LAYOUT", "0")]),
        ("cond_hoist_off", vec![("VERYL_COND_HOIST_DISABLE", "1")]),
        ("switch_lower_off", vec![("VERYL_SWITCH_LOWER_DISABLE", "1")]),
        ("load_cache_off", vec![("VERYL_FORCE_DISABLE_LOAD_CACHE", "1")]),
        ("wide_mask_elide_off", vec![("VERYL_WIDE_MASK_ELIDE", "0")]),
    ]
}

/// Designs #0..N are a fixed corpus (see notes/C03.md): known findings name "design #i".
pub const CORPUS_SEED: u64 = 0xC03_C0DE_2026;

const DIAG_ENV: &[&str] = &[
    "VERYL_COMB_FUSION_DIAG",
    "VERYL_CONE_GATE_DIAG",
    "VERYL_DEAD_VAR_DCE_DIAG",
    "VERYL_VSPLIT_LUT_DIAG",
    "VERYL_LANE_VECTOR_DIAG",
    "VERYL_COMB_LAYOUT_DIAG",
    "VERYL_PASS_DIAG",
];

fn worker_opts(rng: &mut Rng) -> (GenOpts, &'static str) {
    // bias towards designs big enough for the passes with thresholds
    match rng.below(10) {
        0..=3 => (GenOpts { big: 40 + rng.usize(400), combs: (4, 12), ..GenOpts::default() }, "big"),
        4 => (GenOpts { big: 20 + rng.usize(40), max_width: 300, ..GenOpts::default() }, "big_wide"),
        _ => pick_opts(rng),
    }
}

/// Every 5th corpus design is a "comb lab": always_comb blocks in which several
/// variables are written more than once in sequence (base write, reassignment,
/// guarded override, if/else) and later writes of one variable sit between the
/// first and the last write of another that read it.  Statement-reordering
/// passes (version split, comb fusion, CSE, layout) are only observable on such
/// write spans; DesignGen's always_comb blocks write each variable once.
pub fn is_comblab(i: u64) -> bool {
    i % 5 == 4
}

fn comblab_design(k: u64) -> vgen::Design {
    let mut rng = Rng::for_case(CORPUS_SEED, "C03-comblab", k);
    let w = *rng.pick(&[8usize, 8, 13, 16, 32, 33, 64, 65]);
    let nblocks = 1 + rng.usize(3);
    let mut t = String::new();
    t.push_str("module Top (\n    i_clk: input clock,\n    i_rst: input reset,\n");
    for j in 0..4 {
        t.push_str(&format!("    i{j}: input logic<{w}>,\n"));
    }
    t.push_str("    ic: input logic<8>,\n");
    let mut outs = vec![];
    let mut body = String::new();
    let mut decl = String::new();
    let mut srcs: Vec<String> = (0..4).map(|j| format!("i{j}")).collect();
    decl.push_str(&format!("    var r0: logic<{w}>;\n"));
    srcs.push("r0".into());
    for b in 0..nblocks {
        let nv = 2 + rng.usize(4);
        let vars: Vec<String> = (0..nv).map(|j| format!("b{b}v{j}")).collect();
        for v in &vars {
            decl.push_str(&format!("    var {v}: logic<{w}>;\n"));
        }
        let mut assigned: Vec<String> = vec![];
        let mut pending: Vec<String> = vars.clone();
        body.push_str("    always_comb {\n");
        let steps = nv + 3 + rng.usize(10);
        let expr = |rng: &mut Rng, assigned: &Vec<String>, srcs: &Vec<String>| -> String {
            let mut pool: Vec<&String> = srcs.iter().collect();
            // read already-assigned block variables with a 2:1 bias
            for v in assigned {
                pool.push(v);
                pool.push(v);
            }
            let a = (*rng.pick(&pool)).clone();
            match rng.below(7) {
                0 => a,
                1 => format!("{a} + 1"),
                2 => format!("~{a}"),
                n => {
                    let b = (*rng.pick(&pool)).clone();
                    let op = ["+", "^", "&", "|", "-"][(n as usize - 3) % 5];
                    format!("{a} {op} {b}")
                }
            }
        };
        for s in 0..steps {
            let must_init = !pending.is_empty() && (assigned.len() < 2 || steps - s <= pending.len() || rng.chance(1, 3));
            if must_init {
                let v = pending.remove(0);
                let e = expr(&mut rng, &assigned, &srcs);
                body.push_str(&format!("        {v} = {e};\n"));
                assigned.push(v);
                continue;
            }
            if assigned.is_empty() {
                continue;
            }
            let v = rng.pick(&assigned).clone();
            let bit = rng.usize(8);
            match rng.below(4) {
                0 => {
                    let e = expr(&mut rng, &assigned, &srcs);
                    body.push_str(&format!("        {v} = {e};\n"));
                }
                1 | 2 => {
                    let e = if rng.bool() { "0".to_string() } else { expr(&mut rng, &assigned, &srcs) };
                    body.push_str(&format!("        if ic[{bit}] {{\n            {v} = {e};\n        }}\n"));
                }
                _ => {
                    let e1 = expr(&mut rng, &assigned, &srcs);
                    let e2 = expr(&mut rng, &assigned, &srcs);
                    body.push_str(&format!(
                        "        if ic[{bit}] {{\n            {v} = {e1};\n        }} else {{\n            {v} = {e2};\n        }}\n"
                    ));
                }
            }
        }
        for v in pending.drain(..) {
            let e = expr(&mut rng, &assigned, &srcs);
            body.push_str(&format!("        {v} = {e};\n"));
            assigned.push(v);
        }
        body.push_str("    }\n");
        for v in &vars {
            outs.push(v.clone());
        }
        // later blocks may read this block's results
        srcs.extend(vars);
    }
    let acc = outs.join(" ^ ");
    body.push_str(&format!(
        "    always_ff {{\n        if_reset {{\n            r0 = 0;\n        }} else {{\n            r0 = r0 + ({acc});\n        }}\n    }}\n"
    ));
    for (j, _) in outs.iter().enumerate() {
        t.push_str(&format!("    o{j}: output logic<{w}>,\n"));
    }
    t.push_str(&format!("    o_r: output logic<{w}>,\n) {{\n"));
    t.push_str(&decl);
    t.push_str(&body);
    for (j, v) in outs.iter().enumerate() {
        t.push_str(&format!("    assign o{j} = {v};\n"));
    }
    t.push_str("    assign o_r = r0;\n}\n");
    let mut d = vgen::Design::from_text(&t);
    d.features = vec!["comb_lab".into(), format!("comblab_blocks_{nblocks}")];
    d.has_ff = true;
    d
}

/// Design #i of the fixed C03 corpus.
pub fn corpus_design(i: u64) -> (vgen::Design, &'static str) {
    if is_comblab(i) {
        return (comblab_design(i / 5), "comb_lab");
    }
    let mut rng = Rng::for_case(CORPUS_SEED, "C03-corpus", i);
    let (opts, mode) = worker_opts(&mut rng);
    (generate(&mut rng, &opts), mode)
}

fn engine_set(use_cc: bool) -> Vec<(&'static str, Config)> {
    let mut v = vec![
        ("interp", Config::default()),
        ("jit", Config { use_jit: true, ..Default::default() }),
        ("jit+noffopt", Config { use_jit: true, disable_ff_opt: true, ..Default::default() }),
        ("interp+4state", Config { use_4state: true, ..Default::default() }),
        ("jit+4state", Config { use_4state: true, use_jit: true, ..Default::default() }),
    ];
    if use_cc {
        v.push(("cc+event", Config { use_jit: true, aot_c: true, aot_c_event: true, ..Default::default() }));
    }
    v
}

/// Worker: `--prop C03WORKER --set lo=a --set hi=b --set cycles=n [--set full=1]`
/// prints one JSON line per design.
pub fn worker(args: Args) {
    let lo: u64 = args.get("lo").unwrap().parse().unwrap();
    let hi: u64 = args.get("hi").unwrap().parse().unwrap();
    let cycles: usize = args.get("cycles").unwrap().parse().unwrap();
    let full = args.get("full").is_some();
    let cc_every: u64 = args.get("cc_every").map(|x| x.parse().unwrap()).unwrap_or(0);
    let seed = args.seed;
    let stdout = std::io::stdout();
    for i in lo..hi {
        let use_cc = cc_every > 0 && i % cc_every == 0;
        let r = fresh_thread(STACK_64M, move || {
            let (d, mode) = corpus_design(i);
            // stimulus sets are part of the fixed corpus (as in C02): VERIF_SEED selects one of 8
            let mut rng = Rng::for_case(seed % crate::c02::STIM_SETS, "C03-stim", i);
            let stim = stimulus(&d, &mut rng, cycles);
            let md = default_metadata();
            let a = match accept(&d, &md) {
                Accept::Ok(a) => a,
                Accept::ParseError(e) => return json!({"i": i, "status": "parse_error", "detail": e}),
                Accept::Rejected(c) => return json!({"i": i, "status": "rejected", "detail": c}),
            };
            let mut digests = BTreeMap::new();
            let mut traces = BTreeMap::new();
            for (name, cfg) in engine_set(use_cc) {
                let r = std::panic::catch_unwind(std::panic::AssertUnwindSafe(|| sim_run(&a.ir, &d, &cfg, &stim)));
                match r {
                    Ok(Ok(t)) => {
                        digests.insert(name.to_string(), json!(format!("{:016x}", t.digest())));
                        if full {
                            let rows: Vec<Vec<String>> = t.steps.iter().map(|s| s.iter().map(|v| v.hex()).collect()).collect();
                            traces.insert(name.to_string(), json!(rows));
                        }
                    }
                    Ok(Err(e)) => {
                        digests.insert(name.to_string(), json!(format!("build_error:{}", e.lines().next().unwrap_or(""))));
                    }
                    Err(_) => {
                        let loc = vcommon::pool::take_panic_info().map(|p| format!("{} {}", p.location, p.message)).unwrap_or_default();
                        digests.insert(name.to_string(), json!(format!("panic:{}", loc.chars().take(200).collect::<String>())));
                    }
                }
            }
            let mut o = json!({"i": i, "status": "ok", "mode": mode, "digests": digests, "has_ff": d.has_ff,
                               "lines": d.text.lines().count(), "features": d.features});
            if full {
                o["traces"] = json!(traces);
                o["design"] = json!(d.text);
            }
            o
        });
        let line = match r {
            Ok(v) => v,
            Err(p) => json!({"i": i, "status": "panic_outside_engines", "detail": format!("{} {}", p.location, p.message)}),
        };
        let mut lock = stdout.lock();
        let _ = writeln!(lock, "{}", line);
        let _ = lock.flush();
    }
    std::process::exit(0);
}

struct Arm {
    name: String,
    env: Vec<(String, String)>,
    diag: bool,
}

fn run_arm(arm: &Arm, args: &Args, lo: u64, hi: u64, cycles: usize, full: bool, cc_every: u64) -> (BTreeMap<u64, Json>, BTreeMap<String, u64>) {
    // split the range over `procs` processes of this arm
    let exe = std::env::current_exe().unwrap();
    let procs = args.jobs.max(1) as u64;
    let n = hi - lo;
    let per = n.div_ceil(procs).max(1);
    let mut children = vec![];
    let mut s = lo;
    while s < hi {
        let e = (s + per).min(hi);
        let mut cmd = Command::new(&exe);
        cmd.args(["--prop", "C03WORKER", "--seed", &args.seed.to_string()]);
        cmd.args(["--set", &format!("lo={s}"), "--set", &format!("hi={e}"), "--set", &format!("cycles={cycles}")]);
        cmd.args(["--set", &format!("cc_every={cc_every}")]);
        if full {
            cmd.args(["--set", "full=1"]);
        }
        for (k, _) in std::env::vars() {
            if k.starts_with("VERYL_") {
                cmd.env_remove(k);
            }
        }
        for (k, v) in &arm.env {
            cmd.env(k, v);
        }
        if arm.diag {
            for k in DIAG_ENV {
                cmd.env(k, "1");
            }
        }
        cmd.stdout(Stdio::piped());
        cmd.stderr(if arm.diag { Stdio::piped() } else { Stdio::null() });
        children.push(cmd.spawn().expect("spawn worker"));
        s = e;
    }
    let mut out = BTreeMap::new();
    let mut tags: BTreeMap<String, u64> = BTreeMap::new();
    for mut c in children {
        // read stderr on a thread to avoid pipe deadlock
        let stderr = c.stderr.take();
        let h = std::thread::spawn(move || {
            let mut tags: BTreeMap<String, u64> = BTreeMap::new();
            if let Some(e) = stderr {
                for line in std::io::BufReader::new(e).lines().map_while(Result::ok) {
                    if let Some(rest) = line.trim_start().strip_prefix('[')
                        && let Some((tag, _)) = rest.split_once(']')
                    {
                        *tags.entry(tag.to_string()).or_insert(0) += 1;
                    }
                }
            }
            tags
        });
        let stdout = c.stdout.take().unwrap();
        for line in std::io::BufReader::new(stdout).lines().map_while(Result::ok) {
            if let Ok(v) = serde_json::from_str::<Json>(&line)
                && let Some(i) = v["i"].as_u64()
            {
                out.insert(i, v);
            }
        }
        let _ = c.wait();
        for (k, v) in h.join().unwrap_or_default() {
            *tags.entry(k).or_insert(0) += v;
        }
    }
    (out, tags)
}

pub fn main(args: Args) {
    let run = Arc::new(Run::new(
        args.clone(),
        "exploration",
        "cases = DesignGen designs (biased to `big` generate-replicated designs so threshold-gated passes fire) x random stimulus; \
         each design's per-step trace digest is computed per engine (interp, jit, jit+noffopt, 4-state interp/jit, cc on a subset) in \
         one process per optimisation toggle set; non-trivial = design simulated under the baseline and under >=1 other toggle set; \
         distinct = distinct case indices simulated",
    ));
    run.assume("toggle sets are compared against the all-passes-on baseline of the same engine; agreement of all arms on a wrong value is invisible here (C01/C02/C18)");
    let n = args.budget("cases", 60, 300);
    let cycles = args.budget("cycles", 30, 120) as usize;
    let random_subsets = args.budget("random_subsets", 2, 24);
    let cc_every = args.budget("cc_every", 6, 6);

    let mut arms: Vec<Arm> = vec![Arm { name: "baseline".into(), env: vec![], diag: false }];
    arms.push(Arm { name: "baseline_diag".into(), env: vec![], diag: true });
    for (name, env) in single_toggles() {
        arms.push(Arm { name: name.into(), env: env.iter().map(|(k, v)| (k.to_string(), v.to_string())).collect(), diag: false });
    }
    let all_off: Vec<(String, String)> = single_toggles().into_iter().flat_map(|(_, e)| e).map(|(k, v)| (k.to_string(), v.to_string())).collect();
    arms.push(Arm { name: "all_off".into(), env: all_off, diag: false });
    arms.push(Arm { name: "cone_gate_check".into(), env: vec![("VERYL_CONE_GATE_CHECK".into(), "1".into())], diag: false });
    arms.push(Arm { name: "small_chunks".into(), env: vec![("VERYL_JIT_CHUNK_SIZE".into(), "3".into()), ("VERYL_EVENT_CHUNK_SIZE".into(), "2".into())], diag: false });
    let mut rng = Rng::for_case(args.seed, "C03-subsets", 0);
    for k in 0..random_subsets {
        let mut env = vec![];
        for (_, e) in single_toggles() {
            if rng.bool() {
                env.extend(e.iter().map(|(k, v)| (k.to_string(), v.to_string())));
            }
        }
        arms.push(Arm { name: format!("subset{k}"), env, diag: false });
    }

    if let Some(rp) = &args.replay {
        let v: Json = serde_json::from_str(&std::fs::read_to_string(rp).expect("replay")).unwrap();
        let i = v["case"]["case_index"].as_u64().unwrap();
        let arm_name = v["case"]["arm"].as_str().unwrap().to_string();
        let cyc = v["case"]["cycles"].as_u64().unwrap() as usize;
        let a = arms.iter().find(|a| a.name == arm_name).expect("arm");
        let mut a1 = Args { jobs: 1, ..args.clone() };
        a1.seed = v["seed"].as_u64().unwrap_or(args.seed);
        let (base, _) = run_arm(&arms[0], &a1, i, i + 1, cyc, true, 1);
        let (other, _) = run_arm(a, &a1, i, i + 1, cyc, true, 1);
        run.eval();
        let diffs = compare(&run, &arms[0].name, &base, &a.name, a, &other, cyc);
        report_diffs(&run, &arms, diffs);
        run.finish(&[]);
    }

    let mut results: Vec<(usize, BTreeMap<u64, Json>)> = vec![];
    let mut diag_tags: BTreeMap<String, u64> = BTreeMap::new();
    for (k, arm) in arms.iter().enumerate() {
        let (out, tags) = run_arm(arm, &args, 0, n, cycles, false, cc_every);
        if arm.diag {
            diag_tags = tags;
        }
        run.seen("toggle_sets", &arm.name);
        results.push((k, out));
    }
    // baseline bookkeeping
    let base = &results[0].1;
    for (i, v) in base {
        run.eval();
        match v["status"].as_str().unwrap_or("") {
            "ok" => {
                run.count("designs_simulated", 1);
                run.nontrivial(*i);
                if v["has_ff"].as_bool().unwrap_or(false) {
                    run.count("designs_with_ff", 1);
                }
                run.count(&format!("mode_{}", v["mode"].as_str().unwrap_or("?")), 1);
                if let Some(d) = v["digests"].as_object() {
                    for e in d.keys() {
                        run.seen("engines", e);
                    }
                }
                run.sample(json!({"case_index": i, "mode": v["mode"], "lines": v["lines"], "features": v["features"], "digests": v["digests"]}));
            }
            s => run.count(&format!("not_simulated_{s}"), 1),
        }
    }
    let mut diffs = vec![];
    for (k, out) in results.iter().skip(1) {
        diffs.extend(compare(&run, &arms[0].name, base, &arms[*k].name, &arms[*k], out, cycles));
    }
    report_diffs(&run, &arms, diffs);
    // pass activity seen by the repo's own diagnostics
    let mut fired = serde_json::Map::new();
    for (k, v) in &diag_tags {
        fired.insert(k.clone(), json!(v));
        run.count(&format!("diag_lines_{k}"), *v as i64);
    }
    run.set_extra("pass_diagnostic_lines_by_tag", Json::Object(fired));
    run.finish(&[
        ("designs_simulated", 25),
        ("trace_digest_comparisons", 1500),
        ("toggle_sets", 18),
        ("mode_comb_lab", 8),
        ("diag_lines_comb_fusion", 1),
        ("diag_lines_cone_gate", 1),
    ]);
}

/// One difference between an arm and the baseline.
struct Diff {
    i: u64,
    /// engine name, or "status" when the arm could not simulate the design at all
    engine: String,
    arm: String,
    detail: Json,
}

fn compare(run: &Run, _base_name: &str, base: &BTreeMap<u64, Json>, name: &str, arm: &Arm, other: &BTreeMap<u64, Json>, cycles: usize) -> Vec<Diff> {
    let mut out = vec![];
    for (i, b) in base {
        if b["status"] != "ok" {
            continue;
        }
        let Some(o) = other.get(i) else {
            run.count("worker_lost_cases", 1);
            continue;
        };
        if o["status"] != "ok" {
            out.push(Diff {
                i: *i,
                engine: "status".into(),
                arm: name.into(),
                detail: json!({"case_index": i, "arm": name, "cycles": cycles, "env": arm.env, "arm_status": o["status"], "arm_detail": o["detail"]}),
            });
            continue;
        }
        let (Some(bd), Some(od)) = (b["digests"].as_object(), o["digests"].as_object()) else { continue };
        for (engine, bv) in bd {
            let Some(ov) = od.get(engine) else { continue };
            run.count("trace_digest_comparisons", 1);
            if bv != ov {
                out.push(Diff {
                    i: *i,
                    engine: engine.clone(),
                    arm: name.into(),
                    detail: json!({"case_index": i, "arm": name, "engine": engine, "cycles": cycles, "env": arm.env,
                           "baseline_digest": bv, "arm_digest": ov, "traces_baseline": b.get("traces"), "traces_arm": o.get("traces"), "design": o.get("design")}),
                });
            }
        }
    }
    out
}

/// Group the differences per (design, engine): the single-toggle arms that differ name the
/// passes responsible; a composite arm (all_off, subsetK, …) is reported on its own only when
/// none of its member toggles differs singly (an interaction).
fn report_diffs(run: &Run, arms: &[Arm], diffs: Vec<Diff>) {
    let single: Vec<&str> = single_toggles().iter().map(|(n, _)| *n).collect();
    let mut groups: BTreeMap<(u64, String), Vec<Diff>> = BTreeMap::new();
    for d in diffs {
        groups.entry((d.i, d.engine.clone())).or_default().push(d);
    }
    for ((i, engine), ds) in groups {
        let mut singles: Vec<&Diff> = ds.iter().filter(|d| single.contains(&d.arm.as_str())).collect();
        singles.sort_by(|a, b| a.arm.cmp(&b.arm));
        for d in &singles {
            run.violation(
                &format!("design#{i}:{engine}:toggle={}", d.arm),
                &format!("corpus design #{i}, engine {engine}: trace changes when switching {} (single-pass arm) vs all passes on", d.arm),
                d.detail.clone(),
            );
        }
        let explained: Vec<(String, String)> = singles
            .iter()
            .flat_map(|d| arms.iter().find(|a| a.name == d.arm).map(|a| a.env.clone()).unwrap_or_default())
            .collect();
        for d in ds.iter().filter(|d| !single.contains(&d.arm.as_str())) {
            let env = arms.iter().find(|a| a.name == d.arm).map(|a| a.env.clone()).unwrap_or_default();
            if env.iter().any(|e| explained.contains(e)) {
                run.count("composite_differences_explained_by_a_single_toggle", 1);
                continue;
            }
            let mut members: Vec<String> = env.iter().map(|(k, v)| format!("{k}={v}")).collect();
            members.sort();
            run.violation(
                &format!("design#{i}:{engine}:composite:{}", members.join(",")),
                &format!("corpus design #{i}, engine {engine}: trace changes under toggle set {} although none of its toggles changes it alone", d.arm),
                d.detail.clone(),
            );
        }
    }
}

/// Triage helper (not a check): `--prop C03RED --seed S --set case=I --set cycles=N --set engine=jit
/// --set env=VERYL_COND_HOIST_DISABLE=1` — shrink case I to a small design whose trace under `engine`
/// still differs when the env var is set.  Only valid for toggles that are read at every conversion
/// (not the `OnceLock`-cached ones).
pub fn reduce_main(args: Args) {
    let i: u64 = args.get("case").unwrap().parse().unwrap();
    let cycles: usize = args.get("cycles").unwrap().parse().unwrap();
    let engine = args.get("engine").unwrap_or("jit").to_string();
    let (k, v) = args.get("env").unwrap().split_once('=').unwrap();
    let (k, v) = (k.to_string(), v.to_string());
    let (d0, _) = corpus_design(i);
    let mut rng = Rng::for_case(args.seed % crate::c02::STIM_SETS, "C03-stim", i);
    let stim = stimulus(&d0, &mut rng, cycles);
    let cfg = engine_set(true).into_iter().find(|(n, _)| *n == engine).expect("engine").1;
    let differs = move |text: &str, need_clean: bool| -> bool {
        let mut d = d0.clone();
        d.text = text.to_string();
        let stim = stim.clone();
        let cfg = cfg.clone();
        let (k, v) = (k.clone(), v.clone());
        fresh_thread(STACK_64M, move || {
            let md = default_metadata();
            let Accept::Ok(a) = accept(&d, &md) else { return false };
            if need_clean && !a.all_codes().is_empty() {
                return false;
            }
            unsafe { std::env::remove_var(&k) };
            let Ok(t0) = sim_run(&a.ir, &d, &cfg, &stim) else { return false };
            unsafe { std::env::set_var(&k, &v) };
            let t1 = sim_run(&a.ir, &d, &cfg, &stim);
            unsafe { std::env::remove_var(&k) };
            matches!(t1, Ok(t1) if t1 != t0)
        })
        .unwrap_or(false)
    };
    let (d, _) = corpus_design(i);
    println!("original differs: {}", differs(&d.text, false));
    let mut keep = |t: &str| differs(t, false);
    let small = vgen::reduce::reduce(&d.text, &mut keep, 4000);
    println!("reduced ({} -> {} lines):\n{}", d.text.lines().count(), small.lines().count(), small);
    std::process::exit(0);
}
