//! Generator probe: how many designs does the real analyzer accept, why are
//! the others rejected, which features appear.  Not a property check.

use crate::common::{Accept, accept};
use std::collections::BTreeMap;
use std::sync::{Arc, Mutex};
use vcommon::pipeline::default_metadata;
use vcommon::pool::{STACK_64M, par_cases};
use vcommon::{Args, Rng};
use vgen::{GenOpts, generate};

pub fn main(args: Args) {
    let n = args.budget("cases", 200, 2000);
    let seed = args.seed;
    let hist: Arc<Mutex<BTreeMap<String, (u64, String)>>> = Arc::new(Mutex::new(BTreeMap::new()));
    let feats: Arc<Mutex<BTreeMap<String, u64>>> = Arc::new(Mutex::new(BTreeMap::new()));
    let h2 = hist.clone();
    let f2 = feats.clone();
    let mode = args.get("mode").unwrap_or("default").to_string();
    par_cases(
        n,
        args.jobs,
        STACK_64M,
        move |i| {
            let mut rng = Rng::for_case(seed, "GEN", i);
            let opts = match mode.as_str() {
                "basic" => GenOpts::basic(),
                "wide" => GenOpts::wide(),
                _ => GenOpts::default(),
            };
            let d = generate(&mut rng, &opts);
            let md = default_metadata();
            let r = match accept(&d, &md) {
                Accept::Ok(a) => {
                    // also try the simulator build
                    let cfg = veryl_simulator::Config::default();
                    match veryl_simulator::ir::build_ir(&a.ir, "Top".into(), &cfg) {
                        Ok(_) => "ok".to_string(),
                        Err(e) => format!("sim_build_error: {}", e.to_string().lines().next().unwrap_or("")),
                    }
                }
                Accept::ParseError(e) => format!("parse_error: {}", e.chars().take(200).collect::<String>()),
                Accept::Rejected(c) => format!("rejected: {}", c.join(",")),
            };
            (r, d)
        },
        move |_i, r| match r {
            Err(p) => {
                let mut h = h2.lock().unwrap();
                let e = h.entry(format!("PANIC {} {}", p.location, p.message.chars().take(100).collect::<String>())).or_insert((0, String::new()));
                e.0 += 1;
            }
            Ok((k, d)) => {
                let mut h = h2.lock().unwrap();
                let e = h.entry(k.clone()).or_insert((0, String::new()));
                e.0 += 1;
                if e.1.is_empty() {
                    e.1 = d.text.clone();
                }
                if k == "ok" {
                    let mut f = f2.lock().unwrap();
                    for x in &d.features {
                        *f.entry(x.clone()).or_insert(0) += 1;
                    }
                }
            }
        },
    );
    let h = hist.lock().unwrap();
    let show = args.get("show").is_some();
    for (k, (c, ex)) in h.iter() {
        println!("{c:6}  {k}");
        if show && k != "ok" {
            println!("--- example ---\n{ex}\n---------------");
        }
    }
    println!("features in accepted designs: {:?}", feats.lock().unwrap());
    std::process::exit(0);
}
