//! C33 — switching to the compiled C backend mid-run is invisible.
//!
//! With the asynchronous C backend, `AotCWhole::try_dispatch` answers
//! `NotReady` until the background compile lands and the simulator falls back
//! to the Cranelift chunks; afterwards the compiled code takes over.  The
//! `veryl_simulator::verif` gate (cfg veryl_verif) makes that take-over point
//! a harness choice: dispatches `0..k` of the comb artifact / of the event
//! artifacts answer `NotReady`.  Oracle: for every gate setting (including
//! "never" and "from the start", comb and event gated independently so mixed
//! states occur) the per-step trace equals the never-swapped pure-Cranelift
//! trace.  The gate's own log shows which swap points were really exercised.
//! A natural-timing arm (`aot_c_async = true`, no gate) adds real background
//! compiles.

use crate::common::{Accept, accept};
use std::sync::Arc;
use vcommon::pipeline::default_metadata;
use vcommon::pool::{STACK_64M, par_cases};
use vcommon::rng::hash_str;
use vcommon::{Args, Json, Rng, Run, json};
use veryl_simulator::Config;
use veryl_simulator::verif::{KIND_COMB, KIND_EVENT, set_gate, take_log};
use vgen::sim::{Trace, run as sim_run, stimulus};
use vgen::{Design, GenOpts, generate};

const NEVER: u64 = u64::MAX;

#[derive(Default)]
struct CaseOut {
    status: String,
    design: Option<Design>,
    cycles: usize,
    gates_run: Vec<(u64, u64)>,
    /// per gate: (comb dispatches blocked, comb done, event blocked, event done)
    swap_stats: Vec<(u64, u64, u64, u64)>,
    comparisons: u64,
    mismatch: Option<Json>,
    panic: Option<(String, String)>,
    async_natural_ok: bool,
    /// `required_comb_passes` of the simulator IR (>1: the schedule has backward edges)
    comb_passes: usize,
}

fn opts(rng: &mut Rng) -> GenOpts {
    match rng.below(6) {
        0 => GenOpts::basic(),
        1 => GenOpts::wide(),
        2 => GenOpts { big: 10 + rng.usize(40), ..GenOpts::default() },
        _ => GenOpts { ffs: (1, 5), ..GenOpts::default() },
    }
}

/// "Multi-pass lab" designs (every 3rd case): a chain v0 -> v1 -> ... of comb variables whose
/// assignments are dealt out to 2-3 `always_comb` blocks, so the *blocks* depend on each other
/// cyclically although the variables do not (a false cycle).  The comb schedule then has backward
/// edges and a settle needs several passes (`required_comb_passes > 1`) — the one situation in which
/// the Cranelift fallback taken while the compiled artifact answers NotReady has to do more than one
/// evaluation pass.  DesignGen never produces it (one variable per block, topological order).
fn multipass_design(rng: &mut Rng) -> Design {
    let w = *rng.pick(&[8usize, 16, 24, 32, 48, 64, 65, 100]);
    let m = 3 + rng.usize(6);
    let nb = 2 + rng.usize(2);
    let mut blocks: Vec<Vec<String>> = vec![vec![]; nb];
    let rot = rng.usize(nb);
    let mut t = String::new();
    t.push_str("module Top (\n    i_clk: input clock,\n    i_rst: input reset,\n");
    for j in 0..3 {
        t.push_str(&format!("    i{j}: input logic<{w}>,\n"));
    }
    for j in 0..m {
        t.push_str(&format!("    o{j}: output logic<{w}>,\n"));
    }
    t.push_str(&format!("    o_r: output logic<{w}>,\n) {{\n    var r0: logic<{w}>;\n"));
    for b in 0..nb {
        t.push_str(&format!("    var t{b}: logic<{w}>;\n"));
    }
    for j in 0..m {
        t.push_str(&format!("    var v{j}: logic<{w}>;\n"));
        let src = |rng: &mut Rng| -> String {
            match rng.below(4) {
                0 => "r0".to_string(),
                n => format!("i{}", n - 1),
            }
        };
        let a0 = if j == 0 { src(rng) } else { format!("v{}", j - 1) };
        // strict rotation: a statement never reads a variable written by its own block
        let blk = (j + rot) % nb;
        let b = {
            let others: Vec<usize> = (0..j).filter(|i| (i + rot) % nb != blk).collect();
            if !others.is_empty() && rng.chance(1, 3) { format!("v{}", rng.pick(&others)) } else { src(rng) }
        };
        // the operand travels through the block's temporary, which is therefore written once per
        // statement and read in between: the statements of a block must keep their text order
        let a = format!("t{blk}");
        let e = match rng.below(6) {
            0 => format!("{a} + 1"),
            1 => format!("~{a}"),
            2 => format!("{a} + {b}"),
            3 => format!("{a} ^ {b}"),
            4 => format!("{a} - {b}"),
            _ => format!("({a} & {b}) | (~{a} & i0)"),
        };
        blocks[blk].push(format!("        t{blk} = {a0};\n        v{j} = {e};\n"));
    }
    // Text order inside a block: mostly *descending* chain order — the consumer of a value that
    // another block derives from this block's later statement comes first, and the temporary forbids
    // moving it behind the producer: a statement-level cycle, i.e. backward edges in the schedule.
    for blk in blocks.iter_mut() {
        if rng.chance(3, 4) {
            blk.reverse();
        }
    }
    // text order of the blocks is random
    let mut order: Vec<usize> = (0..nb).collect();
    for k in (1..nb).rev() {
        let j = rng.usize(k + 1);
        order.swap(k, j);
    }
    for b in order {
        if blocks[b].is_empty() {
            continue;
        }
        t.push_str("    always_comb {\n");
        for l in &blocks[b] {
            t.push_str(l);
        }
        t.push_str("    }\n");
    }
    t.push_str(&format!(
        "    always_ff {{\n        if_reset {{\n            r0 = 0;\n        }} else {{\n            r0 = r0 + v{};\n        }}\n    }}\n",
        m - 1
    ));
    for j in 0..m {
        t.push_str(&format!("    assign o{j} = v{j};\n"));
    }
    t.push_str("    assign o_r = r0;\n}\n");
    let mut d = Design::from_text(&t);
    d.features = vec!["multipass_lab".into()];
    d.has_ff = true;
    d
}

fn first_diff(d: &Design, a: &Trace, b: &Trace) -> Option<Json> {
    a.first_diff(b).map(|(c, o)| {
        json!({"cycle": c, "output": d.outputs.get(o).map(|p| p.name.clone()),
               "swapped_value": a.steps.get(c).and_then(|s| s.get(o)).map(|v| v.hex()),
               "cranelift_value": b.steps.get(c).and_then(|s| s.get(o)).map(|v| v.hex())})
    })
}

fn run_case(seed: u64, i: u64, cycles: usize, n_gates: usize) -> CaseOut {
    let mut rng = Rng::for_case(seed, "C33", i);
    let d = if i % 3 == 2 {
        multipass_design(&mut rng)
    } else {
        let o = opts(&mut rng);
        generate(&mut rng, &o)
    };
    let stim = stimulus(&d, &mut rng, cycles);
    let mut out = CaseOut { cycles, ..Default::default() };
    let md = default_metadata();
    let a = match accept(&d, &md) {
        Accept::Ok(a) => a,
        Accept::ParseError(e) => {
            out.status = format!("parse_error: {e}");
            return out;
        }
        Accept::Rejected(c) => {
            out.status = format!("rejected: {}", c.join(","));
            return out;
        }
    };
    set_gate(0, 0);
    let jit = Config { use_jit: true, ..Default::default() };
    let reference = match sim_run(&a.ir, &d, &jit, &stim) {
        Ok(t) => t,
        Err(e) => {
            out.status = format!("sim_build_error: {}", e.lines().next().unwrap_or(""));
            return out;
        }
    };
    out.status = "ok".into();
    let cc = Config { use_jit: true, aot_c: true, aot_c_event: true, aot_c_async: false, ..Default::default() };
    out.comb_passes = veryl_simulator::ir::build_ir(&a.ir, d.top.as_str().into(), &cc).map(|ir| ir.required_comb_passes).unwrap_or(0);
    let mut gates: Vec<(u64, u64)> = vec![(0, 0), (NEVER, NEVER), (1, 0), (0, 1), (2, 1), (1, 3), (NEVER, 0), (0, NEVER)];
    while gates.len() < n_gates {
        let c = rng.below(2 * cycles as u64 + 2);
        let e = rng.below(cycles as u64 + 2);
        gates.push((c, e));
    }
    gates.truncate(n_gates.max(2));
    for (gc, ge) in gates {
        set_gate(gc, ge);
        let r = std::panic::catch_unwind(std::panic::AssertUnwindSafe(|| sim_run(&a.ir, &d, &cc, &stim)));
        let log = take_log();
        set_gate(0, 0);
        match r {
            Err(_) => {
                let info = vcommon::pool::take_panic_info();
                out.panic = Some((
                    info.as_ref().map(|p| p.location.clone()).unwrap_or_default(),
                    format!("gate comb={gc} event={ge}: {}", info.map(|p| p.message).unwrap_or_default()),
                ));
                break;
            }
            Ok(Err(e)) => {
                out.status = format!("cc_build_error: {}", e.lines().next().unwrap_or(""));
                break;
            }
            Ok(Ok(t)) => {
                let cb = log.iter().filter(|x| x.0 == KIND_COMB && x.2).count() as u64;
                let cd = log.iter().filter(|x| x.0 == KIND_COMB && !x.2).count() as u64;
                let eb = log.iter().filter(|x| x.0 == KIND_EVENT && x.2).count() as u64;
                let ed = log.iter().filter(|x| x.0 == KIND_EVENT && !x.2).count() as u64;
                if (gc, ge) == (0, 0) && t != reference {
                    // Compiled code from the very first dispatch already differs from pure Cranelift:
                    // that is an engine disagreement (C02's business: cc vs Cranelift on this design),
                    // not an effect of *when* the take-over happens.  The design cannot isolate the
                    // swap, so it is not judged here (counted).
                    out.status = "engines_disagree_without_any_swap".into();
                    out.design = Some(d);
                    return out;
                }
                out.gates_run.push((gc, ge));
                out.swap_stats.push((cb, cd, eb, ed));
                out.comparisons += t.steps.len() as u64;
                if out.mismatch.is_none()
                    && let Some(mut m) = first_diff(&d, &t, &reference)
                {
                    m["gate_comb"] = json!(if gc == NEVER { "never".to_string() } else { gc.to_string() });
                    m["gate_event"] = json!(if ge == NEVER { "never".to_string() } else { ge.to_string() });
                    m["dispatch_log_head"] = json!(log.iter().take(24).map(|x| format!("{}#{}:{}", if x.0 == KIND_COMB { "comb" } else { "event" }, x.1, if x.2 { "NotReady" } else { "Done" })).collect::<Vec<_>>());
                    out.mismatch = Some(m);
                }
            }
        }
    }
    // natural timing: real background compile, swap whenever it lands
    if out.status == "ok" && out.mismatch.is_none() && out.panic.is_none() {
        let nat = Config { aot_c_async: true, ..cc.clone() };
        let r = std::panic::catch_unwind(std::panic::AssertUnwindSafe(|| sim_run(&a.ir, &d, &nat, &stim)));
        let _ = take_log();
        match r {
            Ok(Ok(t)) => {
                out.comparisons += t.steps.len() as u64;
                out.async_natural_ok = true;
                if let Some(mut m) = first_diff(&d, &t, &reference) {
                    m["gate_comb"] = json!("natural-async");
                    m["gate_event"] = json!("natural-async");
                    out.mismatch = Some(m);
                }
            }
            Ok(Err(_)) => {}
            Err(_) => {
                let info = vcommon::pool::take_panic_info();
                out.panic = Some((
                    info.as_ref().map(|p| p.location.clone()).unwrap_or_default(),
                    format!("natural async: {}", info.map(|p| p.message).unwrap_or_default()),
                ));
            }
        }
    }
    out.design = Some(d);
    out
}

pub fn main(args: Args) {
    let run = Arc::new(Run::new(
        args.clone(),
        "exploration",
        "cases = DesignGen designs x random stimulus; per design the cc backend (comb+event artifacts) is run under a set of swap points \
         (gate: the first k comb dispatches / first m event dispatches answer NotReady and fall back to Cranelift; k,m in {0, 1, 2, 3, random, never}, \
         gated independently) plus one natural-timing async run; every per-step trace must equal the pure-Cranelift trace; non-trivial = \
         design has state (flip-flops) and at least one gated run both fell back and later dispatched the compiled code; distinct = distinct designs",
    ));
    run.assume("the gate reproduces the NotReady window of an async compile on a synchronously compiled artifact (same dispatch/fallback code in Ir/Simulator)");
    run.assume("pure Cranelift (use_jit) is the never-swapped reference, as the property states");
    if !veryl_simulator::backend::aot_c::cc_available() {
        run.inconclusive("no C compiler: the cc backend cannot be exercised".into());
        run.finish(&[]);
    }
    let cycles = args.budget("cycles", 24, 80) as usize;
    let n_gates = args.budget("gates", 8, 30) as usize;

    if let Some(rp) = &args.replay {
        let v: Json = serde_json::from_str(&std::fs::read_to_string(rp).expect("replay")).unwrap();
        let i = v["case"]["case_index"].as_u64().unwrap();
        let seed = v["seed"].as_u64().unwrap_or(args.seed);
        let cyc = v["case"]["cycles"].as_u64().unwrap_or(cycles as u64) as usize;
        let g = v["case"]["gates"].as_u64().unwrap_or(n_gates as u64) as usize;
        let o = vcommon::pool::fresh_thread(STACK_64M, move || run_case(seed, i, cyc, g));
        run.eval();
        report(&run, i, n_gates, o);
        run.finish(&[]);
    }
    let n = args.budget("cases", 80, 600);
    let seed = args.seed;
    let run2 = run.clone();
    // the C compiler dominates: fewer parallel jobs than cores keeps the machine usable
    par_cases(n, args.jobs.min(12), STACK_64M, move |i| run_case(seed, i, cycles, n_gates), move |i, r| {
        run2.eval();
        report(&run2, i, n_gates, r);
    });
    // Sanitizer arm (thorough tier): the same swap workload under valgrind memcheck — the dlopen'ed
    // cc artifacts, the Cranelift code and the hand-over between them run on memcheck's synthetic CPU.
    let vg_cases = args.budget("memcheck_cases", 0, 8);
    if vg_cases > 0 && args.get("memcheck_child").is_none() {
        crate::common::memcheck_arm(&run, &args, "C33", vg_cases, &[("cycles", "10".to_string()), ("gates", "4".to_string())]);
    }
    run.finish(&[
        ("designs_swapped", 10),
        ("swap_points", 6),
        ("runs_with_fallback_then_compiled", 30),
        ("steps_compared", 3000),
        ("designs_needing_multi_pass_settle", 5),
    ]);
}

fn report(run: &Run, i: u64, n_gates: usize, r: Result<CaseOut, vcommon::pool::PanicInfo>) {
    match r {
        Err(p) => {
            run.count("cases_panicked_outside_swap_runs", 1);
            run.note(format!("case {i}: panic at {}: {}", p.location, p.message.chars().take(160).collect::<String>()));
        }
        Ok(o) => {
            if o.status != "ok" {
                run.count(&format!("not_simulated_{}", o.status.split(':').next().unwrap_or("")), 1);
                if o.status.starts_with("parse_error") {
                    run.note(format!("case {i}: {}", o.status.chars().take(400).collect::<String>()));
                }
                return;
            }
            let d = o.design.as_ref().unwrap();
            run.count("designs_swapped", 1);
            run.count("steps_compared", o.comparisons as i64);
            if o.async_natural_ok {
                run.count("natural_async_runs", 1);
            }
            if o.comb_passes > 1 {
                run.count("designs_needing_multi_pass_settle", 1);
                run.seen("required_comb_passes", &o.comb_passes.to_string());
            }
            let mut mixed = false;
            for ((gc, ge), (cb, cd, eb, ed)) in o.gates_run.iter().zip(o.swap_stats.iter()) {
                let name = |x: u64| if x == NEVER { "never".to_string() } else { x.to_string() };
                run.seen("swap_points", &format!("comb@{} event@{}", name(*gc), name(*ge)));
                run.count("comb_dispatches_not_ready", *cb as i64);
                run.count("comb_dispatches_compiled", *cd as i64);
                run.count("event_dispatches_not_ready", *eb as i64);
                run.count("event_dispatches_compiled", *ed as i64);
                if (*cb > 0 && *cd > 0) || (*eb > 0 && *ed > 0) {
                    run.count("runs_with_fallback_then_compiled", 1);
                    mixed = true;
                }
            }
            if mixed && d.has_ff {
                run.nontrivial(hash_str(&d.text));
            }
            run.sample(json!({"case_index": i, "features": d.features, "required_comb_passes": o.comb_passes, "gates": o.gates_run.iter().map(|(a, b)| format!("{a}/{b}")).collect::<Vec<_>>(), "design": d.text}));
            if let Some((loc, msg)) = &o.panic {
                run.violation(
                    &format!("swap-panic:{loc}"),
                    &format!("cc backend panicked at {loc} under a forced swap point: {}", msg.lines().next().unwrap_or("")),
                    json!({"case_index": i, "cycles": o.cycles, "gates": n_gates, "panic": msg, "design": d.text}),
                );
            }
            if let Some(m) = &o.mismatch {
                run.violation(
                    &format!("swap-mismatch:case{i}:comb@{}:event@{}", m["gate_comb"].as_str().unwrap_or("?"), m["gate_event"].as_str().unwrap_or("?")),
                    &format!(
                        "swap comb@{} event@{}: trace differs from pure Cranelift at cycle {} on {}: {} vs {}",
                        m["gate_comb"], m["gate_event"], m["cycle"], m["output"], m["swapped_value"], m["cranelift_value"]
                    ),
                    json!({"case_index": i, "cycles": o.cycles, "gates": n_gates, "mismatch": m, "design": d.text}),
                );
            }
        }
    }
}
