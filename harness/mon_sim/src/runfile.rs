//! `--prop RUN --set file=<design.veryl> [--set cycles=N] [--set stim=<seed>]`:
//! print the per-engine trace of one design text (triage helper, not a check).

use crate::c02::engines;
use vcommon::pipeline::{analyze_one, default_metadata};
use vcommon::{Args, Rng};
use vgen::Design;
use vgen::sim::{run as sim_run, stimulus};

pub fn main(args: Args) {
    let file = args.get("file").expect("--set file=...");
    let text = std::fs::read_to_string(file).expect("read design");
    let cycles: usize = args.get("cycles").map(|c| c.parse().unwrap()).unwrap_or(8);
    let sseed: u64 = args.get("stim").map(|c| c.parse().unwrap()).unwrap_or(1);
    let d = Design::from_text(&text);
    let mut rng = Rng::new(sseed);
    let stim = stimulus(&d, &mut rng, cycles);
    let r = vcommon::pool::fresh_thread(vcommon::pool::STACK_64M, move || {
        let a = analyze_one(&d.text, &default_metadata()).expect("parse");
        for e in &a.errors {
            println!("diag: {e}");
        }
        for (c, cyc) in stim.cycles.iter().enumerate() {
            println!("cycle {c}: reset={} inputs={:?}", cyc.reset, cyc.inputs.iter().map(|v| v.hex()).collect::<Vec<_>>());
        }
        for (name, cfg) in engines(true) {
            let r = std::panic::catch_unwind(std::panic::AssertUnwindSafe(|| sim_run(&a.ir, &d, &cfg, &stim)));
            match r {
                Ok(Ok(t)) => {
                    let rows: Vec<String> = t.steps.iter().map(|s| s.iter().map(|v| v.hex()).collect::<Vec<_>>().join(",")).collect();
                    println!("{name:22} {}", rows.join(" | "));
                }
                Ok(Err(e)) => println!("{name:22} build error: {e}"),
                Err(_) => println!("{name:22} PANIC {:?}", vcommon::pool::take_panic_info()),
            }
        }
    });
    if let Err(p) = r {
        println!("panic: {p:?}");
    }
    std::process::exit(0);
}
