//! mon_sim — simulator monitors: engine equivalence (C02), optimisation
//! toggles (C03: `simtrace` worker), async swap (C33), module cache (C34),
//! plus `GEN`, a generator probe used to tune DesignGen.

mod common;
mod genprobe;

use vcommon::Args;

fn main() {
    vcommon::pool::install_panic_hook();
    let args = Args::parse();
    match args.prop.as_str() {
        "GEN" => genprobe::main(args),
        p => {
            eprintln!("mon_sim: unknown property {p}");
            std::process::exit(2);
        }
    }
}
