//! mon_sim — simulator monitors: engine equivalence (C02), optimisation
//! toggles (C03: `simtrace` worker), async swap (C33), module cache (C34),
//! plus `GEN`, a generator probe used to tune DesignGen.

mod c02;
mod c03;
mod c33;
mod c34;
mod common;
mod genprobe;
mod runfile;

use vcommon::Args;

fn main() {
    vcommon::pool::install_panic_hook();
    let args = Args::parse();
    match args.prop.as_str() {
        "GEN" => genprobe::main(args),
        "C02" => c02::main(args),
        "RUN" => runfile::main(args),
        "C03" => c03::main(args),
        "C33" => c33::main(args),
        "C34" => c34::main(args),
        "C03WORKER" => c03::worker(args),
        "C03RED" => c03::reduce_main(args),
        p => {
            eprintln!("mon_sim: unknown property {p}");
            std::process::exit(2);
        }
    }
}
