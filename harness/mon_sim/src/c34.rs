//! C34 (in-process part) — reusing converted modules across tests is invisible.
//!
//! `veryl test` keeps one `ProtoModuleCache` per worker thread and calls
//! `build_ir_cached(ir, top, config, cache)` for every test; tests naming the
//! same top (`#[test(name, Top)]`) re-instantiate the cached `ProtoModule`
//! instead of converting again.  Oracle: for a random sequence of tests over
//! several tops (sharing a parameterised submodule with different parameters
//! and instance layouts) every test's per-step trace under the shared cache
//! equals the trace of the same test on an `Ir` built from scratch with
//! `build_ir`.  Cache hits are counted (non-vacuity: the second and later uses
//! of a top are hits by construction of `build_ir_cached`).
//! The CLI-level DUT reuse (`VERYL_DUT_REUSE`) is judged by pytools/c34b.py,
//! which this check runs as its second arm.

use std::sync::Arc;
use vcommon::pipeline::{analyze_one, default_metadata};
use vcommon::pool::{STACK_64M, par_cases};
use vcommon::rng::hash_str;
use vcommon::{Args, Json, Rng, Run, json};
use veryl_simulator::ir::{ProtoModuleCache, build_ir, build_ir_cached};
use veryl_simulator::{Config, Simulator};
use vgen::sim::{Stimulus, Trace, run_on, stimulus};
use vgen::{Design, GenOpts, generate};

const COMMON: &str = r#"
module Common #(
    param W: u32 = 4,
    param K: u32 = 1,
) (
    i_clk: input clock,
    i_rst: input reset,
    a: input logic<W>,
    y: output logic<W>,
) {
    var acc: logic<W> [K];
    for k in 0..K :lane {
        always_ff {
            if_reset {
                acc[k] = k;
            } else {
                if k == 0 {
                    acc[k] = acc[k] + a;
                } else {
                    acc[k] = acc[k] ^ (acc[k - 1] + a);
                }
            }
        }
    }
    assign y = acc[K - 1];
}
"#;

/// Rename a generated design's items so that several designs can live in one file,
/// and wire in an instance of the shared `Common` module.
fn specialise(d: &Design, k: usize, rng: &mut Rng) -> Design {
    let mut t = d.text.clone();
    t = t.replace("Pkg::", &format!("Pkg{k}::")).replace("package Pkg ", &format!("package Pkg{k} "));
    for i in 0..16 {
        t = t.replace(&format!(": Sub{i} "), &format!(": Sub{i}_{k} ")).replace(&format!("module Sub{i} "), &format!("module Sub{i}_{k} "));
    }
    t = t.replace("module Top (", &format!("module Top{k} ("));
    // shared submodule, different parameters per top
    let w = 1 + rng.usize(40);
    let lanes = 1 + rng.usize(4);
    let src = &d.inputs[0].name;
    let inst = format!(
        "    var cm_y: logic<{w}>;\n    inst cm: Common #(W: {w}, K: {lanes}) (\n        i_clk,\n        i_rst,\n        a: {src} as {w},\n        y: cm_y,\n    );\n"
    );
    // xor the shared module's output into o0
    if let Some(pos) = t.find("    assign o0 = ") {
        let end = t[pos..].find(";\n").map(|e| pos + e).unwrap();
        let expr = t[pos + "    assign o0 = ".len()..end].to_string();
        t.replace_range(pos..end, &format!("    assign o0 = ({expr}) ^ cm_y"));
    }
    // declare + instantiate right after the port list (declaration must precede its use)
    let hdr = t.find(&format!("module Top{k} (")).unwrap();
    let body = t[hdr..].find("\n) {\n").map(|p| hdr + p + "\n) {\n".len()).unwrap();
    t.insert_str(body, &inst);
    let mut nd = d.clone();
    nd.text = t;
    nd.top = format!("Top{k}");
    nd.has_ff = true;
    nd
}

#[derive(Default)]
struct CaseOut {
    status: String,
    text: String,
    tests: usize,
    hits: usize,
    steps: u64,
    configs: Vec<String>,
    mismatch: Option<Json>,
    /// a mismatch that did not recur when the same case was run again twice (each on a fresh thread)
    unreproduced: Option<Json>,
    panic: Option<(String, String)>,
    fresh_panics: usize,
}

/// A verdict needs a reproducible observation: a case whose cached trace differs is run again twice,
/// each on a fresh OS thread; only a difference seen in all three runs is reported.  (About one
/// sequence in 3000 shows a JIT-only difference that does not recur — see notes/C34.md.)
fn run_case_confirmed(seed: u64, i: u64, cycles: usize) -> CaseOut {
    let mut o = run_case(seed, i, cycles);
    if o.mismatch.is_some() {
        let mut again = 0;
        for _ in 0..2 {
            if let Ok(o2) = vcommon::pool::fresh_thread(STACK_64M, move || run_case(seed, i, cycles))
                && o2.mismatch.is_some()
            {
                again += 1;
            }
        }
        if again < 2 {
            o.unreproduced = o.mismatch.take();
        }
    }
    o
}

fn configs() -> Vec<(&'static str, Config)> {
    vec![
        ("interp", Config::default()),
        ("jit", Config { use_jit: true, ..Default::default() }),
        ("jit+4state", Config { use_jit: true, use_4state: true, ..Default::default() }),
        ("jit+noffopt", Config { use_jit: true, disable_ff_opt: true, ..Default::default() }),
    ]
}

/// The workload is a fixed corpus of 8 sets (VERIF_SEED mod 8 selects one): a genuine cache defect
/// was found in the thorough tier (notes/C34.md) and a known finding must name an exact input —
/// "set s, case i" — which a free-running seed cannot give.
fn run_case(seed: u64, i: u64, cycles: usize) -> CaseOut {
    let mut rng = Rng::for_case(seed % crate::c02::STIM_SETS, "C34", i);
    let ntops = 1 + rng.usize(3);
    let mut designs = vec![];
    let mut text = String::from(COMMON);
    for k in 0..ntops {
        let o = match rng.below(4) {
            0 => GenOpts::basic(),
            1 => GenOpts::wide(),
            _ => GenOpts { ffs: (1, 4), ..GenOpts::default() },
        };
        let d = specialise(&generate(&mut rng, &o), k, &mut rng);
        text.push_str(&d.text);
        text.push('\n');
        designs.push(d);
    }
    let mut out = CaseOut { text: text.clone(), ..Default::default() };
    let a = match analyze_one(&text, &default_metadata()) {
        Err(e) => {
            out.status = format!("parse_error: {e:?}");
            return out;
        }
        Ok(a) => a,
    };
    if !a.error_codes().is_empty() {
        out.status = format!("rejected: {}", a.error_codes().join(","));
        return out;
    }
    // the test sequence: (top index, stimulus)
    let ntests = 5 + rng.usize(6);
    let seq: Vec<(usize, Stimulus)> = (0..ntests)
        .map(|_| {
            let k = rng.usize(ntops);
            let s = stimulus(&designs[k], &mut rng, cycles);
            (k, s)
        })
        .collect();
    out.status = "ok".into();
    for (cname, cfg) in configs() {
        let mut cache = ProtoModuleCache::default();
        let mut seen = vec![false; ntops];
        for (t, (k, stim)) in seq.iter().enumerate() {
            let d = &designs[*k];
            let top = d.top.as_str();
            // from scratch first: a conversion that fails or panics on its own says nothing about the cache
            let fresh = std::panic::catch_unwind(std::panic::AssertUnwindSafe(|| -> Result<Trace, String> {
                let fresh_ir = build_ir(&a.ir, top.into(), &cfg).map_err(|e| e.to_string())?;
                let mut sim = Simulator::new(fresh_ir, None);
                run_on(&mut sim, d, stim)
            }));
            let tf = match fresh {
                Err(_) => {
                    let _ = vcommon::pool::take_panic_info();
                    out.fresh_panics += 1;
                    break;
                }
                Ok(Err(e)) => {
                    out.status = format!("sim_build_error: {}", e.lines().next().unwrap_or(""));
                    return out;
                }
                Ok(Ok(t)) => t,
            };
            let r = std::panic::catch_unwind(std::panic::AssertUnwindSafe(|| -> Result<(Trace, Trace), String> {
                let cached_ir = build_ir_cached(&a.ir, top.into(), &cfg, &mut cache).map_err(|e| e.to_string())?;
                let mut sim = Simulator::new(cached_ir, None);
                let tc = run_on(&mut sim, d, stim)?;
                Ok((tc, tf))
            }));
            match r {
                Err(_) => {
                    let info = vcommon::pool::take_panic_info();
                    out.panic = Some((
                        info.as_ref().map(|p| p.location.clone()).unwrap_or_default(),
                        format!("config {cname}, test #{t} on {top} (from-scratch run of the same test did not panic): {}", info.map(|p| p.message).unwrap_or_default()),
                    ));
                    return out;
                }
                Ok(Err(e)) => {
                    out.status = format!("cached_build_error_but_fresh_ok: {}", e.lines().next().unwrap_or(""));
                    return out;
                }
                Ok(Ok((tc, tf))) => {
                    out.tests += 1;
                    if seen[*k] {
                        out.hits += 1;
                    }
                    seen[*k] = true;
                    out.steps += tc.steps.len() as u64;
                    if out.mismatch.is_none()
                        && let Some((c, o)) = tc.first_diff(&tf)
                    {
                        out.mismatch = Some(json!({
                            "config": cname, "test_index": t, "top": top, "cycle": c, "output": d.outputs[o].name,
                            "cached_value": tc.steps[c][o].hex(), "fresh_value": tf.steps[c][o].hex(),
                            "sequence_tops": seq.iter().map(|x| x.0).collect::<Vec<_>>(),
                        }));
                    }
                }
            }
        }
        out.configs.push(cname.to_string());
    }
    out
}

pub fn main(args: Args) {
    let run = Arc::new(Run::new(
        args.clone(),
        "exploration",
        "cases = one source with 1-3 generated top modules that all instantiate a shared parameterised submodule (different W / lane counts), \
         and a random sequence of 5-10 tests (top, stimulus) run through one ProtoModuleCache per engine config; each test's trace is compared with a \
         from-scratch build_ir of the same top; non-trivial = sequence with >=1 cache hit (a top used again); distinct = distinct source texts. \
         Second arm: pytools/c34b.py (CLI DUT reuse on/off) when the veryl binary is available",
    ));
    run.assume("cache hit = second or later build_ir_cached of the same top on one cache (by construction of build_ir_cached)");
    let cycles = args.budget("cycles", 24, 24) as usize; // same in both tiers: case i of a set is one exact input
    if let Some(rp) = &args.replay {
        let v: Json = serde_json::from_str(&std::fs::read_to_string(rp).expect("replay")).unwrap();
        let i = v["case"]["case_index"].as_u64().unwrap();
        let seed = v["seed"].as_u64().unwrap_or(args.seed);
        let cyc = v["case"]["cycles"].as_u64().unwrap_or(cycles as u64) as usize;
        let o = vcommon::pool::fresh_thread(STACK_64M, move || run_case_confirmed(seed, i, cyc));
        run.eval();
        report(&run, seed % crate::c02::STIM_SETS, i, o);
        run.finish(&[]);
    }
    let n = args.budget("cases", 120, 1000);
    let seed = args.seed;
    let run2 = run.clone();
    par_cases(n, args.jobs, STACK_64M, move |i| run_case_confirmed(seed, i, cycles), move |i, r| {
        run2.eval();
        report(&run2, seed % crate::c02::STIM_SETS, i, r);
    });
    // Sanitizer arm (thorough tier): cached conversions re-used across engines under valgrind memcheck.
    let vg_cases = args.budget("memcheck_cases", 0, 12);
    if vg_cases > 0 && args.get("memcheck_child").is_none() {
        crate::common::memcheck_arm(&run, &args, "C34", vg_cases, &[("cycles", "8".to_string())]);
    }
    run.finish(&[("sequences_run", 15), ("cache_hits", 100), ("tests_compared", 300), ("steps_compared", 5000)]);
}

fn report(run: &Run, set: u64, i: u64, r: Result<CaseOut, vcommon::pool::PanicInfo>) {
    match r {
        Err(p) => {
            run.count("cases_panicked_outside_cache_runs", 1);
            run.note(format!("case {i}: panic at {}: {}", p.location, p.message.chars().take(160).collect::<String>()));
        }
        Ok(o) => {
            if o.status != "ok" {
                run.count(&format!("not_simulated_{}", o.status.split(':').next().unwrap_or("")), 1);
                if o.status.starts_with("rejected") {
                    run.seen("rejection_reasons", &o.status);
                    if std::env::var("VERIF_DUMP_REJECTED").is_ok() {
                        eprintln!("--- rejected case {i}: {}\n{}", o.status, o.text);
                    }
                }
                if o.status.starts_with("parse_error") {
                    run.note(format!("case {i}: {}", o.status.chars().take(300).collect::<String>()));
                }
                return;
            }
            run.count("sequences_run", 1);
            run.count("configs_skipped_because_from_scratch_conversion_panics", o.fresh_panics as i64);
            run.count("tests_compared", o.tests as i64);
            run.count("cache_hits", o.hits as i64);
            run.count("steps_compared", o.steps as i64);
            for c in &o.configs {
                run.seen("configs", c);
            }
            if o.hits > 0 {
                run.nontrivial(hash_str(&o.text));
            }
            run.sample(json!({"case_index": i, "tests": o.tests, "cache_hits": o.hits, "source_lines": o.text.lines().count()}));
            if let Some((loc, msg)) = &o.panic {
                run.violation(
                    &format!("cache-panic:{loc}"),
                    &format!("panic at {loc} while running a test sequence through the module cache: {}", msg.lines().next().unwrap_or("")),
                    json!({"case_index": i, "panic": msg, "source": o.text}),
                );
            }
            if let Some(m) = &o.unreproduced {
                run.count("mismatches_not_reproduced_on_rerun", 1);
                run.note(format!(
                    "set {set} case {i}: config {} test #{} differed once from the from-scratch build (cycle {}, {}) and agreed in the re-runs; not a verdict",
                    m["config"], m["test_index"], m["cycle"], m["output"]
                ));
            }
            if let Some(m) = &o.mismatch {
                run.violation(
                    &format!("cache-mismatch:set{set}:case{i}"),
                    &format!(
                        "config {} test #{} on {}: cached trace differs from from-scratch at cycle {} on {}: {} vs {}",
                        m["config"], m["test_index"], m["top"], m["cycle"], m["output"], m["cached_value"], m["fresh_value"]
                    ),
                    json!({"case_index": i, "mismatch": m, "source": o.text}),
                );
            }
        }
    }
}
