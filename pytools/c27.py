#!/usr/bin/env python3
"""C27 - Check modes agree with write modes.

Runtime monitor over the real CLI.  One case = one tree *state* of a generated project universe (projgen2):
a formatting state of the sources x a build state of the outputs x a configuration (target source /
directory / bundle, incremental on/off, sourcemap target, path dependencies, $std).  The state is prepared
with the real commands at a fixed path W and snapshotted (bytes and mtimes).  Then, each time starting from
the restored snapshot *at the same path* (absolute paths, mtimes and the incremental cache are part of the
state):

    veryl fmt --check    vs   veryl fmt        (all files hashed before / after)
    veryl build --check  vs   veryl build      (emitted .sv files and the bundle hashed before / after;
                                                source maps, filelist, Veryl.lock: evidence only, DESIGN 7a)

The check-mode exit code must be 0 exactly when the write-mode run changes no byte of the judged files.
A missing file and an empty file count as equal (check mode reads a missing output as "").
"""
import json
import os
import re
import sys

sys.path.insert(0, os.path.dirname(os.path.abspath(__file__)))
from vcommon import Args, Run, Rng  # noqa: E402
import projgen2  # noqa: E402
import c2xlib as L  # noqa: E402

BUILD_STATES = ["fresh", "uptodate", "stale-semantic", "stale-layout", "missing-output", "edited-output",
                "dep-output-edited", "std-output-edited", "std-output-missing", "source-added", "source-removed",
                "map-missing", "filelist-edited", "uptodate"]
FMT_STATES = ["formatted", "raw", "noisy-root", "noisy-root", "noisy-example", "noisy-dependency", "formatted"]


def noise(text, rng, n=3):
    """Token-preserving layout noise: only lines without comments are touched; spaces are only added where a
    space already is (or at the line end), blank lines only between lines."""
    lines = text.split("\n")
    idx = [k for k, l in enumerate(lines) if l.strip() and "//" not in l and "/*" not in l and "*/" not in l
           and '"' not in l]
    for _ in range(n):
        if not idx:
            break
        k = rng.pick(idx)
        op = rng.below(4)
        l = lines[k]
        if op == 0:
            lines[k] = l + "   "
        elif op == 1:
            sp = [m.start() for m in re.finditer(r"(?<=\S) (?=\S)", l)]
            if sp:
                p = rng.pick(sp)
                lines[k] = l[:p] + "    " + l[p + 1:]
        elif op == 2:
            lines[k] = l + "\n\n"
        else:
            lines[k] = "  " + l
    return "\n".join(lines)


def make_case(seed, i):
    rng = Rng.for_case(seed, "C27", i)
    bstate = BUILD_STATES[i % len(BUILD_STATES)]
    fstate = FMT_STATES[(i // 2) % len(FMT_STATES)]
    target = ["directory", "bundle", "source"][(i // len(BUILD_STATES) + i) % 3]
    incremental = rng.bool()
    std = bstate.startswith("std-") or rng.chance(1, 10)
    deps = 1 if bstate == "dep-output-edited" or fstate == "noisy-dependency" else rng.pick([0, 0, 1, 2])
    if target == "bundle":
        deps = min(deps, 1)          # several dependencies: filelist/bundle order varies per process (C24 defect)
    root_opts = {"target": target, "sourcemap": rng.pick(["target", "none", "directory"]),
                 "filelist": rng.pick(["absolute", "relative", "flgen"]), "std": std, "incremental": incremental,
                 "target_path": {"directory": "target", "bundle": "all.sv", "source": ""}[target],
                 "sourcemap_path": "maps"}
    opts = {"root_opts": root_opts, "nsources": rng.pick([1, 1, 2]), "layout": rng.pick(["flat", "subdirs"]),
            "examples": True, "tests": True, "warnings": False, "multi_item": 30, "deps": deps,
            "shared_name": False, "nfiles": rng.range(2, 5)}
    u = projgen2.gen_universe(rng.fork(), opts)
    case = L.case_from_universe(u)
    case["index"] = i
    case["bstate"], case["fstate"] = bstate, fstate
    case["noise_seed"] = rng.next()
    case["out_dir"] = "build-out" if i % 4 == 3 else None        # build / build --check with --out-dir build-out
    return case


def od_args(case):
    return ["--out-dir", case["out_dir"]] if case.get("out_dir") else []


def od_strip(case, rel):
    """Path below the output directory (outputs live in <root>/<out_dir>/ when --out-dir is used)."""
    od = case.get("out_dir")
    if od and rel.startswith(od + os.sep):
        return rel[len(od) + 1:]
    return rel


# -- state preparation --------------------------------------------------------------------------------

def root_sources(case, example=False):
    return [f for f in case["files"] if f["root"] and f["example"] == example]


def prepare(case, top, home):
    """Builds the state in `top` (the universe directory). Returns (ok, description of what was done)."""
    rng = Rng(case["noise_seed"])
    root = os.path.join(top, case["root"])
    did = []
    fstate, bstate = case["fstate"], case["bstate"]
    opts = case["opts"]

    def rewrite(path, fn):
        with open(path) as fh:
            t = fh.read()
        t2 = fn(t)
        with open(path, "w") as fh:
            fh.write(t2)
        return t != t2

    # formatting state first
    if fstate != "raw":
        r = L.run_veryl(["fmt"], root, home)
        if r["code"] != 0:
            return False, "veryl fmt failed while preparing: " + L.tail(r["err"], 300)
        did.append("veryl fmt")
    victim = None
    if fstate == "noisy-root":
        victim = [os.path.join(root, f["path"]) for f in root_sources(case)]
    elif fstate == "noisy-example":
        victim = [os.path.join(root, f["path"]) for f in root_sources(case, True)]
        if not victim:
            case["fstate"] = fstate = "formatted"
    elif fstate == "noisy-dependency":
        victim = [os.path.join(top, f["proj"], f["path"]) for f in case["files"] if not f["root"]]
    if victim:
        rng.shuffle(victim)
        for p in victim[:rng.range(1, 2)]:
            if rewrite(p, lambda t: noise(t, rng)):
                did.append("layout noise in " + os.path.relpath(p, top))
    if bstate == "fresh":
        return True, did
    r = L.run_veryl(["build"] + od_args(case), root, home)
    if r["code"] != 0:
        return False, "veryl build failed while preparing: " + L.tail(r["err"], 400)
    did.append("veryl build" + (" --out-dir " + case["out_dir"] if case.get("out_dir") else ""))
    outs = sorted(rel for rel in L.read_files(root, lambda rel: rel.endswith(".sv") and not rel.startswith(".build")))
    root_outs = [o for o in outs if not od_strip(case, o).startswith("dependencies" + os.sep)]
    dep_outs = [o for o in outs if od_strip(case, o).startswith("dependencies" + os.sep)
                and not od_strip(case, o).startswith(os.path.join("dependencies", "std"))]
    srcs = [os.path.join(root, f["path"]) for f in root_sources(case)]

    def fallback(why):
        case["bstate"] = "uptodate"
        did.append(f"({bstate} not applicable: {why}; state is up to date)")
        return True, did

    if bstate == "uptodate":
        pass
    elif bstate == "stale-semantic":
        done = False
        rng.shuffle(srcs)
        for p in srcs:
            t = open(p).read()
            m = re.search(r"(const K\d+: u32\s*= )(\d+);", t)
            if m:
                t = t[:m.start()] + m.group(1) + str(int(m.group(2)) + 1) + ";" + t[m.end():]
            elif "assign o = " in t:
                t = t.replace("assign o = ", "assign o = 1 ^ ", 1)
            else:
                continue
            open(p, "w").write(t)
            did.append("semantic edit of " + os.path.relpath(p, top))
            done = True
            break
        if not done:
            return fallback("no editable source")
    elif bstate == "stale-layout":
        p = rng.pick(srcs)
        if rewrite(p, lambda t: noise(t, rng, 2)):
            did.append("layout-only edit of " + os.path.relpath(p, top))
    elif bstate in ("missing-output", "edited-output"):
        if not root_outs:
            return fallback("no root output")
        o = rng.pick(root_outs)
        if bstate == "missing-output":
            os.remove(os.path.join(root, o))
            did.append("removed " + o)
        else:
            with open(os.path.join(root, o), "a") as fh:
                fh.write("// hand edit\n")
            did.append("appended a comment to " + o)
    elif bstate == "dep-output-edited":
        if not dep_outs:
            return fallback("no dependency output")
        o = rng.pick(dep_outs)
        with open(os.path.join(root, o), "a") as fh:
            fh.write("// hand edit\n")
        did.append("appended a comment to " + o)
    elif bstate in ("std-output-edited", "std-output-missing"):
        std_outs = [o for o in outs if od_strip(case, o).startswith(os.path.join("dependencies", "std"))]
        if not std_outs:
            return fallback("no std output on disk (bundle target keeps none)")
        o = rng.pick(std_outs)
        if bstate == "std-output-missing":
            os.remove(os.path.join(root, o))
            did.append("removed " + o)
        else:
            with open(os.path.join(root, o), "a") as fh:
                fh.write("// hand edit\n")
            did.append("appended a comment to " + o)
    elif bstate == "source-added":
        p = os.path.join(root, case["sources"][0], "extra_added.veryl")
        open(p, "w").write("module ExtraAdded (\n    o: output logic,\n) {\n    assign o = 0;\n}\n")
        did.append("added " + os.path.relpath(p, top))
    elif bstate == "source-removed":
        referenced = {b for bs in case.get("graph_all", case["graph"]).values() for b in bs}
        cand = [f for f in root_sources(case) if f["uid"] not in referenced]
        if not cand or len(root_sources(case)) < 2:
            return fallback("every root file is referenced")
        f = rng.pick(cand)
        os.remove(os.path.join(root, f["path"]))
        did.append("removed source " + f["path"])
    elif bstate == "map-missing":
        maps = sorted(L.read_files(root, lambda rel: rel.endswith(".sv.map")
                                   and not od_strip(case, rel).startswith("dependencies")))
        if not maps:
            return fallback("no source map on disk")
        o = rng.pick(maps)
        os.remove(os.path.join(root, o))
        did.append("removed " + o)
    elif bstate == "filelist-edited":
        fl = os.path.join(root, case.get("out_dir") or "", L.filelist_name(case["name"], opts["filelist"]))
        with open(fl, "a") as fh:
            fh.write("# hand edit\n" if opts["filelist"] == "flgen" else "/nonexistent/hand_edit.sv\n")
        did.append("appended a line to the filelist")
    return True, did


def kind_of(rel, case):
    o = case["opts"]
    rel = os.path.normpath(rel)
    if rel.endswith(".sv.map"):
        return "map"
    if o["target"] == "bundle" and rel == os.path.normpath(os.path.join(case["root"], case.get("out_dir") or "",
                                                                         o["target_path"])):
        return "bundle"
    if rel.endswith(".sv"):
        return "sv"
    if rel.endswith(".veryl"):
        return "source"
    if os.path.basename(rel) in (case["name"] + ".f", case["name"] + ".list.rb"):
        return "filelist"
    if os.path.basename(rel) == "Veryl.lock":
        return "lock"
    return "other"


def snapshot_files(top):
    return L.read_files(top, lambda rel: (os.sep + ".build" + os.sep) not in (os.sep + rel))


def changed_files(before, after):
    out = []
    for rel in sorted(set(before) | set(after)):
        if before.get(rel, b"") != after.get(rel, b""):        # missing == empty
            out.append(rel)
    return out


def twin(case, top, snap, home, check_cmd, write_cmd):
    root = os.path.join(top, case["root"])

    def restore():
        L.rmtree(top)
        L.copytree(snap, top)

    restore()
    before = snapshot_files(top)
    c = L.run_veryl(check_cmd, root, home)
    check_wrote = changed_files(before, snapshot_files(top))      # evidence only: check mode should be read-only
    restore()
    w = L.run_veryl(write_cmd, root, home)
    after = snapshot_files(top)
    created_empty = [rel for rel in after if rel not in before and after[rel] == b""]
    return {"check_code": c["code"], "write_code": w["code"], "panic": c["panic"] or w["panic"],
            "changed": changed_files(before, after), "created_empty": created_empty, "check_wrote": check_wrote,
            "check_err": L.tail(c["err"], 500), "write_err": L.tail(w["err"], 500)}


def run_case(case, scratch):
    d = os.path.join(scratch, f"c{case['index']}")
    L.rmtree(d)
    top, snap, home = os.path.join(d, "w"), os.path.join(d, "snap"), os.path.join(d, "home")
    L.write_case(case, top)
    ok, did = prepare(case, top, home)
    res = {"case": case, "prepared": ok, "did": did}
    if ok:
        L.copytree(top, snap)
        res["fmt"] = twin(case, top, snap, home, ["fmt", "--check"], ["fmt"])
        res["build"] = twin(case, top, snap, home, ["build", "--check"] + od_args(case), ["build"] + od_args(case))
    if not os.environ.get("VERIF_KEEP_SCRATCH"):
        L.rmtree(d)
    return res


def main():
    args = Args()
    run = Run(args, "exploration",
              "one case = one tree state (formatting state x build state x target/incremental/sourcemap/deps/std "
              "configuration) of a generated project, prepared with the real commands; check mode and write mode both "
              "start from the byte- and mtime-identical snapshot at the same path; non-trivial = both twin pairs ran "
              "and the write-mode command succeeded; distinct = hash of (state names, config, tree)")
    run.assume("restoring the snapshot with copy2/copystat reproduces the state (bytes, mtimes with ns resolution, "
               "the .build cache); the user cache in HOME only holds the content-addressed std expansion")
    run.assume("a missing output and an empty output are the same state of an emitted file")
    run.assume("cases avoid dependency sets whose naming/order is process-dependent (C24 defect), so the two twin "
               "processes see the same project")
    scratch = run.scratch()
    if args.replay:
        rp = json.load(open(args.replay))
        cases = [rp["case"]["case"]]
        n = 1
    else:
        cases = None
        n = args.budget("cases", 30, 400)

    def work(i):
        return run_case(cases[i] if cases else make_case(args.seed, i), scratch)

    def handle(i, res, err):
        if err:
            run.inconclusive(f"harness error in case {i}: {err.splitlines()[-1]}")
            run.note(err)
            return
        run.eval()
        case = res["case"]
        o = case["opts"]
        cfg = f"{o['target']}{'+incremental' if o.get('incremental') else ''}{'+out-dir' if case.get('out_dir') else ''}"
        if case.get("out_dir"):
            run.count("out_dir_states")
        if not res["prepared"]:
            run.count("state_preparation_failed")
            run.note(f"case {i} ({case['bstate']}/{case['fstate']}/{cfg}): {res['did']}")
            return
        run.count("states_prepared")
        run.seen("build_states", case["bstate"])
        run.seen("fmt_states", case["fstate"])
        run.seen("configs", cfg + f"+sourcemap-{o['sourcemap']}" + ("+std" if o.get("std") else ""))
        both = True
        for which, judged_kinds in (("fmt", None), ("build", ("sv", "bundle"))):
            t = res[which]
            state = case["fstate"] if which == "fmt" else case["bstate"]
            if t["panic"]:
                run.count(which + "_panicked")
                run.note(f"case {i}: {which} twin panicked: {(t['check_err'] + t['write_err'])[-300:]}")
                both = False
                continue
            run.seen(which + "_check_exit_codes", t["check_code"])
            if t["write_code"] != 0:
                run.count(which + "_write_mode_failed")
                run.note(f"case {i} ({state}/{cfg}): `veryl {which}` failed (exit {t['write_code']}), pair not judged: "
                         f"{t['write_err'][-300:]}")
                both = False
                continue
            changed = t["changed"]
            judged = [c for c in changed if judged_kinds is None or kind_of(c, case) in judged_kinds]
            unjudged = [c for c in changed if c not in judged]
            passed = t["check_code"] == 0
            run.count(which + "_pairs_compared")
            run.count(which + ("_check_passed" if passed else "_check_failed"))
            run.count(which + ("_write_changed_something" if judged else "_write_changed_nothing"))
            for c in t["check_wrote"]:
                run.count(f"{which}_check_mode_itself_wrote_{kind_of(c, case)}")
            if t["created_empty"]:
                run.count(which + "_empty_files_created", len(t["created_empty"]))
                run.note(f"case {i} ({state}/{cfg}): `veryl {which}` created empty file(s) {t['created_empty'][:3]}")
            for c in unjudged:
                k = kind_of(c, case)
                run.count(f"{which}_unjudged_change_{k}")
                if passed and not judged:
                    run.count(f"{which}_check_passed_but_{k}_rewritten")
            if passed == (not judged):
                continue
            verdict = "passes-but-write-changes-files" if passed else "fails-but-write-changes-nothing"
            scen = state + (":" + cfg if which == "build" else "")
            stdp = os.path.join(case["root"], case.get("out_dir") or "", "dependencies", "std") + os.sep
            if which == "build" and passed and judged and all(c.startswith(stdp) for c in judged):
                scen = "only-std-outputs-which-check-mode-skips"
            what = (f"`veryl {which} --check` exit {t['check_code']} but `veryl {which}` on the identical state "
                    f"{'rewrote ' + str(judged[:4]) if judged else 'changed no judged file'}; state: {state}/{case['fstate']}, "
                    f"config {cfg}, prepared by {res['did']}")
            if not passed:
                what += " | check said: " + " ".join(t["check_err"].split())[-300:]
            run.violation(f"{which}-check:{verdict}:{scen}", what,
                          {"case": case, "did": res["did"], "twin": t,
                           "how": "write case.tree, apply `did`, copy the tree twice (cp -a), run the check-mode "
                                  "command in one copy and the write-mode command in the other (same path!)"})
        if both:
            run.nontrivial(L.sha(json.dumps([case["bstate"], case["fstate"], o, case["tree"]], sort_keys=True).encode()))
        run.sample({"build_state": case["bstate"], "fmt_state": case["fstate"], "config": cfg, "prepared_by": res["did"],
                    "fmt": {k: res["fmt"][k] for k in ("check_code", "write_code", "changed")},
                    "build": {k: res["build"][k] for k in ("check_code", "write_code", "changed")}}, cap=8)

    L.run_cases(n, L.jobs(args), work, handle)
    if args.replay:
        run.finish([])
    run.finish([("states_prepared", 10), ("fmt_pairs_compared", 10), ("build_pairs_compared", 10),
                ("fmt_check_passed", 4), ("fmt_check_failed", 4), ("build_check_passed", 4), ("build_check_failed", 4),
                ("build_states", 4), ("fmt_states", 2), ("out_dir_states", 2)])

if __name__ == "__main__":
    main()
