"""DepUniverse helper shared by C31 (resolution) and C30 (shared dependency checkout).

Builds *local* git repositories (git CLI, offline) that look like published Veryl projects:
every release is one commit (Veryl.toml with that version + its own [dependencies] + sources),
followed by a "publish" commit that appends the release to Veryl.pub -- exactly what
`veryl publish` with `publish_commit = true` produces (crates/metadata/src/metadata.rs
`Metadata::publish`, pubfile.rs).

Safety: every git call is `git -C <repo>` with GIT_CEILING_DIRECTORIES set to the universe
root and global/system config disabled, so git can never discover or touch /verif/.git.
"""
import os
import subprocess


def git_env(ceiling):
    env = {k: v for k, v in os.environ.items() if not k.startswith("GIT_")}
    env.update({
        "GIT_CEILING_DIRECTORIES": ceiling,
        "GIT_CONFIG_NOSYSTEM": "1",
        "GIT_CONFIG_GLOBAL": "/dev/null",
        "GIT_AUTHOR_NAME": "verif", "GIT_AUTHOR_EMAIL": "verif@example.invalid",
        "GIT_COMMITTER_NAME": "verif", "GIT_COMMITTER_EMAIL": "verif@example.invalid",
        # fixed dates: revisions are a pure function of content + history
        "GIT_AUTHOR_DATE": "2024-01-01T00:00:00Z", "GIT_COMMITTER_DATE": "2024-01-01T00:00:00Z",
        "HOME": ceiling,
    })
    return env


class GitError(Exception):
    pass


def git(repo, ceiling, *args):
    assert os.path.isdir(repo) and os.path.abspath(repo).startswith(os.path.abspath(ceiling) + os.sep)
    try:
        p = subprocess.run(["git", "-C", repo] + list(args), env=git_env(ceiling), stdout=subprocess.PIPE,
                           stderr=subprocess.PIPE, timeout=600)
    except subprocess.TimeoutExpired:
        raise GitError(f"git {' '.join(args)} in {repo}: timed out")
    if p.returncode != 0:
        raise GitError(f"git {' '.join(args)} in {repo}: {p.stderr.decode('utf-8', 'replace')[:400]}")
    return p.stdout.decode().strip()


def dep_toml(key, d):
    """d: {'git': url} or {'path': p}, optional 'version', 'project', 'properties'."""
    parts = []
    if "git" in d:
        parts.append(f'git = "{d["git"]}"')
    if "path" in d:
        parts.append(f'path = "{d["path"]}"')
    if d.get("project"):
        parts.append(f'project = "{d["project"]}"')
    if d.get("version") is not None:
        parts.append(f'version = "{d["version"]}"')
    if d.get("properties"):
        inner = ", ".join(f"{k} = {str(v).lower() if isinstance(v, bool) else v}" for k, v in sorted(d["properties"].items()))
        parts.append("properties = {" + inner + "}")
    return f"{key} = {{{', '.join(parts)}}}"


def project_toml(name, version, deps, properties=None, exclude_std=True, extra_build=""):
    """deps: list of (key, dict) -- order is the order written to the file."""
    s = f'[project]\nname = "{name}"\nversion = "{version}"\n\n'
    if properties:
        s += "[properties]\n"
        for k, v in sorted(properties.items()):
            s += f"{k} = {str(v).lower() if isinstance(v, bool) else v}\n"
        s += "\n"
    s += '[build]\nsources = ["src"]\ntarget = {type = "directory", path = "target"}\n'
    if exclude_std:
        s += "exclude_std = true\n"
    s += extra_build
    s += "\n[publish]\nbump_commit = true\npublish_commit = true\n"
    if deps:
        s += "\n[dependencies]\n"
        for key, d in deps:
            s += dep_toml(key, d) + "\n"
    return s


GITIGNORE = ".build/\nVeryl.lock\ndependencies/\ntarget/\n*.f\n"


class Repo:
    """One local git repository holding one Veryl project (optionally in a sub directory)."""

    def __init__(self, universe_root, dirname, project, subdir=""):
        self.root = universe_root
        self.dir = os.path.join(universe_root, dirname)
        self.project = project
        self.subdir = subdir
        self.releases = []          # [(version, revision)] in publish order
        self.url = "file://" + self.dir
        os.makedirs(os.path.join(self.dir, subdir, "src"), exist_ok=True)
        git(self.dir, self.root, "init", "-q", "-b", "main")
        with open(os.path.join(self.dir, ".gitignore"), "w") as f:
            f.write(GITIGNORE)

    def prj_dir(self):
        return os.path.join(self.dir, self.subdir)

    def write(self, rel, text):
        p = os.path.join(self.prj_dir(), rel)
        os.makedirs(os.path.dirname(p), exist_ok=True)
        with open(p, "w") as f:
            f.write(text)

    def commit(self, msg):
        git(self.dir, self.root, "add", "-A")
        git(self.dir, self.root, "commit", "-q", "--allow-empty", "-m", msg)
        return git(self.dir, self.root, "rev-parse", "HEAD")

    def release(self, version, deps, sources, properties=None, exclude_std=True):
        """Commit the release content, then publish it (append to Veryl.pub, commit). Returns revision."""
        self.write("Veryl.toml", project_toml(self.project, version, deps, properties, exclude_std))
        for rel, text in sources.items():
            self.write(rel, text)
        rev = self.commit(f"release {version}")
        self.releases.append((version, rev))
        self.write_pub()
        self.commit(f"publish {version}")
        return rev

    def write_pub(self):
        s = "# This file is automatically @generated by Veryl.\n# It is not intended for manual editing.\n"
        for v, r in self.releases:
            s += f'[[releases]]\nversion = "{v}"\nrevision = "{r}"\n\n'
        self.write("Veryl.pub", s)
