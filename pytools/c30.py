#!/usr/bin/env python3
"""C30 -- Concurrent veryl processes never corrupt each other.

Every process of a schedule runs under strace (per-process log); `strace_check.py` merges the
timelines and judges them offline (R1 partial file read, R2 partial population of a user-cache
unit, LS blocking flock).  Outcome oracle: every finished build's outputs equal a clean solo
build's outputs, no process fails or panics, the language server answers and publishes the
diagnostics of a solo session.

Scenarios
  a  two `veryl build` of one project (cold / warm .build cache, cold / warm user cache)
  b  a `veryl build` alongside a `veryl-ls` session (initialize, initialized, didOpen, background
     analysis) on the same project
  c  builds of two different projects sharing one *cold* XDG_CACHE_HOME (standard-library
     expansion; optionally a shared local git dependency: resolve/ + dependencies/ checkouts)
Interleavings are steered by strace fault injection (`inject=<syscall>:delay_enter=<usec>`) on
one side and by launching the second process when the first one's log shows a trigger event
(e.g. the mkdir of std/<hash>: the existence-check -> lock -> write window of veryl_std::expand).
"""
import concurrent.futures
import hashlib
import json
import os
import re
import shutil
import signal
import subprocess
import sys
import threading
import time
import traceback
import uuid

sys.path.insert(0, os.path.dirname(os.path.abspath(__file__)))
from vcommon import Args, Run, Rng, VERYL, VERYL_LS, cli_env, panicked  # noqa: E402
import strace_check as sc  # noqa: E402
from vdeps import Repo, project_toml, GitError  # noqa: E402

PROP = "C30"
STRACE = shutil.which("strace") or "strace"

# ------------------------------------------------------------------------------------------
# projects
# ------------------------------------------------------------------------------------------

NEWFILE = ("src/newmod.veryl", "module NewMod (\n    i_a: input  logic<3>,\n    o_b: output logic<3>,\n) {\n    assign o_b = i_a + 1;\n}\n")


def project_files(name, variant, dep_url=None, incremental=True, newfile=False):
    """A small multi-file project that uses the standard library (so a broken std shows)."""
    w = 4 + 2 * variant
    files = {}
    deps = []
    if dep_url:
        deps.append(("shdep", {"git": dep_url, "version": "0.1.0"}))
    extra = "incremental = true\n" if incremental else ""
    toml = project_toml(name, "0.1.0", deps, exclude_std=False, extra_build=extra)
    files["Veryl.toml"] = toml
    files["src/pkg.veryl"] = f"package Pkg{variant} {{\n    const W: u32 = {w};\n}}\n"
    files["src/reg.veryl"] = f"""module Reg{variant} (
    i_clk: input  clock,
    i_rst: input  reset,
    i_d  : input  logic<Pkg{variant}::W>,
    o_q  : output logic<Pkg{variant}::W>,
) {{
    always_ff {{
        if_reset {{
            o_q = 0;
        }} else {{
            o_q = i_d;
        }}
    }}
}}
"""
    dep_inst = "    inst ud: shdep::ShDep;\n" if dep_url else ""
    files["src/top.veryl"] = f"""module Top{variant} (
    i_clk: input  clock,
    i_rst: input  reset,
    i_d  : input  logic<Pkg{variant}::W>,
    o_q  : output logic<Pkg{variant}::W>,
) {{
    var g: logic<Pkg{variant}::W>;
    inst ug: $std::gray_encoder #( WIDTH: Pkg{variant}::W ) ( i_bin: i_d, o_gray: g );
    inst ur: Reg{variant} ( i_clk, i_rst, i_d: g, o_q );
{dep_inst}}}
"""
    if newfile:
        files[NEWFILE[0]] = NEWFILE[1]
    for k in range(variant):
        files[f"src/extra{k}.veryl"] = f"module Extra{variant}_{k} (\n    i_a: input  logic<{k + 2}>,\n    o_b: output logic<{k + 2}>,\n) {{\n    assign o_b = ~i_a;\n}}\n"
    return files


def write_project(root, files):
    for rel, text in files.items():
        p = os.path.join(root, rel)
        os.makedirs(os.path.dirname(p), exist_ok=True)
        with open(p, "w") as f:
            f.write(text)


def wipe_outputs(root, keep_build=False):
    for d in ("dependencies", "target") + (() if keep_build else (".build",)):
        shutil.rmtree(os.path.join(root, d), ignore_errors=True)
    for f in os.listdir(root):
        if f.endswith(".f") or f == "Veryl.lock":
            os.remove(os.path.join(root, f))


def outputs_digest(root, case_root):
    """{rel path: sha256} of everything a build emits; the case directory prefix is normalised away."""
    out = {}
    tok = case_root.encode()
    for dp, dn, fn in os.walk(root):
        dn[:] = sorted(d for d in dn if d not in (".build", "src", ".git"))
        for f in sorted(fn):
            p = os.path.join(dp, f)
            rel = os.path.relpath(p, root)
            if rel in ("Veryl.toml", "Veryl.lock") or f.startswith(".tmp"):
                continue
            try:
                data = open(p, "rb").read().replace(tok, b"<CASE>")
            except OSError:
                data = b"<unreadable>"
            out[rel] = hashlib.sha256(data).hexdigest()[:16] + f":{len(data)}"
    return out


# ------------------------------------------------------------------------------------------
# traced processes
# ------------------------------------------------------------------------------------------

class Traced:
    def __init__(self, name, cmd, cwd, home, log, inject=None, role="build", stdin=None, gated=False, pfilter=None):
        self.name, self.cwd, self.log, self.role = name, cwd, log, role
        argv = [STRACE, "-f", "-ttt", "-T", "-y", "-s", "64", "-e", "trace=" + sc.TRACE]
        if pfilter:
            # trace (and delay) only syscalls that touch this one path: a surgical writer window
            argv += ["-P", pfilter]
        else:
            argv += ["--seccomp-bpf"]
        if inject:
            argv += ["-e", "inject=" + inject]
        self.gate = None
        if gated:
            # strace + shell are started early and wait on a FIFO; `release()` lets the real command exec at once,
            # so the launch instant is not blurred by tracer start-up time
            self.gate = log + ".gate"
            os.mkfifo(self.gate)
            cmd = ["/bin/sh", "-c", 'read _ < "$0"; exec "$@"', self.gate] + cmd
        argv += ["-o", log] + cmd
        self.argv = argv
        self.errf = open(log + ".stderr", "wb")
        self.t_start = time.time()
        self.p = subprocess.Popen(argv, cwd=cwd, env=cli_env(home), stdin=stdin if stdin is not None else subprocess.DEVNULL,
                                  stdout=subprocess.PIPE if role == "ls" else subprocess.DEVNULL, stderr=self.errf,
                                  start_new_session=True)
        self.timed_out = False

    def release(self):
        if self.gate:
            def opener():
                try:
                    with open(self.gate, "w") as f:
                        f.write("go\n")
                except OSError:
                    pass
            th = threading.Thread(target=opener, daemon=True)
            th.start()
            th.join(20)
            self.t_release = time.time()

    def wait(self, timeout):
        try:
            self.p.wait(timeout=timeout)
        except subprocess.TimeoutExpired:
            self.timed_out = True
            self.kill()
        self.errf.close()
        return self.p.returncode

    def kill(self):
        try:
            os.killpg(self.p.pid, signal.SIGKILL)
        except (ProcessLookupError, PermissionError):
            pass
        try:
            self.p.wait(timeout=10)
        except Exception:
            pass

    def stderr(self):
        try:
            return open(self.log + ".stderr", "rb").read().decode("utf-8", "replace")
        except OSError:
            return ""


def wait_for_trigger(log, regex, timeout, proc=None):
    """Poll a growing strace log until `regex` matches a line; returns True when seen."""
    rx = re.compile(regex)
    t_end = time.time() + timeout
    pos = 0
    buf = ""
    while time.time() < t_end:
        try:
            with open(log, "r", errors="replace") as f:
                f.seek(pos)
                chunk = f.read()
                pos = f.tell()
        except FileNotFoundError:
            chunk = ""
        if chunk:
            buf = (buf + chunk)[-20000:]
            if rx.search(buf):
                return True
        if proc is not None and proc.poll() is not None:
            return False
        time.sleep(0.004)
    return False


# ------------------------------------------------------------------------------------------
# minimal LSP stdio client
# ------------------------------------------------------------------------------------------

class LspClient:
    def __init__(self, traced):
        self.t = traced
        self.p = traced.p
        self.msgs = []
        self.cv = threading.Condition()
        self.alive = True
        self.next_id = 1
        self.th = threading.Thread(target=self.reader, daemon=True)
        self.th.start()

    def send(self, obj):
        data = json.dumps(obj).encode()
        try:
            self.p.stdin.write(b"Content-Length: %d\r\n\r\n" % len(data) + data)
            self.p.stdin.flush()
            return True
        except (BrokenPipeError, OSError, ValueError):
            return False

    def request(self, method, params):
        i = self.next_id
        self.next_id += 1
        self.send({"jsonrpc": "2.0", "id": i, "method": method, "params": params})
        return i

    def notify(self, method, params):
        self.send({"jsonrpc": "2.0", "method": method, "params": params})

    def reader(self):
        f = self.p.stdout
        try:
            while True:
                n = None
                while True:
                    line = f.readline()
                    if not line:
                        raise EOFError
                    line = line.strip()
                    if not line:
                        break
                    if line.lower().startswith(b"content-length:"):
                        n = int(line.split(b":")[1])
                if n is None:
                    continue
                body = b""
                while len(body) < n:
                    c = f.read(n - len(body))
                    if not c:
                        raise EOFError
                    body += c
                msg = json.loads(body.decode("utf-8", "replace"))
                # server -> client requests must be answered (window/workDoneProgress/create, ...)
                if "id" in msg and "method" in msg:
                    self.send({"jsonrpc": "2.0", "id": msg["id"], "result": None})
                with self.cv:
                    msg["_t"] = time.time()
                    self.msgs.append(msg)
                    self.cv.notify_all()
        except Exception:
            pass
        with self.cv:
            self.alive = False
            self.cv.notify_all()

    def wait_for(self, pred, timeout):
        t_end = time.time() + timeout
        with self.cv:
            while True:
                for m in self.msgs:
                    if pred(m):
                        return m
                if not self.alive:
                    return None
                left = t_end - time.time()
                if left <= 0:
                    return None
                self.cv.wait(min(left, 0.5))

    def session(self, root, file_rel, timeout):
        """initialize -> initialized -> didOpen -> wait for background analysis end and the final diagnostics.
        Returns dict(ok, stage, diagnostics, n_publish, progress_end)."""
        uri = "file://" + os.path.join(root, file_rel)
        text = open(os.path.join(root, file_rel)).read()
        rid = self.request("initialize", {"processId": os.getpid(), "rootUri": "file://" + root,
                                          "capabilities": {"window": {"workDoneProgress": True}}})
        if not self.wait_for(lambda m: m.get("id") == rid and "method" not in m, timeout):
            return {"ok": False, "stage": "initialize"}
        self.notify("initialized", {})
        self.notify("textDocument/didOpen", {"textDocument": {"uri": uri, "languageId": "veryl", "version": 1, "text": text}})
        first = self.wait_for(lambda m: m.get("method") == "textDocument/publishDiagnostics" and m["params"]["uri"] == uri, timeout)
        if not first:
            return {"ok": False, "stage": "first publishDiagnostics"}
        end = self.wait_for(lambda m: m.get("method") == "$/progress" and m["params"]["value"].get("kind") == "end", timeout)
        if not end:
            # background analysis may legitimately not start (metadata.paths failed): report what we have
            pubs = [m for m in self.msgs if m.get("method") == "textDocument/publishDiagnostics" and m["params"]["uri"] == uri]
            return {"ok": self.alive, "stage": "background end (none seen)", "diagnostics": pubs[-1]["params"]["diagnostics"],
                    "n_publish": len(pubs), "progress_end": False}
        last = self.wait_for(lambda m: m.get("method") == "textDocument/publishDiagnostics" and m["params"]["uri"] == uri
                             and m["_t"] >= end["_t"], min(timeout, 20))
        pubs = [m for m in self.msgs if m.get("method") == "textDocument/publishDiagnostics" and m["params"]["uri"] == uri]
        return {"ok": True, "stage": "done", "diagnostics": (last or pubs[-1])["params"]["diagnostics"], "n_publish": len(pubs),
                "progress_end": True, "final_after_background": last is not None}

    def shutdown(self):
        rid = self.request("shutdown", None)
        self.wait_for(lambda m: m.get("id") == rid and "method" not in m, 5)
        self.notify("exit", None)
        try:
            self.p.stdin.close()
        except Exception:
            pass


def diag_key(diags):
    return sorted((d.get("code") if not isinstance(d.get("code"), dict) else json.dumps(d.get("code")), d.get("message", "")[:80])
                  for d in (diags or []))


# ------------------------------------------------------------------------------------------
# schedules
# ------------------------------------------------------------------------------------------

INJECT_MENU = [
    # (syscall, min usec, max usec) -- sized so that a cold build is stretched by ~1-4 s
    ("write", 15_000, 70_000),
    ("openat", 2_000, 9_000),
    ("mkdir", 15_000, 80_000),
    ("flock", 100_000, 700_000),
    ("statx", 2_000, 9_000),
    ("renameat", 50_000, 300_000),
    ("close", 2_000, 8_000),
    ("readlink", 10_000, 60_000),     # canonicalize(): stretches "decided -> opened" windows
    ("read", 3_000, 12_000),
]

# std/<hash> (populated in place) or std/.<hash>.partial (populated privately, then renamed): both layouts match
STD_MKDIR = r'mkdir\("[^"]*/veryl/std/\.?[0-9a-f]{16,}(\.partial)?", [0-7]+\)\s+= 0'
BUILD_LOCKED = r'flock\(\d+<[^>]*/\.build/lock>, LOCK_EX\)\s+= 0'
STD_FIRST_FILE = r'openat\([^)]*/veryl/std/\.?[0-9a-f]{16,}(\.partial)?/[a-z_]+/[a-z_0-9]+\.veryl", O_WRONLY'
CACHE_STORE = r'/\.build/cache(-ls)?/lock>, LOCK_EX'
RESOLVE_LOCKED = r'flock\(\d+<[^>]*/veryl/resolve/lock>, LOCK_EX\)\s+= 0'
RESOLVE_UNLOCKED = r'(flock\(\d+<[^>]*/veryl/resolve/lock>, LOCK_UN\)|close\(\d+<[^>]*/veryl/resolve/lock>\))'
# info.toml rewritten in place, or its temp file (directly below .build) created for an atomic replace
INFO_WRITE = r'openat\([^)]*/\.build/(info\.toml|\.tmp[A-Za-z0-9]+)", O_(WRONLY|RDWR)'


def gen_schedule(rng, scenario, index):
    s = {"scenario": scenario, "index": index, "quiet": rng.chance(1, 2)}
    s["variantA"] = rng.below(3)
    s["variantB"] = (s["variantA"] + 1 + rng.below(2)) % 3
    s["incremental"] = rng.chance(3, 4)
    if rng.chance(4, 5):
        sysc, lo, hi = rng.pick(INJECT_MENU)
        s["inject"] = {"side": rng.pick(["first", "first", "first", "second"]), "spec": f"{sysc}:delay_enter={rng.range(lo, hi)}"}
    else:
        s["inject"] = None
    s["aim"] = None
    write_inj = lambda lo, hi: {"side": "first", "spec": f"write:delay_enter={rng.range(lo, hi)}"}  # noqa: E731
    if scenario == "a":
        s["build_cache"] = rng.pick(["warm", "warm_edited"])
        s["user_cache"] = rng.pick(["cold", "warm"])
        s["launch"] = rng.pick([{"kind": "offset", "ms": rng.pick([0, 0, 5, 20, 60, 150, 400])},
                                {"kind": "trigger", "what": "build_locked", "ms": rng.pick([0, 1, 10, 50])}])
        # a guaranteed share of FIRST-WRITE schedules: files that do not exist yet are created by the racing builds
        slot = index % 5
        if slot == 0:
            s["build_cache"] = "cold"                       # fresh project: everything is a first write
        elif slot == 1:
            # aimed: .build is gone, so info.toml is created; the second process loads it before taking .build/lock
            s.update({"aim": "info_first_write", "quiet": True, "build_cache": "build_dir_removed", "user_cache": "warm",
                      "incremental": False, "inject": write_inj(500_000, 900_000),
                      "launch": {"kind": "trigger", "what": "info_write", "ms": rng.pick([0, 0, 20, 100])}})
        elif slot == 2:
            # after `veryl clean`: all outputs are created again; stretch the create..write windows of the first builder
            s.update({"build_cache": "cleaned", "user_cache": "warm", "inject": write_inj(10_000, 40_000),
                      "launch": {"kind": "trigger", "what": "build_locked", "ms": rng.pick([0, 10, 50])}})
        elif slot == 3:
            s.update({"build_cache": "new_file", "user_cache": "warm", "inject": rng.pick([write_inj(15_000, 70_000), s["inject"]])})
        elif rng.chance(1, 2):
            # aimed: the second process loads .build/info.toml (before it takes .build/lock) while the first rewrites it
            s.update({"aim": "info_write", "quiet": True, "build_cache": "warm_edited", "user_cache": "warm",
                      "inject": write_inj(500_000, 900_000),
                      "launch": {"kind": "trigger", "what": "info_write", "ms": rng.pick([0, 0, 20, 100])}})
    elif scenario == "b":
        s["build_cache"] = rng.pick(["cold", "warm"])
        s["user_cache"] = rng.pick(["cold", "cold", "warm"])
        s["first"] = rng.pick(["ls", "build"])
        trig = ["std_mkdir", "std_first_file"] if s["user_cache"] == "cold" else ["cache_store", "build_locked"]
        s["launch"] = rng.pick([{"kind": "offset", "ms": rng.pick([0, 10, 50, 150, 400, 800])},
                                {"kind": "trigger", "what": rng.pick(trig), "ms": rng.pick([0, 2, 20, 100, 300])}])
        slot = index % 4
        if slot == 0:
            s["build_cache"] = "cold"
        elif slot == 1:
            # aimed: veryl-ls (lock-free reader) loads info.toml / Veryl.lock while the build creates them
            s.update({"aim": "info_first_write", "quiet": True, "build_cache": "build_dir_removed", "user_cache": "warm",
                      "first": "build", "incremental": False, "inject": write_inj(700_000, 1_200_000),
                      "launch": {"kind": "trigger", "what": "info_write", "ms": 0}})
        elif slot == 2:
            s.update({"build_cache": rng.pick(["cleaned", "new_file"]), "user_cache": "warm", "first": "build",
                      "inject": write_inj(10_000, 40_000),
                      "launch": {"kind": "trigger", "what": "build_locked", "ms": rng.pick([0, 20, 100])}})
        elif rng.chance(1, 3):
            s.update({"aim": "info_write", "quiet": True, "build_cache": "warm", "user_cache": "warm", "first": "build",
                      "inject": write_inj(700_000, 1_200_000),
                      "launch": {"kind": "trigger", "what": "info_write", "ms": 0}})
    else:
        s["user_cache"] = "cold"
        s["git_dep"] = rng.chance(1, 3)
        if rng.chance(1, 2) and (s["inject"] is None or s["inject"]["side"] != "first"):
            # the aimed schedule of DESIGN section 8: stretch the first builder's writes, start the second inside
            s["inject"] = {"side": "first", "spec": f"write:delay_enter={rng.range(20_000, 80_000)}"}
        s["launch"] = rng.pick([{"kind": "offset", "ms": rng.pick([0, 0, 10, 100, 300, 800])},
                                {"kind": "trigger", "what": rng.pick(["std_mkdir", "std_mkdir", "std_first_file"]),
                                 "ms": rng.pick([0, 1, 5, 30, 100, 300, 700])}])
        if rng.chance(1, 5):
            # aimed: the first process reads resolve/<id>/Veryl.pub after it released the "resolve" lock while the
            # second (holding that lock) re-checks-out the same files; the second's write to Veryl.pub is stretched
            s.update({"aim": "resolve_rewrite", "git_dep": True, "second_path_filter": "resolve_pub",
                      "inject": {"side": "first", "spec": f"readlink:delay_enter={rng.range(120_000, 250_000)}"},
                      "inject2": {"side": "second", "spec": f"write:delay_enter={rng.range(4_000_000, 7_000_000)}"},
                      "launch": {"kind": "trigger", "what": "resolve_unlocked", "ms": 0}})
    return s


TRIGGERS = {"std_mkdir": STD_MKDIR, "build_locked": BUILD_LOCKED, "std_first_file": STD_FIRST_FILE, "cache_store": CACHE_STORE,
            "resolve_locked": RESOLVE_LOCKED, "resolve_unlocked": RESOLVE_UNLOCKED, "info_write": INFO_WRITE}


class CaseResult:
    def __init__(self):
        self.violations, self.stats, self.sets, self.inconclusive = [], {}, {}, []
        self.sample = None
        self.nontrivial = None

    def count(self, k, n=1):
        self.stats[k] = self.stats.get(k, 0) + n

    def seen(self, s, m):
        self.sets.setdefault(s, set()).add(m)


def failure_class(stderr):
    """Coarse, order-independent class of a failed process (never the first message: their order varies)."""
    if "panicked at" in stderr:
        return "panic"
    if "semantic_error.html" in stderr or "veryl_analyzer" in stderr:
        return "analyzer_error"
    if "parser_error.html" in stderr or "ParserError" in stderr:
        return "parser_error"
    if "MetadataError" in stderr:
        return "metadata_error"
    if "os error" in stderr:
        return "io_error"
    return "other"


class Baselines:
    """Clean solo builds (and solo LS sessions), computed once per project shape in a directory
    with the same layout as a case directory."""

    def __init__(self, base):
        self.base = base
        self.cache = {}
        self.locks = {}
        self.lock = threading.Lock()

    def get(self, key, make):
        with self.lock:
            kl = self.locks.setdefault(key, threading.Lock())
        with kl:                      # one computation per key, other keys proceed in parallel
            if key not in self.cache:
                self.cache[key] = make()
            return self.cache[key]


def make_shdep(case):
    repo = Repo(os.path.join(case, "repos"), "shdep", "shdep")
    repo.release("0.1.0", [], {"src/m.veryl": "pub module ShDep {\n}\n"})
    return repo.url


def setup_case(case, names_variants, git_dep, incremental, newfile=False):
    """Create <case>/{home,<name>...}; returns (home, {name: root})."""
    shutil.rmtree(case, ignore_errors=True)
    os.makedirs(os.path.join(case, "home"))
    dep_url = None
    if git_dep:
        os.makedirs(os.path.join(case, "repos"))
        dep_url = make_shdep(case)
    roots = {}
    for name, variant in names_variants:
        root = os.path.join(case, name)
        write_project(root, project_files(name, variant, dep_url, incremental, newfile))
        roots[name] = root
    return os.path.join(case, "home"), roots


def solo_build(root, home, quiet=True):
    cmd = [VERYL] + (["--quiet"] if quiet else []) + ["build"]
    p = subprocess.run(cmd, cwd=root, env=cli_env(home), stdout=subprocess.PIPE, stderr=subprocess.PIPE, timeout=300)
    return p.returncode, p.stderr.decode("utf-8", "replace")


def run_schedule(s, case, baselines, timeout, sabotage=None):
    res = CaseResult()
    scen = s["scenario"]
    try:
        return _run_schedule(s, case, baselines, timeout, res, sabotage)
    except GitError as e:
        res.inconclusive.append(f"git failed: {e}")
        return res
    finally:
        for p in getattr(res, "_procs", []):
            p.kill()


def _run_schedule(s, case, baselines, timeout, res, sabotage):
    scen = s["scenario"]
    res._procs = []
    git_dep = bool(s.get("git_dep"))
    inc = s["incremental"]
    if scen == "c":
        layout = [("prja", s["variantA"]), ("prjb", s["variantB"])]
    else:
        layout = [("prja", s["variantA"])]

    # ---- clean solo baselines (same layout, own directory) -----------------------------------
    newfile = s.get("build_cache") == "new_file"

    def base_for(name, variant):
        key = (name, variant, git_dep, inc, newfile)

        def make():
            bdir = os.path.join(baselines.base, f"base-{name}-{variant}-{int(git_dep)}-{int(inc)}-{int(newfile)}")
            home, roots = setup_case(bdir, [(name, variant)], git_dep, inc, newfile)
            code, err = solo_build(roots[name], home)
            dig = outputs_digest(roots[name], bdir) if code == 0 else None
            return {"code": code, "digest": dig, "err": err[-600:]}
        return baselines.get(key, make)

    base = {name: base_for(name, v) for name, v in layout}
    for name, b in base.items():
        if b["code"] != 0 or not b["digest"]:
            res.inconclusive.append(f"solo baseline build of {name} failed (exit {b['code']}): {b['err'][-300:]}")
            return res

    # ---- case directory --------------------------------------------------------------------
    home, roots = setup_case(case, layout, git_dep, inc)
    cache_root = os.path.join(home, ".cache")
    prja = roots["prja"]
    bc = s.get("build_cache")
    if s.get("user_cache") == "warm" or bc in ("warm", "warm_edited", "cleaned", "build_dir_removed", "new_file"):
        code, err = solo_build(prja, home)
        if code != 0:
            res.inconclusive.append(f"warm-up build failed: {err[-300:]}")
            return res
        if bc == "cold":
            wipe_outputs(prja)
        elif bc == "warm_edited":
            # newer mtime than the recorded generation time: the outputs count as stale and are re-emitted
            now = time.time() + 2
            for f in ("reg.veryl", "top.veryl"):
                os.utime(os.path.join(prja, "src", f), (now, now))
        elif bc == "cleaned":
            # `veryl clean` removes every generated file: the racing builds write all outputs for the first time
            p = subprocess.run([VERYL, "--quiet", "clean"], cwd=prja, env=cli_env(home), stdout=subprocess.PIPE, stderr=subprocess.PIPE, timeout=300)
            if p.returncode != 0:
                res.inconclusive.append(f"veryl clean failed: {p.stderr.decode('utf-8', 'replace')[-300:]}")
                return res
            res.count("prepared_with_veryl_clean")
        elif bc == "build_dir_removed":
            # outputs and Veryl.lock stay, .build goes: info.toml / cache manifest / blobs are first-time writes
            shutil.rmtree(os.path.join(prja, ".build"), ignore_errors=True)
        elif bc == "new_file":
            with open(os.path.join(prja, NEWFILE[0]), "w") as f:
                f.write(NEWFILE[1])
        if s.get("user_cache") == "cold":
            shutil.rmtree(cache_root, ignore_errors=True)
    res.seen("build_cache_variants", f"{scen}:{bc or 'cold'}")
    logs = os.path.join(case, "logs")
    os.makedirs(logs)

    def build_cmd():
        return [VERYL] + (["--quiet"] if s["quiet"] else []) + ["build"]

    inj = s.get("inject")
    inj_first = inj["spec"] if inj and inj["side"] == "first" else None
    inj_second = inj["spec"] if inj and inj["side"] == "second" else None
    inj2 = s.get("inject2")              # optional delay on the other side as well
    if inj2:
        if inj2["side"] == "first":
            inj_first = inj2["spec"]
        else:
            inj_second = inj2["spec"]

    actors = []          # (name, Traced)
    ls_info = None
    ls_client = None

    def start(name, kind, root, inject, gated=False, pfilter=None):
        if kind == "ls":
            t = Traced(name, [VERYL_LS], root, home, os.path.join(logs, name + ".strace"), inject, role="ls", stdin=subprocess.PIPE,
                       gated=gated, pfilter=pfilter)
        else:
            t = Traced(name, build_cmd(), root, home, os.path.join(logs, name + ".strace"), inject, gated=gated, pfilter=pfilter)
        res._procs.append(t)
        actors.append((name, t))
        return t

    if scen == "a":
        plan = [("build1", "build", prja), ("build2", "build", prja)]
    elif scen == "b":
        plan = [("ls", "ls", prja), ("build", "build", prja)] if s["first"] == "ls" else [("build", "build", prja), ("ls", "ls", prja)]
    else:
        plan = [("builda", "build", roots["prja"]), ("buildb", "build", roots["prjb"])]

    ls_result = {}

    def ls_thread(t, root):
        nonlocal ls_client
        ls_client = LspClient(t)
        ls_result.update(ls_client.session(root, "src/top.veryl", timeout))
        ls_result["alive_at_end"] = t.p.poll() is None
        ls_client.shutdown()

    threads = []
    pfilter = None
    if s.get("second_path_filter") == "resolve_pub" and git_dep:
        url = "file://" + os.path.join(case, "repos", "shdep")
        rid = uuid.uuid5(uuid.NAMESPACE_URL, url).hex      # Lockfile::resolve_path: uuid v5 of the url
        pfilter = os.path.join(cache_root, "veryl", "resolve", rid, "Veryl.pub")
    second = start(plan[1][0], plan[1][1], plan[1][2], inj_second, gated=True, pfilter=pfilter)
    time.sleep(0.05)
    first = start(plan[0][0], plan[0][1], plan[0][2], inj_first)
    actors.reverse()
    if plan[0][1] == "ls":
        th = threading.Thread(target=ls_thread, args=(first, plan[0][2]), daemon=True)
        th.start(); threads.append(th)
    launch = s["launch"]
    trig_seen = None
    if launch["kind"] == "trigger":
        trig_seen = wait_for_trigger(first.log, TRIGGERS[launch["what"]], 60, first.p)
        res.count("triggers_armed")
        if trig_seen:
            res.count("triggers_fired")
    time.sleep(launch["ms"] / 1000.0)
    second.release()
    if plan[1][1] == "ls":
        th = threading.Thread(target=ls_thread, args=(second, plan[1][2]), daemon=True)
        th.start(); threads.append(th)

    # ---- wait ----------------------------------------------------------------------------------
    for th in threads:
        th.join(timeout + 30)
    codes = {}
    for name, t in actors:
        codes[name] = t.wait(timeout if t.role != "ls" else 15)
        if t.timed_out and t.role != "ls":
            res.inconclusive.append(f"{name} did not finish within {timeout}s (watchdog)")
    if res.inconclusive:
        return res

    # ---- log oracle ------------------------------------------------------------------------------
    parsed = []
    for name, t in actors:
        a = sc.Actor(name, t.log, t.cwd, t.role)
        a.parse()
        parsed.append(a)
        res.count("strace_lines", a.lines)
    cfg = {"cache_root": os.path.join(cache_root), "projects": list(roots.values()),
           "build_dirs": [os.path.join(r, ".build") for r in roots.values()]}
    if sabotage == "synthetic_read":
        inject_synthetic_read(parsed, cfg)
    chk = sc.check(parsed, cfg)
    st = chk["stats"]
    for k in ("flock_calls", "flock_waited", "flock_wouldblock", "ls_flock_under_build", "ls_flock_nonblocking", "writer_sessions",
              "reads_inside_writer_interval", "reads_ordered_by_lock", "reader_writer_pairs_on_plainly_written_files",
              "reads_of_rename_published_files", "reads_below_rename_published_dirs", "population_bursts", "population_bursts_observed_by_other",
              "listings_inside_population", "listings_ordered_by_lock", "enoent_inside_population", "enoent_ordered_by_lock",
              "events", "parse_errors", "shared_written_paths"):
        if st.get(k):
            res.count(k, st[k])
    for k, v in st.items():
        if k.startswith("final_name_writes:") or k.startswith("atomic_publishes"):
            res.count(k, v)
    if st.get("lifetimes_overlap"):
        res.count("schedules_lifetimes_overlapped")
        res.count(f"schedules_lifetimes_overlapped_{scen}")
    if st.get("critical_sections_interleaved"):
        res.count("schedules_critical_sections_interleaved")
        res.count(f"schedules_critical_sections_interleaved_{scen}")
        for c in st["interleaved_classes"]:
            res.seen("interleaved_path_classes", f"{scen}:{c}")
    replay = {"schedule": s}
    seen_sigs = set()
    for f in chk["findings"]:
        sig = sc.signature(f, "scenario_" + scen)
        if sig in seen_sigs:
            res.count("findings_same_signature_same_schedule")
            continue
        seen_sigs.add(sig)
        res.violations.append((sig, f"[{f['rule']}] {f['what']}", {**replay, "finding": f}))

    # ---- outcome oracle -----------------------------------------------------------------------------
    for name, t in actors:
        err = t.stderr()
        if t.role == "ls":
            continue
        code = codes[name]
        if code != 0 or panicked(err, code):
            kind = "process_panicked" if panicked(err, code) else "process_failed"
            res.violations.append((f"{kind}:scenario_{scen}:{failure_class(err)}",
                                   f"{name} (`veryl build`) exited {code} in a concurrent schedule although the clean solo build succeeds: "
                                   f"{err.strip()[-500:]}", {**replay, "stderr": err[-3000:]}))
            res.count("builds_failed")
        else:
            res.count("builds_finished")
    for name, root in roots.items():
        owners = [n for n, t in actors if t.cwd == root and t.role != "ls"]
        if not owners or any(codes[n] != 0 for n in owners):
            continue
        dig = outputs_digest(root, case)
        want = base[name]["digest"]
        if dig != want:
            missing = sorted(set(want) - set(dig))
            extra = sorted(set(dig) - set(want))
            diff = sorted(k for k in set(want) & set(dig) if want[k] != dig[k])
            cls = "missing_outputs" if missing else ("different_content" if diff else "extra_outputs")
            pc = sorted({(sc.path_class(os.path.join(root, k), cfg) or "?") for k in (missing + diff + extra)})
            res.violations.append((f"outputs_differ:scenario_{scen}:{cls}:{'+'.join(pc)[:60]}",
                                   f"{name}: all builds finished with exit 0 but the outputs differ from the clean solo build: "
                                   f"{len(missing)} missing (e.g. {missing[:3]}), {len(diff)} different (e.g. {diff[:3]}), {len(extra)} extra "
                                   f"(e.g. {extra[:3]})", {**replay, "missing": missing[:50], "different": diff[:50], "extra": extra[:50]}))
        else:
            res.count("output_trees_equal_to_solo")
    if scen == "b":
        t = [t for n, t in actors if t.role == "ls"][0]
        if not ls_result.get("ok"):
            if ls_result.get("alive_at_end") is False or t.p.returncode not in (0, None):
                res.violations.append((f"ls_died:scenario_b:{ls_result.get('stage', '?')}",
                                       f"veryl-ls stopped answering at stage `{ls_result.get('stage')}` (exit {t.p.returncode}): {t.stderr()[-400:]}",
                                       {**replay, "stderr": t.stderr()[-3000:]}))
            else:
                res.inconclusive.append(f"veryl-ls session incomplete at stage {ls_result.get('stage')}")
        else:
            res.count("ls_sessions_completed")
            if ls_result.get("progress_end"):
                res.count("ls_background_analysis_completed")
            base_ls = baselines.get(("ls", s["variantA"], inc), lambda: solo_ls(baselines.base, s["variantA"], inc, timeout))
            if base_ls is not None and ls_result.get("progress_end") and ls_result.get("final_after_background"):
                if diag_key(ls_result.get("diagnostics")) != base_ls:
                    res.violations.append((f"ls_diagnostics_differ:scenario_b:{s['user_cache']}_user_cache",
                                           f"veryl-ls final diagnostics next to a build differ from a solo session: "
                                           f"{diag_key(ls_result.get('diagnostics'))[:4]} vs {base_ls[:4]}", replay))
                else:
                    res.count("ls_diagnostics_equal_to_solo")
        if panicked(t.stderr(), None):
            res.violations.append(("ls_panicked:scenario_b", f"veryl-ls panicked: {t.stderr()[-500:]}", replay))

    res.nontrivial = json.dumps(s, sort_keys=True) if st.get("lifetimes_overlap") else None
    res.sample = {"schedule": s, "exit_codes": codes, "lifetimes_overlap": bool(st.get("lifetimes_overlap")),
                  "interleaved_classes": st.get("interleaved_classes"), "flock_waited": st.get("flock_waited", 0),
                  "findings": [f["kind"] + ":" + str(f["class"]) for f in chk["findings"]][:5]}
    return res


def solo_ls(base, variant, inc, timeout):
    bdir = os.path.join(base, f"base-ls-{variant}-{int(inc)}")
    home, roots = setup_case(bdir, [("prja", variant)], False, inc)
    code, err = solo_build(roots["prja"], home)          # warm user cache; LS alone afterwards
    t = Traced("ls", [VERYL_LS], roots["prja"], home, os.path.join(bdir, "ls.strace"), None, role="ls", stdin=subprocess.PIPE)
    try:
        c = LspClient(t)
        r = c.session(roots["prja"], "src/top.veryl", timeout)
        c.shutdown()
        t.wait(10)
    finally:
        t.kill()
    if not r.get("ok") or not r.get("progress_end"):
        return None
    return diag_key(r.get("diagnostics"))


def inject_synthetic_read(parsed, cfg):
    """Sensitivity self-test of the checker input: add one open(O_RDONLY) by the other actor in the middle of a
    writer interval (plainly written, non-lock file; emitted outputs preferred, a class without genuine findings)."""
    if len(parsed) < 2:
        return
    best = None
    for a, b in ((parsed[0], parsed[1]), (parsed[1], parsed[0])):
        for e in a.events:
            if not (e.kind == "write" and e.ok and e.path and sc.path_class(e.path, cfg)) or e.path.endswith("/lock"):
                continue
            opens = [o for o in a.events if o.kind == "openw" and o.ok and o.path == e.path and o.t1 <= e.t0 and "O_EXCL" not in o.flags
                     and ("O_TRUNC" in o.flags or "O_CREAT" in o.flags)]
            if not opens or e.t0 - opens[-1].t1 < 2e-6:
                continue
            rank = 0 if sc.path_class(e.path, cfg).startswith("output") else 1
            if best is None or rank < best[0]:
                best = (rank, b, opens[-1], e)
    if best:
        _, b, o, e = best
        mid = (o.t1 + e.t0) / 2
        b.events.append(sc.Ev(b.name, 1, mid, mid + 1e-7, "openat", "openr", e.path, True, flags="O_RDONLY|O_CLOEXEC", fd="99"))
        b.events.sort(key=lambda x: x.t0)


# ------------------------------------------------------------------------------------------

def main():
    args = Args()
    args.prop = args.prop or PROP
    run = Run(args, "exploration",
              "schedules = (scenario a/b/c, project variants, cold/warm .build and user cache, which side is delayed by strace "
              "`inject=<syscall>:delay_enter`, launch offset or log-trigger of the second process); a schedule is non-trivial when "
              "both processes' lifetimes really overlapped; distinct = distinct schedule parameters")
    run.assume("strace -ttt/-T stamps of different tracers share one clock; an access is 'inside' an interval only if its entry and "
               "exit both lie strictly inside (entry/exit of the delimiting syscalls)")
    run.assume("files published by rename() are atomic; flock() on the same lock file orders critical sections")
    run.assume("clean solo build of the same project shape in a directory of identical layout is the outcome reference")
    if not os.path.exists(VERYL) or not os.path.exists(VERYL_LS):
        run.inconclusive("veryl / veryl-ls binaries missing")
        run.finish([])
    n = args.budget("schedules", 10, 150)
    scenarios = args.extra.get("scenarios", "abc")
    jobs = int(args.extra.get("jobs", 4))
    timeout = int(args.extra.get("timeout", 180))
    sabotage = args.extra.get("sabotage")
    base = run.scratch()
    st_problems = sc.selftest(os.path.join(base, "checker-selftest"))
    if st_problems:
        run.inconclusive(f"strace_check self-test failed: {st_problems[:2]}")
        run.finish([])
    run.count("checker_selftest_cases", 6)
    baselines = Baselines(os.path.join(base, "baselines"))
    os.makedirs(baselines.base)

    cases = []
    if args.replay:
        rp = json.load(open(args.replay))
        sch = rp["case"]["schedule"]
        reps = int(args.extra.get("repeat", 5))
        for k in range(reps):
            cases.append(dict(sch, index=k))
    else:
        for scen in scenarios:
            for i in range(n):
                rng = Rng.for_case(args.seed, PROP + scen, i)
                cases.append(gen_schedule(rng, scen, i))

    if sabotage:
        # self-test runs use cold builds so that plainly written output files exist in the logs
        for s in cases:
            s.update({"build_cache": "cold", "aim": None, "inject": None, "inject2": None, "second_path_filter": None,
                      "launch": {"kind": "offset", "ms": 0}})
    for s in cases:
        if "git_dep" in args.extra and s["scenario"] == "c":
            s["git_dep"] = args.extra["git_dep"] == "1"

    def work(item):
        k, s = item
        case = os.path.join(base, f"case{k}")
        try:
            r = run_schedule(s, case, baselines, timeout, sabotage)
        except Exception:
            r = CaseResult()
            r.inconclusive.append("harness error: " + traceback.format_exc()[-900:])
        finally:
            if not os.environ.get("VERIF_KEEP_SCRATCH"):
                shutil.rmtree(case, ignore_errors=True)
        return s, r

    with concurrent.futures.ThreadPoolExecutor(max_workers=jobs) as ex:
        for s, r in ex.map(work, list(enumerate(cases))):
            run.eval()
            run.count("schedules")
            run.count("schedules_" + s["scenario"])
            for k, v in r.stats.items():
                run.count(k, v)
            for name, members in r.sets.items():
                for m in members:
                    run.seen(name, m)
            for reason in r.inconclusive:
                run.count("schedules_inconclusive")
                run.note(f"schedule {s['scenario']}{s['index']}: {reason}")
            if r.nontrivial:
                run.nontrivial(r.nontrivial)
            if r.sample:
                run.sample(r.sample, cap=9)
            for sig, what, replay in r.violations:
                run.violation(sig, what, replay)

    subprocess.run(["pkill", "-KILL", "-f", base], stdout=subprocess.DEVNULL, stderr=subprocess.DEVNULL)
    total = max(1, run.counters.get("schedules", 0))
    if run.counters.get("schedules_inconclusive", 0) * 3 > total:
        run.inconclusive(f"{run.counters.get('schedules_inconclusive')} of {total} schedules were inconclusive")
    if run.counters.get("parse_errors", 0) * 200 > max(1, run.counters.get("events", 0)):
        run.inconclusive(f"strace parser failed on {run.counters.get('parse_errors')} of {run.counters.get('events')} events")
    ns = len(scenarios)
    per = n if not args.replay else 0
    floors = [("schedules", int(0.9 * per * ns)), ("schedules_lifetimes_overlapped", int(0.3 * per * ns)),
              ("schedules_critical_sections_interleaved", int(0.2 * per * ns)), ("events", 2000 * per * ns // 3),
              ("flock_calls", 2 * per * ns), ("writer_sessions", 10 * per * ns // 3),
              # the structural rule saw real publishes of the lock-free-read classes (first writes included)
              ("atomic_publishes", 30 * per * ns // 3), ("atomic_publishes:build:info", per * ns // 3)]
    if "a" in scenarios and per:
        floors += [("flock_waited", max(1, per // 5)), ("atomic_publishes:output", per), ("atomic_publishes:project:lockfile", max(1, per // 5))]
    if "b" in scenarios and per:
        floors += [("ls_sessions_completed", per // 3), ("ls_flock_nonblocking", max(1, per // 5))]
    if "c" in scenarios and per:
        floors += [("population_bursts", per // 2)]
    run.finish(floors)


if __name__ == "__main__":
    main()
