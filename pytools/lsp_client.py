"""Minimal LSP client for driving the real `veryl-ls` over stdio (used by c07.py).

Only explicit server signals are used for synchronisation -- never a sleep:

* every didOpen/didChange is acknowledged by the `textDocument/publishDiagnostics` the server
  thread sends for that (uri, version);
* every background task the server runs is bracketed by a `window/workDoneProgress/create`
  *request* (the server thread blocks until the client answers it), a `$/progress` begin, one
  `$/progress` report per path and a `$/progress` end (server.rs `progress_start/_report/_done`);
  tasks run strictly one after another in FIFO order and get consecutive integer tokens, so
  "background complete" == `ended == expected number of tasks`.

A wait that exceeds its (generous) timeout raises LspTimeout; a server whose stdout closes raises
LspDied; a `panicked at` line on the server's stderr raises LspPanicked.  The caller decides what
those mean (timeout => inconclusive).
"""
import json
import os
import queue
import subprocess
import threading
import time
import urllib.parse

from vcommon import VERYL_LS, cli_env


class LspError(Exception):
    pass


class LspTimeout(LspError):
    pass


class LspDied(LspError):
    pass


class LspPanicked(LspError):
    pass


def path_to_uri(path):
    return "file://" + urllib.parse.quote(os.path.abspath(path))


def uri_to_path(uri):
    return urllib.parse.unquote(uri[len("file://"):]) if uri.startswith("file://") else uri


def diag_key(d):
    """The compared part of one diagnostic: (range, severity, code, message)."""
    r = d.get("range", {})
    s, e = r.get("start", {}), r.get("end", {})
    return (s.get("line"), s.get("character"), e.get("line"), e.get("character"),
            d.get("severity"), json.dumps(d.get("code"), sort_keys=True), d.get("message"))


def diag_multiset(diags):
    return sorted(diag_key(d) for d in diags)


class LspServer:
    def __init__(self, root, home, workdir, name="ls", timeout=120.0, binary=None, extra_env=None):
        self.root = root
        self.name = name
        self.timeout = timeout
        self.stderr_path = os.path.join(workdir, f"{name}.stderr")
        self._stderr_f = open(self.stderr_path, "wb")
        self.proc = subprocess.Popen([binary or VERYL_LS], cwd=root, env=cli_env(home, extra_env),
                                     stdin=subprocess.PIPE, stdout=subprocess.PIPE, stderr=self._stderr_f)
        self.q = queue.Queue()
        self.reader = threading.Thread(target=self._read_loop, daemon=True)
        self.reader.start()
        self.next_id = 1
        self.responses = {}
        self.sent = 0
        self.received = 0
        self.transcript = []            # compact log of everything sent / received (for replay files)
        # observed state
        self.publishes = []             # (seq, uri, version, [diag])
        self.creates = []               # tokens of workDoneProgress/create requests, in arrival order
        self.begun = []                 # tokens with a begin
        self.ended = []                 # tokens with an end
        self.reports = {}               # token -> [message, ...]
        self.logs = []                  # window/logMessage texts
        self.held_create = None         # (id, token) of a create request whose reply is withheld
        self.hold_next_create = False
        self.capabilities = None
        self.closed = False
        self.nudges = set()

    # -- transport ----------------------------------------------------------------------
    def _read_loop(self):
        f = self.proc.stdout
        try:
            while True:
                length = None
                while True:
                    line = f.readline()
                    if not line:
                        self.q.put(None)
                        return
                    line = line.strip()
                    if not line:
                        break
                    if line.lower().startswith(b"content-length:"):
                        length = int(line.split(b":", 1)[1])
                if length is None:
                    continue
                body = b""
                while len(body) < length:
                    chunk = f.read(length - len(body))
                    if not chunk:
                        self.q.put(None)
                        return
                    body += chunk
                self.q.put(json.loads(body.decode("utf-8")))
        except Exception as e:  # noqa: BLE001 - reader thread must not die silently
            self.q.put({"__reader_error__": repr(e)})
            self.q.put(None)

    def _write(self, msg):
        data = json.dumps(msg, separators=(",", ":")).encode("utf-8")
        try:
            self.proc.stdin.write(b"Content-Length: %d\r\n\r\n" % len(data) + data)
            self.proc.stdin.flush()
        except (BrokenPipeError, OSError) as e:
            raise LspDied(f"{self.name}: write failed: {e}")
        self.sent += 1

    def _log(self, direction, msg):
        m = msg.get("method")
        entry = {"dir": direction}
        if m:
            entry["method"] = m
        if "id" in msg:
            entry["id"] = msg["id"]
        p = msg.get("params")
        if isinstance(p, dict):
            td = p.get("textDocument")
            if isinstance(td, dict):
                entry["uri"] = os.path.basename(td.get("uri", ""))
                if "version" in td:
                    entry["version"] = td["version"]
            if m == "textDocument/publishDiagnostics":
                entry["uri"] = os.path.basename(p.get("uri", ""))
                entry["version"] = p.get("version")
                entry["n"] = len(p.get("diagnostics", []))
            if m == "$/progress":
                v = p.get("value", {})
                entry["token"] = p.get("token")
                entry["kind"] = v.get("kind")
                if v.get("kind") == "report":
                    entry["msg"] = v.get("message")
            if m in ("workspace/willRenameFiles", "workspace/didRenameFiles", "workspace/willDeleteFiles"):
                entry["files"] = [{k: os.path.basename(v) for k, v in f.items()} for f in p.get("files", [])]
            if m == "window/workDoneProgress/create":
                entry["token"] = p.get("token")
        if m != "window/logMessage":
            self.transcript.append(entry)

    def notify(self, method, params):
        msg = {"jsonrpc": "2.0", "method": method, "params": params}
        self._log("c>s", msg)
        self._write(msg)

    def request_async(self, method, params):
        rid = self.next_id
        self.next_id += 1
        msg = {"jsonrpc": "2.0", "id": rid, "method": method, "params": params}
        self._log("c>s", msg)
        self._write(msg)
        return rid

    def request(self, method, params, timeout=None):
        rid = self.request_async(method, params)
        self.pump(lambda: rid in self.responses, timeout, what=f"response to {method}")
        return self.responses.pop(rid)

    # -- incoming -----------------------------------------------------------------------
    def _check_stderr(self):
        try:
            with open(self.stderr_path, "rb") as f:
                data = f.read()
        except OSError:
            return
        if b"panicked at" in data or b"stack overflow" in data or b"SIGSEGV" in data:
            raise LspPanicked(f"{self.name}: " + data.decode("utf-8", "replace")[-1500:])

    def stderr_text(self):
        try:
            return open(self.stderr_path, "rb").read().decode("utf-8", "replace")
        except OSError:
            return ""

    def _handle(self, msg):
        self.received += 1
        if "__reader_error__" in msg:
            raise LspDied(f"{self.name}: reader error {msg['__reader_error__']}")
        self._log("s>c", msg)
        method = msg.get("method")
        if method is None:
            if "id" in msg:
                if msg["id"] in self.nudges:
                    self.nudges.discard(msg["id"])
                else:
                    self.responses[msg["id"]] = msg
            return
        params = msg.get("params") or {}
        if "id" in msg:                                   # server -> client request
            if method == "window/workDoneProgress/create":
                token = params.get("token")
                self.creates.append(token)
                if self.hold_next_create:
                    self.hold_next_create = False
                    self.held_create = (msg["id"], token)
                    return
            self._write({"jsonrpc": "2.0", "id": msg["id"], "result": None})
            return
        if method == "textDocument/publishDiagnostics":
            self.publishes.append((len(self.publishes), params.get("uri"), params.get("version"),
                                   params.get("diagnostics", [])))
        elif method == "$/progress":
            token = params.get("token")
            value = params.get("value", {})
            kind = value.get("kind")
            if kind == "begin":
                self.begun.append(token)
            elif kind == "report":
                self.reports.setdefault(token, []).append(value.get("message"))
            elif kind == "end":
                self.ended.append(token)
        elif method == "window/logMessage":
            self.logs.append(params.get("message"))

    def release_create(self):
        if self.held_create is not None:
            rid, _ = self.held_create
            self.held_create = None
            self._write({"jsonrpc": "2.0", "id": rid, "result": None})

    def pump(self, pred, timeout=None, what="condition"):
        """Process incoming messages until pred() holds."""
        deadline = time.time() + (timeout or self.timeout)
        while not pred():
            try:
                msg = self.q.get(timeout=0.5)
            except queue.Empty:
                self._check_stderr()
                self.nudge()
                if self.proc.poll() is not None and self.q.empty():
                    raise LspDied(f"{self.name}: process exited with {self.proc.returncode} while waiting for {what}")
                if time.time() > deadline:
                    raise LspTimeout(f"{self.name}: timed out after {timeout or self.timeout:.0f}s waiting for {what}")
                continue
            if msg is None:
                self._check_stderr()
                raise LspDied(f"{self.name}: stdout closed while waiting for {what} "
                              f"(exit {self.proc.poll()})")
            self._handle(msg)

    def nudge(self):
        """Liveness aid, not a synchronisation signal.  Backend handlers log (client.log_message)
        before they forward a notification to the server thread; tower-lsp's client channel
        (futures mpsc, capacity 1) can park such a handler until *later* outbound messages are
        consumed.  When nothing has arrived for 0.5 s, an empty workspace/willRenameFiles (answered by
        the Backend alone, no effect on the server thread) makes one more log message flow."""
        if self.capabilities is None or self.closed or self.proc.poll() is not None:
            return
        rid = self.request_async("workspace/willRenameFiles", {"files": []})
        self.nudges.add(rid)

    # -- protocol helpers ---------------------------------------------------------------
    def initialize(self):
        root_uri = path_to_uri(self.root)
        res = self.request("initialize", {
            "processId": os.getpid(),
            "rootUri": root_uri,
            "workspaceFolders": [{"uri": root_uri, "name": os.path.basename(self.root)}],
            "capabilities": {
                "window": {"workDoneProgress": True},
                "workspace": {"workspaceFolders": True,
                              "fileOperations": {"willRename": True, "didRename": True, "willDelete": True}},
                "textDocument": {"publishDiagnostics": {"relatedInformation": True, "versionSupport": True},
                                 "synchronization": {"didSave": True}},
            },
        })
        if "error" in res:
            raise LspError(f"initialize failed: {res['error']}")
        self.capabilities = res["result"]["capabilities"]
        self.notify("initialized", {})
        return self.capabilities

    def sync_kind(self):
        s = (self.capabilities or {}).get("textDocumentSync")
        if isinstance(s, dict):
            return s.get("change")
        return s

    def wait_publish(self, uri, version):
        """Diagnostics of the first publish for (uri, version)."""
        def find():
            for p in self.publishes:
                if p[1] == uri and p[2] == version:
                    return p
            return None
        self.pump(lambda: find() is not None, what=f"publishDiagnostics {os.path.basename(uri)} v{version}")
        return find()[3]

    def publishes_for(self, uri, version):
        return [p[3] for p in self.publishes if p[1] == uri and p[2] == version]

    def did_open(self, path, text, version):
        uri = path_to_uri(path)
        self.notify("textDocument/didOpen",
                    {"textDocument": {"uri": uri, "languageId": "veryl", "version": version, "text": text}})
        return uri

    def did_change(self, path, text, version):
        uri = path_to_uri(path)
        self.notify("textDocument/didChange",
                    {"textDocument": {"uri": uri, "version": version}, "contentChanges": [{"text": text}]})
        return uri

    def did_save(self, path, text=None):
        p = {"textDocument": {"uri": path_to_uri(path)}}
        if text is not None:
            p["text"] = text
        self.notify("textDocument/didSave", p)

    def did_close(self, path):
        self.notify("textDocument/didClose", {"textDocument": {"uri": path_to_uri(path)}})

    def will_rename(self, pairs):
        return self.request("workspace/willRenameFiles",
                            {"files": [{"oldUri": path_to_uri(a), "newUri": path_to_uri(b)} for a, b in pairs]})

    def did_rename(self, pairs):
        self.notify("workspace/didRenameFiles",
                    {"files": [{"oldUri": path_to_uri(a), "newUri": path_to_uri(b)} for a, b in pairs]})

    def will_delete(self, paths):
        return self.request("workspace/willDeleteFiles", {"files": [{"uri": path_to_uri(p)} for p in paths]})

    def barrier(self):
        """A request the *server thread* has to answer: every message sent before it has been
        processed by the server thread when the response arrives."""
        return self.request("workspace/symbol", {"query": "\u0001no-such-symbol\u0001"})

    def wait_tasks(self, expected):
        """Background complete: `expected` tasks have been created so far and all have ended."""
        self.pump(lambda: len(self.ended) >= expected, what=f"$/progress end #{expected} (have {len(self.ended)})")

    def wait_create(self, n):
        self.pump(lambda: len(self.creates) >= n, what=f"workDoneProgress/create #{n}")

    def wait_log(self, text, count):
        self.pump(lambda: sum(1 for m in self.logs if m == text) >= count, what=f"log '{text}' x{count}")

    # -- shutdown -----------------------------------------------------------------------
    def close(self):
        if self.closed:
            return
        self.closed = True
        try:
            if self.proc.poll() is None:
                try:
                    self.release_create()
                    rid = self.request_async("shutdown", None)
                    self.pump(lambda: rid in self.responses, timeout=5, what="shutdown")
                    self.notify("exit", None)
                    self.proc.wait(timeout=3)
                except Exception:  # noqa: BLE001
                    pass
        finally:
            if self.proc.poll() is None:
                self.proc.kill()
                try:
                    self.proc.wait(timeout=10)
                except Exception:  # noqa: BLE001
                    pass
            for f in (self.proc.stdin, self.proc.stdout, self._stderr_f):
                try:
                    f.close()
                except Exception:  # noqa: BLE001
                    pass

    def __enter__(self):
        return self

    def __exit__(self, *a):
        self.close()
