#!/usr/bin/env python3
"""C34 part (b) -- CLI DUT reuse is invisible.

Library + standalone script.  The same generated suites as C32 (tests sharing parameterised DUT
modules in different instance layouts) are run with the real `veryl test --format json`:

    VERYL_DUT_REUSE=0                                   (convert every test from scratch)   = reference
    VERYL_DUT_REUSE=1 VERYL_DUT_REUSE_MIN_BYTES=0       (reuse + relocation for every recurring DUT)
    VERYL_DUT_REUSE=1                                   (default size floor)

with dispatch orders and worker counts permuted.  Every test's (status, message, captured output)
must be identical to the reference of the same backend.

There is no log/stat line for a reuse hit in cmd_test.rs / backend/inst.rs (see notes/C34b.md), so
non-vacuity is shown -- best effort -- by one extra run per suite under `gdb -batch` with a
breakpoint on `backend::inst::try_reuse_or_claim` that prints (component key, alias_enabled,
dut_reuse): a key requested n times with alias_enabled=0, dut_reuse=1 was computed once and
relocated n-1 times.  The orchestrator combines `check_suite()` with the in-process part (a).
"""
import json
import os
import re
import shutil
import subprocess
import traceback

from vcommon import Args, Run, Rng, hash_str, VERYL, cli_env
import c32

PROP = "C34b"

# VERYL_VERIF_STATS=1: once the hook requested in notes/C34b.md exists, `veryl test` prints
# "VERIF dut_reuse hit=.. compute=.. dealiased=.." on stderr; until then the variable is ignored.
REUSE_ON0 = {"VERYL_DUT_REUSE": "1", "VERYL_DUT_REUSE_MIN_BYTES": "0", "VERYL_VERIF_STATS": "1"}
REUSE_ON = {"VERYL_DUT_REUSE": "1", "VERYL_VERIF_STATS": "1"}
REUSE_OFF = {"VERYL_DUT_REUSE": "0", "VERYL_VERIF_STATS": "1"}
STATS_RE = re.compile(r"VERIF dut_reuse hit=(\d+) compute=(\d+) dealiased=(\d+)")

_SYMBOL = {}


def reuse_symbol(binary=VERYL):
    """Mangled name of backend::inst::try_reuse_or_claim in the CLI binary (None if stripped / no nm)."""
    if binary not in _SYMBOL:
        sym = None
        try:
            out = subprocess.run(["nm", binary], stdout=subprocess.PIPE, stderr=subprocess.DEVNULL, timeout=120).stdout
            for line in out.decode("utf-8", "replace").splitlines():
                if "try_reuse_or_claim" in line and "inst" in line:
                    parts = line.split()
                    if len(parts) == 3 and parts[1] in "Tt":
                        sym = parts[2]
                        break
        except (OSError, subprocess.TimeoutExpired):
            sym = None
        _SYMBOL[binary] = sym if shutil.which("gdb") else None
    return _SYMBOL[binary]


def probe_reuse(root, home, sched, workdir):
    """One run under gdb. -> dict(calls, eligible, hits, keys) or None when the probe is unavailable.

    x86-64 SysV: the enum result is returned through a hidden pointer in rdi, so component_key=rsi,
    alias_enabled=edx, ff_start=rcx, comb_start=r8, dut_reuse=r9d.  Validated on every probe: both flags must be 0/1 and dut_reuse
    must equal what the environment asked for, otherwise the probe is discarded."""
    sym = reuse_symbol()
    if not sym:
        return None
    cmds = os.path.join(workdir, f"gdbcmds_{os.path.basename(root)}")
    with open(cmds, "w") as f:
        f.write("set pagination off\nset confirm off\n"
                f"break {sym}\ncommands\nsilent\n"
                "printf \"REUSEPROBE %lx %d %d %ld %ld\\n\", $rsi, $edx, $r9d, $rcx, $r8\ncontinue\nend\nrun\n")
    argv = ["gdb", "-nx", "-q", "-batch", "-x", cmds, "--args", VERYL, "test", "--quiet", "--format", "json",
            "--seed", str(sched["seed"]), "--backend", sched["backend"]]
    try:
        p = subprocess.run(argv, cwd=root, env=cli_env(home, sched.get("env")), stdout=subprocess.PIPE,
                           stderr=subprocess.DEVNULL, timeout=600)
    except (OSError, subprocess.TimeoutExpired):
        return None
    want = 1 if (sched.get("env") or {}).get("VERYL_DUT_REUSE") != "0" else 0
    per_key = {}
    offsets = {}
    calls = 0
    for line in p.stdout.decode("utf-8", "replace").splitlines():
        m = re.match(r"^REUSEPROBE ([0-9a-f]+) (-?\d+) (-?\d+) (-?\d+) (-?\d+)$", line)
        if not m:
            continue
        calls += 1
        alias, reuse = int(m.group(2)), int(m.group(3))
        if alias not in (0, 1) or reuse != want:
            return None                       # ABI guess does not hold for this build
        if alias == 0 and reuse == 1:
            per_key[m.group(1)] = per_key.get(m.group(1), 0) + 1
            offsets.setdefault(m.group(1), set()).add((int(m.group(4)), int(m.group(5))))   # (ff_start, comb_start)
    if calls == 0:
        return None
    return {"calls": calls, "eligible": sum(per_key.values()), "keys": len(per_key),
            "hits": sum(n - 1 for n in per_key.values()),
            # components really relocated: requested at >= 2 different (ff_start, comb_start) placements
            "keys_at_distinct_offsets": sum(1 for v in offsets.values() if len(v) >= 2),
            "distinct_placements": sum(len(v) for v in offsets.values() if len(v) >= 2)}


def reuse_schedules(rng, suite, seed, npairs, backends):
    """[(label, sched)] -- the first of every backend is the from-scratch reference."""
    scheds = []
    for b in backends:
        scheds.append({"cpus": None, "order_style": "none", "timings": None, "backend": b, "seed": seed,
                       "env": dict(REUSE_OFF)})
    cpu_opts = [None, "0", "0-1", "0-3"]
    styles = ["perm", "reverse", "partial", "none"]
    for i in range(npairs):
        st = rng.pick(styles)
        env = REUSE_ON0 if i % 3 != 2 else REUSE_ON
        b = backends[i % len(backends)]
        if b == "cc" and i >= len(backends):
            b = backends[0]                    # cc compiles are slow: one reuse-on cc run per suite
        scheds.append({"cpus": rng.pick(cpu_opts if b != "cc" else [None, "0-3"]), "order_style": st,
                       "timings": c32.make_timings(rng, suite["tests"], st), "backend": b,
                       "seed": seed, "env": dict(env)})
    # and a permuted from-scratch run, so that a plain schedule effect is not blamed on reuse
    scheds.append({"cpus": rng.pick(cpu_opts), "order_style": "perm",
                   "timings": c32.make_timings(rng, suite["tests"], "perm"), "backend": backends[0], "seed": seed,
                   "env": dict(REUSE_OFF)})
    return scheds


def check_suite(run, suite, scratch, rng, npairs, backends, probe=True, prop=PROP):
    """Runs one suite under the reuse on/off schedules, reports violations through `run`.
    -> False when the suite was rejected (reference run unusable)."""
    root = os.path.join(scratch, suite["cfg"]["name"])
    home = os.path.join(scratch, suite["cfg"]["name"] + "_home")
    os.makedirs(home, exist_ok=True)
    c32.write_suite(suite, root)
    seed = rng.next() & ((1 << 63) - 1)
    scheds = reuse_schedules(rng, suite, seed, npairs, backends)
    shapes = suite.get("shapes") or {}
    refs = {}
    replay = {"suite": suite, "seed": seed}
    for s in scheds:
        r = c32.run_schedule(root, home, s, suite["tests"])
        reuse_on = s["env"].get("VERYL_DUT_REUSE") == "1"
        if not r["ok"]:
            if s["backend"] not in refs:
                run.count("suites_rejected")
                run.note(f"suite {suite['index']}: reference run failed ({r.get('fail')}): {r['stderr_tail'][-300:]}")
                return False
            if r.get("fail") == "timeout":
                run.inconclusive(f"suite {suite['index']} timed out under {c32.sched_label(s)}")
                continue
            run.violation(f"{prop}:run-failed:{r.get('fail')}:reuse={'on' if reuse_on else 'off'}",
                          f"`veryl test` gave no usable report ({r.get('fail')}, exit {r['code']}) under "
                          f"{c32.sched_label(s)} although the from-scratch reference did",
                          dict(replay, sched=s, stderr=r["stderr_tail"]))
            continue
        run.count("runs")
        run.count("runs_reuse_on" if reuse_on else "runs_reuse_off")
        m = STATS_RE.search(r["stderr_tail"])
        if m:
            run.count("runs_with_reuse_stats_line")
            if reuse_on:
                run.count("reuse_hits_observed", int(m.group(1)))
                run.count("reuse_computes_reported", int(m.group(2)))
                if int(m.group(1)) > 0:
                    run.count("suites_with_reuse_hits")
            elif int(m.group(1)) > 0:
                run.count("reuse_hits_reported_with_reuse_off", int(m.group(1)))
        run.seen("configs", f"{s.get('cpus') or 'all'}|{s['order_style']}|{s['backend']}|"
                            + ",".join(f"{k}={v}" for k, v in sorted(s["env"].items()) if k != "VERYL_VERIF_STATS"))
        run.seen("completion_orders", hash_str(" ".join(r["order"])))
        if s["backend"] not in refs:
            refs[s["backend"]] = (r, s)
            sts = [v[0] for v in r["results"].values()]
            run.count("tests_in_suites", len(sts))
            run.count("tests_failing", sum(1 for x in sts if x == "fail"))
            run.count("tests_passing", sum(1 for x in sts if x == "pass"))
            continue
        base, base_s = refs[s["backend"]]
        diffs = c32.compare_results(base["results"], r["results"])
        run.count("tests_compared", len(suite["tests"]))
        run.count("pairs_reuse_on_vs_off" if reuse_on else "pairs_off_vs_off")
        if diffs:
            t, field, va, vb = diffs[0]
            kind = "reuse-visible" if reuse_on else "schedule-dependent-without-reuse"
            run.violation(f"{prop}:{kind}:{field}:{s['backend']}",
                          f"{kind}: test {t} {field} differs between [{c32.sched_label(base_s)}] and "
                          f"[{c32.sched_label(s)}]: {str(va)[:160]!r} vs {str(vb)[:160]!r}",
                          dict(replay, sched_a=base_s, sched_b=s, diffs=[list(map(str, d)) for d in diffs[:10]]))
    if shapes and refs:
        # shapes the relocation path needs: one DUT (>= 256 bytes, derived clock in a submodule) used by
        # >= 2 tests of the run in different testbench layouts (= different ff/comb offsets)
        if len(shapes.get("focus_tests", [])) >= 2 and len(shapes.get("focus_layouts", [])) >= 2:
            run.count("suites_with_nested_derived_clock_dut")
            run.count("tests_on_nested_derived_clock_dut", len(shapes["focus_tests"]))
            run.count("dut_at_distinct_offsets", len(shapes["focus_layouts"]))
        run.count("shared_duts_at_distinct_layouts", len(shapes.get("shared_duts_at_distinct_layouts", [])))
        run.seen("nested_clock_dut_kinds", shapes.get("focus_dut", "").split("#")[0])
        for l in shapes.get("focus_layouts", []):
            run.seen("focus_dut_layouts", l)
        base = next(iter(refs.values()))[0]
        run.count("focus_tests_reaching_the_end",
                  sum(1 for t in shapes.get("focus_tests", [])
                      if f"E {t} done" in (base["results"][t][2] or "")))
    if probe:
        s = {"cpus": None, "backend": "cranelift" if "cranelift" in backends else backends[0], "seed": seed,
             "env": dict(REUSE_ON0), "timings": None, "order_style": "none"}
        info = probe_reuse(root, home, s, scratch)
        if info is None:
            run.count("reuse_probes_unavailable")
        else:
            run.count("reuse_probes")
            run.count("reuse_hits_observed", info["hits"])
            run.count("reuse_eligible_requests", info["eligible"])
            run.count("reuse_components", info["keys"])
            run.count("reuse_components_relocated_to_distinct_offsets", info["keys_at_distinct_offsets"])
            run.count("reuse_distinct_placements", info["distinct_placements"])
            if info["hits"] > 0:
                run.count("suites_with_reuse_hits")
    if not os.environ.get("VERIF_KEEP_SCRATCH"):
        shutil.rmtree(root, ignore_errors=True)
        shutil.rmtree(home, ignore_errors=True)
    return True


def main():
    args = Args()
    args.prop = args.prop or PROP
    run = Run(args, "exploration",
              "one case = one generated suite (as C32: 8-40 native tests over shared parameterised DUT modules "
              "Acc/Mix/Pipe/Top2/Wide in different instance layouts) run with VERYL_DUT_REUSE=0 vs =1 (size floor "
              "0 and default) under permuted orders / worker counts / backends; non-trivial = reference report "
              "usable and >=1 reuse-on run compared; distinct by hash of the suite text")
    run.assume("VERYL_DUT_REUSE / VERYL_DUT_REUSE_MIN_BYTES are read once per process (Config::apply_env, inst.rs LazyLock)")
    run.assume("no native observable for reuse hits exists; the gdb breakpoint probe on try_reuse_or_claim "
               "(rsi=key, edx=alias_enabled, r9d=dut_reuse; self-validated) is best effort -- see notes/C34b.md")
    nsuites = args.budget("suites", 3, 24)
    npairs = args.budget("pairs", 4, 8)
    max_tests = args.budget("max_tests", 20, 40)
    probe_every = args.budget("probe_every", 3, 6)     # the gdb run is slow (symbol loading of a 260 MB binary)
    scratch = run.scratch()
    if args.replay:
        rep = json.load(open(args.replay))
        suites = [rep["case"]["suite"]]
    else:
        suites = None
    probe_ok = reuse_symbol() is not None
    jobs = int(args.extra.get("jobs", 3 if args.thorough() else 2))

    def work(i):
        rng = Rng.for_case(args.seed, PROP, i)
        suite = c32.gen_suite(rng, i, 8, max_tests, prefix="r") if suites is None else suites[i]
        backends = ["cranelift", "interpret"] if i % 3 else ["cranelift", "cc"]
        if args.extra.get("backends"):
            backends = args.extra["backends"].split(",")
        rec = c32.Recorder()
        try:
            ok = check_suite(rec, suite, scratch, rng, npairs, backends, probe=probe_ok and i % probe_every == 0)
        except Exception as e:  # noqa: BLE001
            rec.inconclusive(f"suite {i}: harness error {e!r} {traceback.format_exc()[-500:]}")
            ok = False
        return suite, rec, ok

    from concurrent.futures import ThreadPoolExecutor
    with ThreadPoolExecutor(max_workers=jobs) as ex:
        for suite, rec, ok in ex.map(work, range(nsuites if suites is None else len(suites))):
            run.eval()
            run.sample(c32.suite_sample(suite), cap=2)
            rec.merge_into(run)
            if ok:
                run.count("suites_run")
                run.nontrivial(hash_str(json.dumps(suite["files"], sort_keys=True)))
    floors = [("suites_run", max(1, nsuites * 3 // 4)), ("pairs_reuse_on_vs_off", nsuites * 2),
              ("tests_compared", nsuites * 20), ("configs", min(6, nsuites * 2)),
              ("tests_passing", nsuites), ("tests_failing", 1),
              ("suites_with_nested_derived_clock_dut", max(1, nsuites // 2)),
              ("dut_at_distinct_offsets", nsuites), ("tests_on_nested_derived_clock_dut", nsuites),
              ("focus_tests_reaching_the_end", nsuites)]
    if probe_ok:
        floors += [("reuse_hits_observed", max(1, nsuites // probe_every)), ("suites_with_reuse_hits", 1),
                   ("reuse_components_relocated_to_distinct_offsets", 1)]
    else:
        run.note("gdb/nm or the try_reuse_or_claim symbol is unavailable: reuse hits could not be observed")
    if args.replay:
        floors = [("evaluations", 1)]
    run.finish(floors)


if __name__ == "__main__":
    main()
