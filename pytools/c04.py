#!/usr/bin/env python3
"""C04 -- Incremental builds produce exactly what a clean build produces.

Runtime monitor: ProjectGen x HistoryGen histories are executed through the real `veryl` CLI in twin project
directories (see twin.py).  `inc/` keeps `.build` (fragment cache, info.toml); `cln/` is wiped and
re-materialised before every command.  After every command the oracle compares exit status, the multiset of
diagnostics, every emitted file (.sv, .sv.map, filelist, dependencies/) and, for `veryl test`, the JSON report.

    ./check C04 [--set cases=N] [--set steps=N] [--set jobs=N] [--set hand_edit=1] [--set rm_map=1]
                [--set sabotage=1]   (self-test: corrupts one inc output before comparing -> must fire)
    ./check C04 --replay replay/C04/<sig>.json
"""
import hashlib
import json
import multiprocessing
import os
import shutil
import sys
import traceback

sys.path.insert(0, os.path.dirname(os.path.abspath(__file__)))
from vcommon import Args, Run, Rng                                             # noqa: E402
from projgen import ProjectGen, HistoryGen, apply_edit, apply_edit_to_map      # noqa: E402
import twin                                                                    # noqa: E402

PROP = "C04"


# ------------------------------------------------------------------------------------------------
# history generation (pure; no disk access)
# ------------------------------------------------------------------------------------------------

def step_meta(P):
    out_src = {}
    src_kinds = {}
    t = P.opts["target"]
    for p, its in P.vfiles.items():
        src_kinds[p] = "+".join(sorted({it["kind"] for it in its}))
        if p.startswith("examples/"):
            continue
        sd = P.source_dir_of(p)
        rel = p[len(sd) + 1:] if sd else p
        rel = rel[:-len(".veryl")] + ".sv"
        dst = None
        if t["type"] == "directory":
            dst = os.path.join(t["path"], rel)
        elif t["type"] == "source":
            dst = p[:-len(".veryl")] + ".sv"
        if dst:
            out_src[dst] = p
        sm = P.opts.get("sourcemap_target", {"type": "target"})
        if sm["type"] == "directory":
            if t["type"] == "directory":
                out_src[os.path.join(sm["path"], rel)] = p          # + ".map" is stripped by the lookup
            elif dst:
                out_src[os.path.join(sm["path"], dst)] = p
    return {"out_src": out_src, "src_kinds": src_kinds, "target": t["type"]}


def gen_history(seed, case, nsteps, opts):
    rng = Rng.for_case(seed, PROP, case)
    avoid = opts.get("avoid", ())
    P = ProjectGen(rng.fork(), generics="gen" not in avoid).generate()
    if "warn" in avoid:
        P.lint.clear()
    if "bundle" in avoid:
        P.features["bundle"] = False
    weights = {}
    cmds = {"test_filter": 0} if "filter" in avoid else {}
    if "oldmtime" in avoid:
        weights["old_mtime"] = 0
    if "warn" in avoid:
        weights["warn_on"] = 0
    if "filearg" in avoid:
        cmds.update({"build_file": 0, "check_file": 0})
    if opts.get("hand_edit"):
        weights["edit_output"] = 4
    if opts.get("rm_map"):
        weights["rm_map"] = 3
    H = HistoryGen(rng.fork(), P, weights=weights, cmds=cmds, max_edits=2)
    files0 = P.files()
    shape0 = P.shape()
    steps = [{"edits": [], "cmd": ["build"], "kinds": ["initial"], "expect_ok": True, "meta": step_meta(P)}]
    bad_run = 0
    # every history contains one scripted "late dependency" scenario (4 steps) at a random position; the variant rotates with
    # the case index so that every quick run sees all of them
    late_at = rng.range(1, max(1, nsteps - 5)) if nsteps >= 6 and "lateref" not in avoid else -1
    while len(steps) < nsteps:
        if len(steps) == late_at:
            ls = H.late_ref_steps(HistoryGen.LATE_REF_VARIANTS[case % len(HistoryGen.LATE_REF_VARIANTS)])
            for st in ls:
                st["meta"] = step_meta(P)
            # meta of the break step must describe the project *at that step*; out_src only matters for output mismatches
            steps.extend(ls)
            bad_run = 0
            late_at = -1
            if ls:
                continue
        if bad_run >= 3 and rng.chance(2, 3):
            st = H.repair_step(cmd=rng.pick([["build"], ["build"], ["check"]]))
        else:
            st = H.next_step()
        st["meta"] = step_meta(P)
        bad_run = 0 if st["expect_ok"] else bad_run + 1
        steps.append(st)
    steps = steps[:max(nsteps, 1)] if late_at == -1 else steps
    return files0, steps, shape0, P.shape()


# ------------------------------------------------------------------------------------------------
# execution of a concrete history in twin directories
# ------------------------------------------------------------------------------------------------

def signature(m, step, argv, files, last_ok_files, changed_at, check_steps, si, inc, cln):
    """Stable signature = failure kind + scenario class (never generated names, never item-kind combinations).

    output mismatches: <kind>:<sv|map|other>:<generic_definition|plain>:<source_unchanged|checked_since_change|source_changed>
        (generic_definition = the output's source declares a generic module; checked_since_change = the source changed
        since the last successful incremental build/test and a `veryl check` has seen the new content since; when the source
        is unchanged the state says whether Veryl.toml changed: config_checked_since_change | config_changed | source_unchanged)
    filelist:          <kind>:filelist:<how>:<cmd class>
    diagnostics:       diag_<extra|missing|...>:<severity>:<code>:<scenario>
    exit status:       exit_differs:<target type>-target:inc=<a>:cln=<b>"""
    cmd = argv[0]
    cmdcls = "test_filter" if (cmd == "test" and "--test" in argv) else (cmd + "_file" if len(argv) > 1 and cmd in ("build", "check") else cmd)
    meta = step.get("meta", {})
    target = meta.get("target", "?")
    kind = m["kind"]
    if kind.startswith("diag_"):
        sev, _, code = m["cls"].partition(":")
        both_fail = inc.code == cln.code and inc.code not in (0, None)
        warm = bool(inc.restored and inc.restored[0] > 0)
        if kind == "diag_extra" and sev == "Warning" and both_fail and warm:
            return "diag_extra:Warning:replayed_on_failing_run"
        if kind == "diag_missing" and sev == "Warning" and warm:
            return f"diag_missing:Warning:{code}:cached_warning_lost"
        if kind == "diag_extra" and sev == "Error" and code == "None" and "No such file or directory" in m["detail"] and target == "bundle":
            return "diag_extra:Error:io_no_such_file:bundle-target"
        return f"{kind}:{sev}:{code}:{cmdcls}"
    if kind == "exit_differs":
        return f"exit_differs:{target}-target:{m['cls']}"
    rel = m.get("rel")
    if not rel:
        return f"{kind}:{m['cls']}:{cmdcls}"
    if m["cls"] == "filelist":
        how = "missing"
        if "inc_head" in m:
            a = [l for l in m.get("inc_full", m["inc_head"]).splitlines() if l.strip()]
            b = [l for l in m.get("cln_full", m["cln_head"]).splitlines() if l.strip()]
            if set(a) - set(b) and not set(b) - set(a):
                how = "inc_lists_extra_files"
            elif set(b) - set(a) and not set(a) - set(b):
                how = "inc_omits_files"
            elif set(a) == set(b):
                how = "order_or_duplicates"
            else:
                how = "different_entries"
        return f"{kind}:filelist:{how}:{cmdcls}"
    # did Veryl.toml change since the last successful incremental build, and has a `veryl check` run under the new config?
    if files.get("Veryl.toml") == (last_ok_files or {}).get("Veryl.toml"):
        cfg = "source_unchanged"
    elif any(changed_at.get("Veryl.toml", 0) <= j < si for j in check_steps):
        cfg = "config_checked_since_change"
    else:
        cfg = "config_changed"
    src = meta.get("out_src", {}).get(rel[:-4] if rel.endswith(".map") else rel)
    if src is None:
        where = "dependency" if rel.startswith("dependencies/") else f"{target}-target"
        return f"{kind}:{m['cls']}:{where}:{cfg}"
    kinds = meta.get("src_kinds", {}).get(src, "")
    gen = "generic_definition" if "gen" in kinds.split("+") else "plain"
    if files.get(src) == (last_ok_files or {}).get(src):
        state = cfg
    elif any(changed_at.get(src, 0) <= j < si for j in check_steps):
        state = "checked_since_change"
    else:
        state = "source_changed"
    return f"{kind}:{m['cls']}:{gen}:{state}"


def execute(case_dir, files0, steps, template_home, sabotage=False, keep=False, known=()):
    inc = os.path.join(case_dir, "inc")
    cln = os.path.join(case_dir, "cln")
    home = os.path.join(case_dir, "home")
    shutil.rmtree(case_dir, ignore_errors=True)
    os.makedirs(inc)
    twin.seed_home(home, template_home)
    files = dict(files0)
    twin.wipe_and_materialize(inc, files)
    res = {"counters": {}, "violations": [], "sets": {}, "trace": [], "inconclusive": []}
    cnt = res["counters"]

    def bump(k, n=1):
        cnt[k] = cnt.get(k, 0) + n

    last_ok_files = None
    sabotaged = False
    late_add_ok = False
    changed_at = {}
    check_steps = []
    for si, st in enumerate(steps):
        before = dict(files)
        for e in st["edits"]:
            apply_edit(inc, e)
            apply_edit_to_map(files, e)
        for p, t in files.items():
            if before.get(p) != t:
                changed_at[p] = si
        argv = st["cmd"]
        sources = set(files)
        pre = twin.digest_outputs(inc, sources)
        if sabotage == "stale_dependents" and st.get("tag") == "late_ref_break" and late_add_ok:
            # harness-side emulation of "the dependents list of a restored file is not refreshed": empty A's cached list
            mp = os.path.join(inc, ".build/cache/manifest.toml")
            try:
                txt = open(mp).read()
                key = '[files."' + os.path.join(inc, st["late_ref_target"]) + '"]'
                i = txt.find(key)
                if i >= 0:
                    j = txt.find("dependents = [", i)
                    k = txt.find("]", j)
                    txt = txt[:j] + "dependents = [" + txt[k:]
                    open(mp, "w").write(txt)
                    bump("sabotage_applied")
            except OSError:
                pass
        r_inc = twin.run_step(inc, home, argv, sources)
        twin.wipe_and_materialize(cln, files)
        r_cln = twin.run_step(cln, home, argv, sources)
        if sabotage is True and not sabotaged and si >= 1 and r_inc.code == 0 and argv[0] in ("build", "test"):
            svs = sorted(k for k in r_inc.outputs if k.endswith(".sv") and k in r_cln.outputs)
            if svs:
                r_inc.outputs[svs[0]] = r_inc.outputs[svs[0]] + b"// sabotage\n"
                sabotaged = True
        mm = twin.compare(argv, r_inc, r_cln, inc, cln, pre_digest=pre)
        cmd = argv[0]
        trace = {"step": si, "cmd": argv, "kinds": st.get("kinds", []), "inc_exit": r_inc.code, "cln_exit": r_cln.code,
                 "restored": r_inc.restored, "cln_restored": r_cln.restored, "n_diags": len(r_cln.diags),
                 "n_outputs": len(r_cln.outputs)}
        res["trace"].append(trace)
        if any(m["kind"] == "timeout" for m in mm):
            res["inconclusive"].append(f"step {si}: command timed out ({argv})")
            break
        if r_cln.panic and r_inc.panic:
            bump("steps_both_twins_panicked_(C11_matter)")
            res.setdefault("both_panic", " | ".join(l for l in r_cln.err.splitlines() if "panicked at" in l or "called `" in l)[:300])
            continue
        if r_cln.panic and not r_inc.panic:
            # a panic of the clean build is not a C04 matter (C11 owns it); the step cannot be judged
            bump("steps_skipped_clean_panic")
            continue
        bump("steps_compared")
        bump(f"cmd_{cmd}")
        tag = st.get("tag")
        if tag == "late_ref_add":
            late_add_ok = r_inc.code == 0 and r_cln.code == 0 and bool(r_inc.restored and r_inc.restored[0] > 0)
            if late_add_ok:
                bump("late_ref_added_while_target_restored")
        elif tag == "late_ref_break":
            if late_add_ok:
                bump("late_ref_break_steps_compared")
                variant = st["kinds"][0].split(":")[-1]
                bump(f"late_ref_break_{variant}")
                if r_cln.code not in (0, None):
                    bump("late_ref_break_steps_where_clean_reports_the_error")
                if r_inc.restored and r_inc.restored[0] > 0:
                    bump("late_ref_break_steps_with_restore")
            late_add_ok = False
        for k in st.get("kinds", []):
            bump(f"edit_{k}")
        bump("diag_records_compared", len(r_cln.diags))
        if r_inc.code == 0 and r_cln.code == 0:
            bump("steps_both_ok")
            if cmd in ("build", "test"):
                bump("output_files_compared", len(r_cln.outputs))
        elif r_inc.code == r_cln.code:
            bump("steps_both_failed")
        if r_cln.diags:
            bump("steps_with_diagnostics")
        if any(d["severity"] == "Warning" for d in r_cln.diags):
            bump("steps_with_warnings")
        if r_inc.restored:
            n, m_ = r_inc.restored
            if n > 0:
                bump("steps_with_restore")
                bump("fragments_restored", n)
                if n < m_:
                    bump("steps_partial_restore")
        if r_cln.restored and r_cln.restored[0] > 0:
            res["inconclusive"].append(f"step {si}: the clean twin restored {r_cln.restored[0]} fragments (wipe failed?)")
        if r_cln.report is not None:
            bump("test_reports_compared")
            bump("tests_in_reports", len(r_cln.report.get("tests", [])))
        if r_inc.logwarn != r_cln.logwarn:
            bump("log_warning_lines_differ_(informational)")
        if mm:
            by_sig = {}
            for m in mm:
                sig = signature(m, st, argv, files, last_ok_files, changed_at, check_steps, si, r_inc, r_cln)
                by_sig.setdefault(sig, []).append(m)
            for sig, ms in by_sig.items():
                what = (f"after step {si} ({' '.join(argv)}; edits: {','.join(st.get('kinds', []))}) the incremental twin differs from "
                        f"the clean twin: {ms[0]['kind']} -- {ms[0]['detail']}")
                res["violations"].append({
                    "signature": sig, "what": what,
                    "replay": {"files0": files0, "steps": steps[:si + 1], "fail_step": si, "mismatches": ms[:6],
                               "inc": r_inc.brief(), "cln": r_cln.brief(), "sabotage": bool(sabotage)}})
            if not all(sig in known for sig in by_sig):
                break      # later steps of a diverged history are not informative
            bump("steps_diverged_known_finding")
            # resynchronise: give the incremental twin the clean twin's bytes for the files that differ, so that the
            # same stale file is not re-reported under another scenario class in later steps
            for m in mm:
                rel = m.get("rel")
                if rel and m["kind"] in ("output_differs", "output_missing") and rel in r_cln.outputs:
                    full = os.path.join(inc, rel)
                    os.makedirs(os.path.dirname(full), exist_ok=True)
                    with open(full, "wb") as f:
                        f.write(r_cln.outputs[rel].replace(cln.encode(), inc.encode()))
                    bump("outputs_resynchronised_after_known_finding")
        if cmd == "check" and not any(d["severity"] == "Error" and d["code"] for d in r_inc.diags):
            check_steps.append(si)      # a check without errors saves the manifest (new hashes) without emitting anything
        if r_inc.code == 0 and cmd in ("build", "test") and len(argv) == 1 or (r_inc.code == 0 and cmd == "test" and "--test" not in argv):
            last_ok_files = dict(files)
    if not keep:
        shutil.rmtree(case_dir, ignore_errors=True)
    return res


def run_case(job):
    seed, case, nsteps, scratch, template_home, opts = job
    try:
        files0, steps, shape0, shape1 = gen_history(seed, case, nsteps, opts)
        case_dir = os.path.join(scratch, f"c{case}")
        res = execute(case_dir, files0, steps, template_home, sabotage=opts.get("sabotage", False), known=opts.get("known", ()))
        res["case"] = case
        res["shapes"] = [shape0, shape1]
        res["kinds_seq"] = [",".join(s.get("kinds", [])) + ">" + s["cmd"][0] for s in steps]
        res["sample"] = {"case": case, "n_files": len(files0) - 1,
                         "files": sorted(files0)[:12],
                         "history": [{"edits": [f"{e['op']}:{e.get('path', e.get('from', ''))}" for e in s["edits"]][:6],
                                      "kinds": s.get("kinds"), "cmd": " ".join(s["cmd"])} for s in steps[:14]],
                         "observed": res["trace"][:14]}
        return res
    except Exception:
        return {"case": case, "error": traceback.format_exc(), "counters": {}, "violations": [], "trace": [],
                "inconclusive": []}


# ------------------------------------------------------------------------------------------------

def main():
    args = Args()
    args.prop = args.prop or PROP
    run = Run(args, "exploration",
              "case = one generated multi-file project + one random edit/command history run in twin directories; distinct by "
              "(dependency shape, edit-kind sequence); non-trivial when >=1 step restored >=1 cached fragment and >=1 "
              "build/test step succeeded in both twins with outputs compared")
    run.assume("a build in a freshly wiped project directory (no .build, no outputs, no dependencies/) with the same binary and "
               "the same HOME is the reference result")
    run.assume("the miette graphical report is parsed into records; rendering/order are not compared; help texts are ignored")
    run.assume("leftover outputs of deleted/renamed sources in the incremental twin are not emitted files of the current build "
               "(non-incremental veryl leaves them too); only files the current command wrote or should have written are judged")
    run.assume("hand-edited outputs and deleted .sv.map files are outside the property's edit list; enabled only with --set "
               "hand_edit=1 / rm_map=1")
    scratch = run.scratch()
    template_home, tcode = twin.make_template_home(scratch)
    if tcode != 0:
        run.inconclusive(f"template build (std expansion) failed with exit {tcode}")
        run.finish([])

    if args.replay:
        rp = json.load(open(args.replay))["case"]
        res = execute(os.path.join(scratch, "replay"), rp["files0"], rp["steps"], template_home, sabotage=rp.get("sabotage", False))
        run.eval()
        for k, v in res["counters"].items():
            run.count(k, v)
        run.extra["replay_trace"] = res["trace"]
        for v in res["violations"]:
            run.violation(v["signature"], v["what"], v["replay"])
        for r in res["inconclusive"]:
            run.inconclusive(r)
        run.finish([("steps_compared", 1)])

    ncases = args.budget("cases", 10, 120)
    nsteps = args.budget("steps", 10, 30)
    jobs = int(args.extra.get("jobs", min(12, os.cpu_count() or 4)))
    opts = {"hand_edit": bool(int(args.extra.get("hand_edit", 0))), "rm_map": bool(int(args.extra.get("rm_map", 0))),
            "sabotage": (args.extra.get("sabotage") if args.extra.get("sabotage") in ("stale_dependents",)
                         else bool(int(args.extra.get("sabotage", 0)))),
            "avoid": tuple(x for x in args.extra.get("avoid", "").split(",") if x),
            "known": sorted(k.get("signature") for k in run.known if k.get("status") == "known")}
    if opts["avoid"]:
        run.note(f"generator steered away from: {opts['avoid']} (exploration aid; the default mix avoids nothing)")
    if opts["sabotage"] == "stale_dependents":
        run.note("SELF-TEST: --set sabotage=stale_dependents empties the cached dependents list of the late-referenced file before the "
                 "break step (harness-side emulation of a manifest that is not refreshed for restored files); a violation is expected")
    elif opts["sabotage"]:
        run.note("SELF-TEST: --set sabotage=1 corrupts one incremental-twin output before comparison; a violation is expected")
    work = [(args.seed, i, nsteps, scratch, template_home, opts) for i in range(ncases)]
    with multiprocessing.Pool(jobs) as pool:
        for res in pool.imap_unordered(run_case, work):
            if res.get("error"):
                run.inconclusive(f"case {res['case']}: harness error: {res['error'].splitlines()[-1]}")
                run.note(res["error"][-1500:])
                continue
            run.eval()
            c = res["counters"]
            for k, v in c.items():
                run.count(k, v)
            for s in res.get("shapes", []):
                run.seen("dependency_shapes", hashlib.sha256(s.encode()).hexdigest()[:12])
            if c.get("steps_with_restore", 0) >= 1 and c.get("output_files_compared", 0) >= 1:
                run.nontrivial(json.dumps([res.get("shapes"), res.get("kinds_seq")]))
            if res.get("sample"):
                run.sample(res["sample"], cap=3)
            if res.get("both_panic"):
                run.note(f"case {res['case']}: both twins panicked alike (not a C04 matter, see notes/C04.md): {res['both_panic']}")
            for r in res["inconclusive"]:
                run.inconclusive(f"case {res['case']}: {r}")
            for v in res["violations"]:
                v["replay"]["case_index"] = res["case"]
                run.violation(v["signature"], v["what"], v["replay"])
    run.extra["cases"] = ncases
    run.extra["steps_per_case"] = nsteps
    # floors: the quick tier (10 cases x 10 steps) observes ~95 compared steps, ~60 steps with a restore; thorough scales with cases*steps
    scale = max(1, (ncases * nsteps) // 100) if not args.extra.get("cases") and not args.extra.get("steps") else 0
    if scale:
        floors = [("steps_compared", 28 * scale), ("steps_with_restore", 14 * scale), ("fragments_restored", 40 * scale),
                  ("steps_both_ok", 10 * scale), ("output_files_compared", 70 * scale), ("diag_records_compared", 4 * scale),
                  ("distinct_nontrivial", max(3, 2 * scale)), ("late_ref_break_steps_compared", 3 * scale),
                  ("late_ref_break_steps_where_clean_reports_the_error", 3 * scale), ("late_ref_break_steps_with_restore", 2 * scale)]
    else:
        floors = [("steps_compared", 1)]
    run.finish(floors)


if __name__ == "__main__":
    main()
