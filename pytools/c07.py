#!/usr/bin/env python3
"""C07 -- language-server diagnostics depend only on the current buffers.

For every generated history: a real `veryl-ls` (H) receives a random sequence of
didOpen / didChange / didSave / didClose / willRename+didRename / willDelete notifications over the
files of a small generated multi-file project; afterwards every open file F gets a no-op didChange
(same text, bumped version) and the diagnostics published for F in response are recorded.  A freshly
started server (cold: no `cache-ls` store; and warm: restoring the store H saved, when
`[build] incremental = true`) opens the same final buffers in canonical order, waits for background
completion, gets the same no-op didChange and must publish the same multiset of
(range, severity, code, message) for every F.

Synchronisation uses only explicit server signals (see lsp_client.py).  A timeout is inconclusive.
"""
import copy
import json
import os
import shutil
import sys
import threading
import traceback
from concurrent.futures import ThreadPoolExecutor

from vcommon import Args, Run, Rng, hash_str
from lsp_client import (LspServer, LspError, LspTimeout, LspDied, LspPanicked, diag_multiset, path_to_uri)

PROP = "C07"

# ======================================================================================
# project model: a package, an interface and modules referring to them (and to each other)
# ======================================================================================


class Pkg:
    kind = "pkg"

    def __init__(self, name):
        self.name = name
        self.orig_name = name     # only this model ever carries this name (no cross-file duplicates)
        self.consts = []          # [name, value]
        self.has_fn = True
        self.enum = None          # (name, [members])
        self.comment = ""

    def render(self):
        out = [f"package {self.name} {{"]
        if self.comment:
            out.append(f"    // {self.comment}")
        for n, v in self.consts:
            out.append(f"    const {n}: u32 = {v};")
        if self.enum:
            out.append(f"    enum {self.enum[0]}: logic<2> {{")
            for m in self.enum[1]:
                out.append(f"        {m},")
            out.append("    }")
        if self.has_fn:
            out.append("    function inc (")
            out.append("        x: input logic<8>,")
            out.append("    ) -> logic<8> {")
            out.append("        return x + 1;")
            out.append("    }")
        out.append("}")
        return "\n".join(out) + "\n"


class Iface:
    kind = "if"

    def __init__(self, name):
        self.name = name
        self.orig_name = name
        self.vars = []            # [name, width expr]
        self.modport = "mst"
        self.comment = ""

    def render(self):
        out = [f"interface {self.name} {{"]
        if self.comment:
            out.append(f"    // {self.comment}")
        for n, w in self.vars:
            out.append(f"    var {n}: logic<{w}>;")
        if self.vars:
            out.append(f"    modport {self.modport} {{")
            for i, (n, _) in enumerate(self.vars):
                out.append(f"        {n}: {'output' if i == 0 else 'input'},")
            out.append("    }")
        out.append("}")
        return "\n".join(out) + "\n"


class Mod:
    kind = "mod"

    def __init__(self, name):
        self.name = name
        self.w = "8"              # width expression of the data path (literal or Pkg::CONST)
        self.cref = "1"           # constant added each cycle (literal or Pkg::CONST)
        self.pin = "i_d"
        self.pout = "o_d"
        self.extra = []           # [name, width expr] -- unused variables (warnings)
        self.child = None         # [module name, in port, out port]
        self.iface = None         # [interface name, var name]
        self.use_fn = None        # "Pkg::inc"
        self.comment = ""

    def render(self):
        o = [f"module {self.name} ("]
        o.append("    clk: input  clock,")
        o.append("    rst: input  reset,")
        o.append(f"    {self.pin}: input  logic<{self.w}>,")
        o.append(f"    {self.pout}: output logic<{self.w}>,")
        o.append(") {")
        if self.comment:
            o.append(f"    // {self.comment}")
        o.append(f"    var r0: logic<{self.w}>;")
        for n, w in self.extra:
            o.append(f"    var {n}: logic<{w}>;")
        terms = [self.pin, self.cref]
        if self.child:
            o.append(f"    var c_i: logic<{self.w}>;")
            o.append(f"    var c_o: logic<{self.w}>;")
            o.append(f"    assign c_i = {self.pin};")
            o.append(f"    inst u0: {self.child[0]} (")
            o.append("        clk,")
            o.append("        rst,")
            o.append(f"        {self.child[1]}: c_i,")
            o.append(f"        {self.child[2]}: c_o,")
            o.append("    );")
            terms.append("c_o")
        if self.iface:
            o.append(f"    inst b0: {self.iface[0]};")
            o.append("    always_comb {")
            o.append(f"        b0.{self.iface[1]} = r0;")
            o.append("    }")
        if self.use_fn:
            o.append("    var f0: logic<8>;")
            o.append(f"    assign f0 = {self.use_fn}(8'd3);")
            terms.append("f0")
        o.append("    always_ff {")
        o.append("        if_reset {")
        o.append("            r0 = 0;")
        o.append("        } else {")
        o.append(f"            r0 = {' + '.join(terms)};")
        o.append("        }")
        o.append("    }")
        o.append(f"    assign {self.pout} = r0;")
        o.append("}")
        return "\n".join(o) + "\n"


SUFFIX = "abcdefgh"


def gen_project(rng):
    """-> (cfg, {relpath: model}); names are globally unique so no cross-file duplicate definitions."""
    models = {}
    pk = Pkg("PkgA")
    for i in range(rng.range(2, 4)):
        pk.consts.append([f"W{i}", rng.pick([2, 4, 8, 8, 16])])
    if rng.chance(1, 2):
        pk.enum = ("Mode", ["idle", "run", "done"][: rng.range(2, 3)])
    models["src/pkg_a.veryl"] = pk
    itf = Iface("IfA")
    itf.vars.append(["v0", "PkgA::W0" if rng.bool() else "8"])
    itf.vars.append(["v1", "2"])
    models["src/if_a.veryl"] = itf
    nmod = rng.range(1, 3)
    mods = []
    for i in range(nmod):
        m = Mod(f"Mod{SUFFIX[i].upper()}")
        m.w = rng.pick(["8", "PkgA::W0", "PkgA::W0", "PkgA::W1"])
        m.cref = rng.pick(["1", "PkgA::W1", "PkgA::W1", "PkgA::W0"])
        if mods and rng.chance(2, 3):
            c = rng.pick(mods)
            m.child = [c.name, c.pin, c.pout]
        if rng.chance(1, 2):
            m.iface = ["IfA", "v0"]
        if rng.chance(1, 3):
            m.use_fn = "PkgA::inc"
        mods.append(m)
        sub = "" if rng.chance(2, 3) else "sub/"
        models[f"src/{sub}mod_{SUFFIX[i]}.veryl"] = m
    cfg = {
        "incremental": rng.bool(),
        "exclude_std": rng.chance(3, 4),
        # At most one known-hazardous interaction class per history (see notes/C07.md); "none" = the
        # client avoids all of them, so that everything else keeps being explored:
        #  racy_open        didOpen / didChange / willDelete may arrive while a background task runs
        #  stale_replay     a file may be deleted/renamed while it is the target of the latest change
        #  rename_during_bg didRename may arrive while a background task is pending
        "hazard": rng.pick(["none"] * 10 + ["racy_open"] * 4 + ["stale_replay"] * 3 +
                           ["rename_during_bg"] * 3),
        "name": "c07prj",
    }
    return cfg, models


def toml_text(cfg):
    return ("[project]\n"
            f"name    = \"{cfg['name']}\"\n"
            "version = \"0.1.0\"\n\n"
            "[build]\n"
            "clock_type  = \"posedge\"\n"
            "reset_type  = \"async_low\"\n"
            "sources     = [\"src\"]\n"
            f"exclude_std = {'true' if cfg['exclude_std'] else 'false'}\n"
            f"incremental = {'true' if cfg['incremental'] else 'false'}\n")


# ======================================================================================
# history generation (pure: depends on the rng and the client-side model only)
# ======================================================================================

BREAKS = ["drop_brace", "drop_semi", "garbage", "truncate", "open_comment", "stray_paren", "bad_char"]


def break_syntax(rng, text):
    how = rng.pick(BREAKS)
    if how == "drop_brace":
        idx = [i for i, c in enumerate(text) if c in "{}"]
    elif how == "drop_semi":
        idx = [i for i, c in enumerate(text) if c in ";,"]
    else:
        idx = []
    if how in ("drop_brace", "drop_semi") and idx:
        i = rng.pick(idx)
        return how, text[:i] + text[i + 1:]
    lines = text.split("\n")
    ln = rng.below(max(1, len(lines) - 1))
    if how == "truncate":
        cut = rng.range(1, max(1, len(text) - 2))
        return how, text[:cut]
    if how == "open_comment":
        lines.insert(ln, "/* unterminated")
    elif how == "stray_paren":
        lines.insert(ln, "    ) (")
    elif how == "bad_char":
        lines.insert(ln, "    ` \\ @")
    else:
        lines.insert(ln, "    module module if else ;;")
    return how, "\n".join(lines)


class Gen:
    """Builds the op list.  Tracks which files are open/closed/deleted and each file's model."""

    def __init__(self, rng, cfg, models, nmsgs):
        self.rng = rng
        self.cfg = cfg
        self.models = models                  # rel -> model (current, i.e. what the buffer/disk shows when not broken)
        self.open = {}                        # rel -> current buffer text
        self.disk = {r: m.render() for r, m in models.items()}
        self.broken = {}                      # rel -> True when the buffer is syntactically broken on purpose
        self.ops = []
        self.nmsgs = nmsgs
        self.uniq = 0
        self.features = set()
        self.old_names = []                   # paths that once existed (for rename-back)
        self.hazard = cfg.get("hazard", "none")
        self.ever_open = set()
        self.latest_target = None             # file of the last didOpen/didChange (server: latest_change)
        self.recreate_info = None

    # ---- helpers ----
    def fresh(self, prefix):
        self.uniq += 1
        return f"{prefix}{self.uniq}"

    def emit(self, op):
        self.ops.append(op)
        if op["op"] in ("open", "change", "probe", "create"):
            self.latest_target = op["file"]
            self.ever_open.add(op["file"])

    def pre_remove(self, rel):
        """Before the path `rel` disappears (delete / rename): unless this history explores the
        stale_replay hazard, make another file the target of the latest change."""
        if self.hazard == "stale_replay" or self.latest_target != rel:
            if self.latest_target == rel:
                self.features.add("remove_latest_change_target")
            return True
        others = [r for r in sorted(self.open) if r != rel]
        if not others:
            return False
        self.emit({"op": "probe", "file": self.rng.pick(others)})
        return True

    def path_ok(self, rel):
        # Re-using a path that was open earlier was hazard class D; since fix f072381 it is part of
        # the judged workload of every history.
        return True

    def existing(self):
        return sorted(self.disk.keys() | self.open.keys())

    def closed(self):
        return sorted(r for r in self.disk if r not in self.open)

    def pkg_consts(self):
        out = []
        for m in self.models.values():
            if m.kind == "pkg":
                out += [f"{m.name}::{c[0]}" for c in m.consts]
        return out

    def all_const_names_ever(self):
        return self.pkg_consts() + ["PkgA::W9", "PkgA::GONE", "PkgZ::W0"]

    def op_open(self, rel):
        text = self.disk[rel]
        self.open[rel] = text
        self.emit({"op": "open", "file": rel, "text": text})

    def op_change(self, rel, text, why):
        self.open[rel] = text
        self.emit({"op": "change", "file": rel, "text": text, "why": why})
        self.features.add(why)

    def op_close(self, rel):
        self.disk[rel] = self.open.pop(rel)
        self.emit({"op": "close", "file": rel})

    def rerender(self, rel, why):
        self.broken.pop(rel, None)
        self.op_change(rel, self.models[rel].render(), why)

    # ---- semantic edits on an open file ----
    def edit(self, rel):
        rng = self.rng
        m = self.models[rel]
        if self.broken.get(rel):
            if rng.chance(3, 4):
                return self.rerender(rel, "repair_syntax")
        if rng.chance(1, 6):
            how, text = break_syntax(rng, self.open[rel])
            self.broken[rel] = True
            self.features.add("break_syntax")
            return self.op_change(rel, text, "break_syntax:" + how)
        if m.kind == "pkg":
            c = rng.below(6)
            if c == 0 or not m.consts:
                m.consts.append([self.fresh("K"), rng.pick([1, 2, 4, 8])])
                why = "add_decl"
            elif c == 1:
                m.consts.pop(rng.below(len(m.consts)))
                why = "remove_decl"
            elif c == 2:
                e = rng.pick(m.consts)
                e[0] = self.fresh(e[0].rstrip("0123456789_r") + "_r") if rng.chance(2, 3) else e[0]
                why = "rename_decl"
            elif c == 3:
                rng.pick(m.consts)[1] = rng.pick([1, 2, 3, 4, 8, 16, 32])
                why = "change_value"
            elif c == 4:
                m.has_fn = not m.has_fn
                why = "toggle_fn"
            else:
                m.name = m.orig_name if m.name != m.orig_name else self.fresh("PkgR")
                why = "rename_decl"
            return self.rerender(rel, why)
        if m.kind == "if":
            c = rng.below(5)
            if c == 0 or not m.vars:
                m.vars.append([self.fresh("v"), rng.pick(["1", "4", "PkgA::W0", "PkgA::W1"])])
                why = "add_decl"
            elif c == 1:
                m.vars.pop(rng.below(len(m.vars)))
                why = "remove_decl"
            elif c == 2:
                rng.pick(m.vars)[0] = self.fresh("v")
                why = "rename_decl"
            elif c == 3:
                rng.pick(m.vars)[1] = rng.pick(self.all_const_names_ever() + ["3"])
                why = "change_ref"
            else:
                m.name = m.orig_name if m.name != m.orig_name else self.fresh("IfR")
                why = "rename_decl"
            return self.rerender(rel, why)
        # module
        c = rng.below(9)
        if c == 0:
            m.extra.append([self.fresh("x"), rng.pick(["1", "8", "PkgA::W0"])])
            why = "add_unused_var"
        elif c == 1 and m.extra:
            m.extra.pop(rng.below(len(m.extra)))
            why = "remove_unused_var"
        elif c == 2:
            m.cref = rng.pick(self.all_const_names_ever() + ["2"])
            why = "change_ref"
        elif c == 3:
            m.w = rng.pick(self.pkg_consts() + ["8", "PkgA::W0"])
            why = "change_ref"
        elif c == 4:
            others = [x for x in self.models.values() if x.kind == "mod" and x is not m]
            if m.child or not others:
                m.child = None
                why = "remove_inst"
            else:
                ch = rng.pick(others)
                m.child = [ch.name, ch.pin, ch.pout]
                why = "add_inst"
        elif c == 5:
            if rng.bool():
                m.pin = self.fresh("i_p")
            else:
                m.pout = self.fresh("o_p")
            why = "rename_decl"
        elif c == 6:
            m.name = self.fresh(m.name.rstrip("0123456789_R") + "_R")
            why = "rename_decl"
        elif c == 7:
            ifs = [x for x in self.models.values() if x.kind == "if"]
            if m.iface or not ifs:
                m.iface = None
            else:
                i = rng.pick(ifs)
                m.iface = [i.name, i.vars[0][0] if i.vars else "v0"]
            why = "toggle_iface"
        else:
            # resynchronise the references with what currently exists
            for x in self.models.values():
                if x.kind == "mod" and m.child and x.name.startswith(m.child[0][:4]) and x is not m:
                    m.child = [x.name, x.pin, x.pout]
            for x in self.models.values():
                if x.kind == "if" and m.iface and x.vars:
                    m.iface = [x.name, x.vars[0][0]]
            pc = self.pkg_consts()
            if pc:
                m.cref = rng.pick(pc)
            why = "fix_refs"
        return self.rerender(rel, why)

    def cosmetic(self, rel):
        m = self.models[rel]
        m.comment = self.fresh("note ")
        if self.broken.get(rel):
            return self.op_change(rel, self.open[rel] + "\n", "cosmetic")
        return self.rerender(rel, "cosmetic")

    # ---- cross-file scenario: probe Y, change a declaration in X that Y references, probe Y ----
    def xfile(self):
        users = [r for r, m in self.models.items() if m.kind in ("mod", "if") and r in self.existing()]
        pkgs = [r for r, m in self.models.items() if m.kind == "pkg" and r in self.existing()]
        if not users or not pkgs:
            return False
        y = self.rng.pick(users)
        x = self.rng.pick(pkgs)
        for r in (x, y):
            if r not in self.open:
                if r not in self.disk:
                    return False
                self.op_open(r)
            if self.broken.get(r):
                self.rerender(r, "repair_syntax")
        my, mx = self.models[y], self.models[x]
        if not mx.consts:
            mx.consts.append([self.fresh("K"), 4])
            self.rerender(x, "add_decl")
        target = self.rng.pick(mx.consts)
        ref = f"{mx.name}::{target[0]}"
        if my.kind == "mod":
            my.cref = ref
        else:
            if not my.vars:
                my.vars.append([self.fresh("v"), ref])
            my.vars[0][1] = ref
        self.rerender(y, "fix_refs")
        self.emit({"op": "wait"})
        self.emit({"op": "probe", "file": y})
        how = self.rng.below(3)
        if how == 0:
            mx.consts.remove(target)
            self.rerender(x, "remove_decl")
        elif how == 1:
            target[0] = self.fresh(target[0].rstrip("0123456789_r") + "_r")
            self.rerender(x, "rename_decl")
        else:
            h, text = break_syntax(self.rng, self.open[x])
            self.broken[x] = True
            self.op_change(x, text, "break_syntax:" + h)
            self.features.add("break_syntax")
        self.emit({"op": "wait"})
        self.emit({"op": "probe", "file": y})
        self.features.add("xfile_scenario")
        if self.rng.chance(1, 2):
            # and back again: the error in Y must disappear when Y is re-analysed
            if how == 0:
                mx.consts.append(target)
            elif how == 1:
                target[0] = ref.split("::")[1]
            self.rerender(x, "add_decl" if how == 0 else ("rename_decl" if how == 1 else "repair_syntax"))
            self.emit({"op": "probe", "file": y})
        return True

    # ---- file operations ----
    def new_name(self, rel):
        d = os.path.dirname(rel)
        base = os.path.basename(rel)[:-len(".veryl")].split("__")[0]
        return f"{d}/{base}__{self.fresh('n')}.veryl"

    def rename(self):
        rng = self.rng
        cands = self.existing()
        if not cands:
            return False
        old = rng.pick(cands)
        back = [p for p in self.old_names if p not in self.existing() and self.path_ok(p)
                and os.path.basename(p).split("__")[0].split(".")[0] == os.path.basename(old).split("__")[0].split(".")[0]]
        if back and rng.chance(1, 2):
            new = rng.pick(back)
            self.features.add("rename_back")
        else:
            new = self.new_name(old)
        mode = "synced"
        opener = None
        if self.hazard == "rename_during_bg" and rng.chance(2, 3):
            cl = [r for r in self.closed() if r != old]
            if cl:
                mode = "during_bg"
                opener = rng.pick(cl)
        return self.rename_file(old, new, mode, opener)

    def rename_file(self, old, new, mode, opener):
        if not self.pre_remove(old):
            return False
        if mode == "during_bg":
            self.features.add("rename_during_bg")
        if new in self.ever_open:
            self.features.add("reuse_opened_path")
        if opener:
            self.open[opener] = self.disk[opener]
            self.ever_open.add(opener)
            self.latest_target = opener
        op = {"op": "rename", "old": old, "new": new, "mode": mode}
        if opener:
            op["opener"] = {"file": opener, "text": self.disk[opener]}
        self.emit(op)
        if old in self.open:
            self.latest_target = new
            self.ever_open.add(new)
        self.old_names.append(old)
        self.models[new] = self.models.pop(old)
        if old in self.broken:
            self.broken[new] = self.broken.pop(old)
        if old in self.disk:
            self.disk[new] = self.disk.pop(old)
        if old in self.open:
            self.open[new] = self.open.pop(old)
            self.disk[new] = self.open[new]       # the client saves the buffer under the new name
        self.features.add("rename")
        return True

    def delete(self):
        cands = [r for r in self.existing()]
        if len(cands) <= 2:
            return False
        return self.delete_file(self.rng.pick(cands))

    def delete_file(self, rel):
        if not self.pre_remove(rel):
            return False
        self.emit({"op": "delete", "file": rel})
        self.old_names.append(rel)
        self.open.pop(rel, None)
        self.disk.pop(rel, None)
        self.models.pop(rel, None)
        self.broken.pop(rel, None)
        self.features.add("delete")
        return True

    def create(self):
        rng = self.rng
        kind = rng.below(3)
        if kind == 0:
            m = Pkg(self.fresh("PkgN"))
            m.consts.append([self.fresh("K"), 4])
            m.has_fn = False
            rel = f"src/pkg_{self.fresh('c')}.veryl"
        else:
            m = Mod(self.fresh("ModN"))
            m.cref = rng.pick(self.all_const_names_ever())
            rel = f"src/mod_{self.fresh('c')}.veryl"
        back = [p for p in self.old_names if p not in self.existing() and self.path_ok(p)]
        if back and rng.chance(1, 3):
            rel = rng.pick(back)               # a new file appears under a path that existed before
            self.features.add("recreate_old_path")
            if rel in self.ever_open:
                self.features.add("reuse_opened_path")
        self.models[rel] = m
        text = m.render()
        self.open[rel] = text
        self.disk[rel] = text
        self.emit({"op": "create", "file": rel, "text": text})
        self.features.add("create")
        return True

    # ---- main loop ----
    def run(self):
        rng = self.rng
        first = rng.pick(sorted(self.disk))
        self.op_open(first)
        if self.hazard == "racy_open":
            for rel in self.closed()[: rng.range(1, 3)]:
                self.op_open(rel)
        budget = self.nmsgs
        guard = 0
        while len(self.ops) < budget and guard < budget * 20:
            guard += 1
            r = rng.below(100)
            opened = sorted(self.open)
            if r < 38 and opened:
                self.edit(rng.pick(opened))
            elif r < 44 and opened:
                self.cosmetic(rng.pick(opened))
            elif r < 56:
                cl = self.closed()
                if cl and len(self.open) < 4:
                    self.op_open(rng.pick(cl))
            elif r < 62 and opened:
                rel = rng.pick(opened)
                self.disk[rel] = self.open[rel]
                self.emit({"op": "save", "file": rel})
            elif r < 70 and len(opened) > 1:
                self.op_close(rng.pick(opened))
            elif r < 78:
                self.rename()
            elif r < 81:
                self.delete()
            elif r < 85:
                self.create()
            elif r < 93:
                self.xfile()
            elif r < 97:
                self.emit({"op": "wait"})
            elif opened:
                self.emit({"op": "probe", "file": rng.pick(opened)})
        # leave the project in a state where at least two files are open
        for rel in self.closed():
            if len(self.open) >= 2:
                break
            self.op_open(rel)
        if self.hazard in ("stale_replay", "rename_during_bg"):
            self.hazard_finale()
        if self.cfg.get("recreate"):
            self.recreate_info = self.recreate_finale()
        return self.ops

    def recreate_finale(self):
        """Judged (hazard-free) scenario: a file X that is OPEN and that an open file Y references is
        renamed away or deleted, later a file re-appears on disk under X's path (with or without being
        re-opened, same or changed content); after the next background pass Y is re-analysed and
        compared with a fresh server."""
        xy = self.provider_user()
        if not xy:
            return None
        x, y = xy
        rng = self.rng
        if x not in self.open:
            self.op_open(x)
        variant = self.cfg.get("recreate_variant") or rng.pick(RECREATE_VARIANTS)
        changed = None
        if variant.startswith("rename_back"):
            tmp = self.new_name(x)
            if not self.rename_file(x, tmp, "synced", None):
                return None
            if variant == "rename_back_closed":
                self.op_close(tmp)
            if not self.rename_file(tmp, x, "synced", None):
                return None
        else:
            m = copy.deepcopy(self.models[x])
            if not self.delete_file(x):
                return None
            r = rng.below(3)
            if r == 0 and m.consts:
                m.consts.pop(0)                       # the declaration Y refers to is gone
                changed = "removed_decl"
            elif r == 1 and m.consts:
                m.consts[0][0] = self.fresh(m.consts[0][0].rstrip("0123456789_r") + "_r")
                changed = "renamed_decl"
            self.models[x] = m
            text = m.render()
            if variant == "delete_recreate_open":
                self.open[x] = text
                self.disk[x] = text
                self.emit({"op": "create", "file": x, "text": text})
            else:
                self.disk[x] = text
                self.emit({"op": "disk_create", "file": x, "text": text})
                # something has to make the server look at the disk again (a background pass)
                cl = [r2 for r2 in self.closed() if r2 != x]
                if cl:
                    self.op_open(rng.pick(cl))
                else:
                    z = [r2 for r2 in sorted(self.open) if r2 != x]
                    if not z:
                        return None
                    zz = rng.pick(z)
                    newz = self.new_name(zz)
                    if not self.rename_file(zz, newz, "synced", None):
                        return None
                    if zz == y:
                        y = newz
        if y not in self.open:
            return None
        self.emit({"op": "wait"})
        self.emit({"op": "probe", "file": y})
        self.features.add("path_recreated:" + variant)
        return {"path": x, "user": y, "variant": variant, "changed": changed,
                "reopened": x in self.open}

    def provider_user(self):
        """(X, Y): X = package file, Y = open, syntactically intact file whose text refers to X's package."""
        pkgs = [r for r in self.existing() if self.models[r].kind == "pkg"]
        users = [r for r in self.existing() if self.models[r].kind in ("mod", "if")]
        if not pkgs or not users:
            return None
        x, y = self.rng.pick(pkgs), self.rng.pick(users)
        mx, my = self.models[x], self.models[y]
        if x not in self.open and self.broken.get(x):
            return None
        if x in self.open and self.broken.get(x):
            self.rerender(x, "repair_syntax")
        if not mx.consts:
            if x not in self.open:
                self.op_open(x)
            mx.consts.append([self.fresh("K"), 4])
            self.rerender(x, "add_decl")
        ref = f"{mx.name}::{mx.consts[0][0]}"
        if y not in self.open:
            self.op_open(y)
        if my.kind == "mod":
            my.cref = ref
        else:
            if not my.vars:
                my.vars.append([self.fresh("v"), ref])
            my.vars[0][1] = ref
        self.rerender(y, "fix_refs")
        return x, y

    def hazard_finale(self):
        """Ends the history with the interaction this history's hazard class is about, arranged so that
        its effect (if any) is visible in an open file at the comparison point."""
        xy = self.provider_user()
        if not xy:
            return
        x, y = xy
        rng = self.rng
        if self.hazard == "stale_replay":
            z = [r for r in self.existing() if r not in (x, y)]
            if not z:
                self.create()
                z = [r for r in self.existing() if r not in (x, y)]
                if not z:
                    return
            if x not in self.open:
                self.op_open(x)
            self.cosmetic(x)                       # X is now the target of the latest change
            if rng.bool():
                self.delete_file(x)
            else:
                self.rename_file(x, self.new_name(x), "synced", None)
            zz = rng.pick(z)
            self.rename_file(zz, self.new_name(zz), "synced", None)   # any background pass
            self.features.add("finale_stale_replay")
        elif self.hazard == "rename_during_bg":
            if x in self.open:
                self.op_close(x)
            w = [r for r in self.closed() if r != x]
            if not w:
                cand = [r for r in sorted(self.open) if r not in (x, y)]
                if cand:
                    self.op_close(cand[0])
                else:
                    self.create()
                    cand = [r for r in sorted(self.open) if r not in (x, y)]
                    if not cand:
                        return
                    self.op_close(cand[0])
                w = [r for r in self.closed() if r != x]
            self.rename_file(x, self.new_name(x), "during_bg", rng.pick(w))
            self.features.add("finale_rename_during_bg")
        elif self.hazard == "path_reuse":
            if x not in self.open:
                self.op_open(x)
            self.op_close(x)
            tmp = self.new_name(x)
            self.rename_file(x, tmp, "synced", None)
            self.rename_file(tmp, x, "synced", None)
            self.features.add("finale_path_reuse")


# without re-opening the path (the first two) the server has to pick the file up from disk again
RECREATE_VARIANTS = ["rename_back_closed", "delete_recreate_disk", "rename_back_open", "delete_recreate_open"]


def gen_case(seed, index, nmsgs):
    rng = Rng.for_case(seed, PROP, index)
    cfg, models = gen_project(rng)
    if index % 2 == 0:
        # guaranteed share: every second history is hazard-free and ends with the path re-creation
        # scenario, alternating incremental on / off
        cfg["hazard"] = "none"
        cfg["recreate"] = True
        k = index // 2
        cfg["recreate_variant"] = RECREATE_VARIANTS[k % len(RECREATE_VARIANTS)]
        cfg["incremental"] = (k + k // 4 + seed) % 2 == 0
    files = {r: m.render() for r, m in models.items()}
    g = Gen(rng, cfg, models, nmsgs)
    ops = g.run()
    return {"index": index, "cfg": cfg, "files": files, "ops": ops, "features": sorted(g.features),
            "recreate": g.recreate_info}


# ======================================================================================
# execution against the real server
# ======================================================================================


class Unexpected(Exception):
    pass


class Client:
    """Client-side document state + one server."""

    def __init__(self, root, srv, racy=True):
        self.root = root
        self.srv = srv
        self.racy = racy
        self.ever_open = set()
        self.open = {}          # rel -> text
        self.version = 0
        self.expected = 0       # background tasks the server must have created so far
        self.idle_obs = {}      # (rel, text hash) -> set of diag multisets seen while the server was idle
        self.nonempty = 0
        self.skipped_ops = 0
        self.deferred_rescans = 0
        self.floating = 0          # renames sent during a pending pass whose re-scan task has not shown up (yet)
        self.late_rescans = 0

    def p(self, rel):
        return os.path.join(self.root, rel)

    def on_disk(self, rel):
        return os.path.exists(self.p(rel))

    def write(self, rel, text):
        os.makedirs(os.path.dirname(self.p(rel)), exist_ok=True)
        with open(self.p(rel), "w") as f:
            f.write(text)

    def idle(self):
        s = self.srv
        return len(s.ended) == self.expected and s.held_create is None and len(s.creates) == self.expected

    def check_tasks(self):
        extra = len(self.srv.creates) - self.expected
        if extra > 0 and self.floating >= extra:
            # the re-scan of a rename sent during a pending pass shows up late (see rename())
            self.expected += extra
            self.floating -= extra
            self.late_rescans += extra
        elif extra > 0:
            raise Unexpected(f"server created background task #{len(self.srv.creates)} but the client model expects {self.expected}")

    def flush_floating(self, rounds=40):
        """Server-thread round trips (+ outbound traffic) until no announced-late task is outstanding."""
        for _ in range(rounds):
            if not self.floating:
                break
            self.srv.barrier()
            self.srv.will_rename([])
            self.check_tasks()

    def ack(self, rel, uri, version, idle):
        diags = self.srv.wait_publish(uri, version)
        self.check_tasks()
        if diags:
            self.nonempty += 1
        if idle:
            key = (rel, hash_str(self.open.get(rel, "")))
            self.idle_obs.setdefault(key, set()).add(json.dumps(diag_multiset(diags)))
        return diags

    def do_open(self, rel, text):
        # Only histories of the racy_open class let the server process an analysis-triggering message
        # while a background pass is half way (the analyzer state is inconsistent then: notes/C07.md A).
        if not self.racy:
            self.wait()
        self.ever_open.add(rel)
        self.open[rel] = text
        self.version += 1
        idle = False   # a didOpen always starts a background pass: unresolved-reference errors are filtered
        uri = self.srv.did_open(self.p(rel), text, self.version)
        self.expected += 1
        return self.ack(rel, uri, self.version, idle)

    def do_change(self, rel, text):
        if not self.racy:
            self.wait()
        idle = self.idle()
        self.open[rel] = text
        self.version += 1
        uri = self.srv.did_change(self.p(rel), text, self.version)
        return self.ack(rel, uri, self.version, idle)

    def wait(self):
        while True:
            self.srv.wait_tasks(self.expected)
            before = self.expected
            self.check_tasks()
            if self.expected == before:
                break

    def cross_file_effects(self):
        return sum(1 for v in self.idle_obs.values() if len(v) > 1)

    # ---- one op of a history ----
    def apply(self, op):
        s = self.srv
        k = op["op"]
        if k == "open":
            if op["file"] in self.open or not self.on_disk(op["file"]):
                self.skipped_ops += 1
                return
            self.do_open(op["file"], op["text"])
        elif k == "create":
            if op["file"] in self.open:
                self.skipped_ops += 1
                return
            self.write(op["file"], op["text"])
            self.do_open(op["file"], op["text"])
        elif k == "disk_create":
            # a file appears on disk without any notification (delete undone, checkout, ...)
            if op["file"] in self.open or self.on_disk(op["file"]):
                self.skipped_ops += 1
                return
            self.write(op["file"], op["text"])
        elif k == "change":
            if op["file"] not in self.open:
                self.skipped_ops += 1
                return
            self.do_change(op["file"], op["text"])
        elif k == "probe":
            if op["file"] not in self.open:
                self.skipped_ops += 1
                return
            self.do_change(op["file"], self.open[op["file"]])
        elif k == "save":
            if op["file"] not in self.open:
                self.skipped_ops += 1
                return
            self.write(op["file"], self.open[op["file"]])
            s.did_save(self.p(op["file"]))
        elif k == "close":
            if op["file"] not in self.open:
                self.skipped_ops += 1
                return
            # the client always writes the buffer to disk before closing (DESIGN C07)
            self.write(op["file"], self.open[op["file"]])
            del self.open[op["file"]]
            s.did_close(self.p(op["file"]))
        elif k == "wait":
            self.wait()
        elif k == "delete":
            rel = op["file"]
            if not self.on_disk(rel) and rel not in self.open:
                self.skipped_ops += 1
                return
            if not self.racy:
                self.wait()
            s.will_delete([self.p(rel)])
            if self.on_disk(rel):
                os.remove(self.p(rel))
            if rel in self.open:
                del self.open[rel]
                s.did_close(self.p(rel))
        elif k == "rename":
            self.rename(op)
        else:
            raise ValueError(k)
        self.check_tasks()

    def rename(self, op):
        s = self.srv
        old, new = op["old"], op["new"]
        if (not self.on_disk(old) and old not in self.open) or self.on_disk(new) or new in self.open:
            self.skipped_ops += 1
            return
        pair = [(self.p(old), self.p(new))]
        held = False
        opener = op.get("opener")
        if op.get("mode") == "during_bg" and opener and opener["file"] not in self.open \
                and self.on_disk(opener["file"]) and opener["file"] != old:
            # Make the server process the rename while a background task is certainly unfinished:
            # the server thread blocks in progress_start() until the client answers
            # window/workDoneProgress/create, so withhold that answer until the rename is queued.
            if not self.racy:
                self.wait()
            s.hold_next_create = True
            self.do_open(opener["file"], opener["text"])
            s.pump(lambda: s.held_create is not None, what="a workDoneProgress/create to hold")
            held = True
        else:
            self.wait()             # synced: background_done is true when the server sees didRename
        s.will_rename(pair)
        os.makedirs(os.path.dirname(self.p(new)), exist_ok=True)
        if self.on_disk(old):
            os.rename(self.p(old), self.p(new))
        nlog = sum(1 for m in s.logs if m == "did_rename_files")
        s.did_rename(pair)
        if held:
            # the rename reaches the server thread's queue before the task is released
            s.wait_log("did_rename_files", nlog + 1)
            # The handler logs before it forwards the notification and may be parked in tower-lsp's
            # client channel until later outbound messages are consumed (one parked sender is released
            # per message; at most ~6 can be ahead of it): make ten more log messages flow.
            for _ in range(10):
                s.will_rename([])
            s.release_create()
            # server.rs did_rename_files(): "Do not dispatch if there's already a pending analysis".
            # Older trees drop the request; since fix f072381 it is remembered and one re-scan task is
            # created when the queue drains.  Accept both: wait for the tasks that are certain, then three
            # server-thread round trips -- a deferred task has announced itself (create request) by then.
            # (Seen in ~3 % of such renames: the Backend forwards the didRenameFiles to the server thread
            # many round trips late, so its task -- immediate by then -- appears late.  Such a task is
            # "floating": it is absorbed by check_tasks() whenever it shows up.)
            s.wait_tasks(self.expected)
            for _ in range(40):
                s.barrier()
                s.will_rename([])
                if len(s.creates) > self.expected:
                    break
            if len(s.creates) == self.expected + 1:
                self.expected += 1
                self.deferred_rescans += 1
            elif len(s.creates) == self.expected:
                self.floating += 1
        else:
            self.expected += 1
            s.wait_create(self.expected)
        self.check_tasks()
        if old in self.open:
            text = self.open.pop(old)
            self.write(new, text)
            s.did_close(self.p(old))
            self.do_open(new, text)

    # ---- the comparison point ----
    def final_round(self):
        for _ in range(4):
            self.flush_floating()
            self.wait()
            before = self.expected
            out = {}
            for rel in sorted(self.open):
                self.version += 1
                uri = self.srv.did_change(self.p(rel), self.open[rel], self.version)
                d = self.srv.wait_publish(uri, self.version)
                out[rel] = {"set": diag_multiset(d), "version": self.version}
            self.check_tasks()
            if self.expected == before:
                return out          # no late task was announced while the round ran
        raise Unexpected("late re-scan tasks kept appearing during the final round")


def fresh_run(root, home, workdir, name, buffers, timeout):
    """Freshly started server: open the final buffers in canonical order, wait, no-op change."""
    srv = LspServer(root, home, workdir, name=name, timeout=timeout)
    try:
        srv.initialize()
        c = Client(root, srv)
        for rel in sorted(buffers):
            c.do_open(rel, buffers[rel])
            c.wait()          # one at a time: a fresh reference must not depend on open/background races
        res = c.final_round()
        return res, srv.sent, list(srv.transcript), c
    finally:
        srv.close()


def strip(res):
    return {k: v["set"] for k, v in res.items()}


def diff_sets(a, b):
    """per file: (only in a, only in b) as lists"""
    out = {}
    for f in sorted(set(a) | set(b)):
        la = [tuple(x) for x in a.get(f, [])]
        lb = [tuple(x) for x in b.get(f, [])]
        only_a = list(la)
        only_b = []
        for x in lb:
            if x in only_a:
                only_a.remove(x)
            else:
                only_b.append(x)
        if only_a or only_b:
            out[f] = {"only_first": only_a, "only_second": only_b}
    return out


def split_ghost_names(d):
    """Removes from the diff `d` (in place) the pairs that differ only in the *name* quoted by an
    undefined_identifier message at the same range; returns (number of pairs, example)."""
    n, example = 0, None
    for f in list(d):
        a, b = d[f]["only_first"], d[f]["only_second"]
        for x in list(a):
            if x[5] != '"undefined_identifier"':
                continue
            for y in b:
                if y[:6] == x[:6] and y[6] != x[6]:
                    a.remove(x)
                    b.remove(y)
                    n += 1
                    example = example or f"{f}: history says {x[6]!r}, fresh says {y[6]!r}"
                    break
        if not a and not b:
            del d[f]
    return n, example


def run_case(case, scratch, timeout):
    """Executes one history.  Returns a result dict; never raises for server-side trouble."""
    idx = case["index"]
    base = os.path.join(scratch, f"case{idx}")
    shutil.rmtree(base, ignore_errors=True)
    root = os.path.join(base, case["cfg"]["name"])
    home = os.path.join(base, "home")
    os.makedirs(os.path.join(root, "src"), exist_ok=True)
    os.makedirs(home, exist_ok=True)
    with open(os.path.join(root, "Veryl.toml"), "w") as f:
        f.write(toml_text(case["cfg"]))
    for rel, text in case["files"].items():
        os.makedirs(os.path.dirname(os.path.join(root, rel)), exist_ok=True)
        with open(os.path.join(root, rel), "w") as f:
            f.write(text)
    res = {"index": idx, "status": "ok", "messages": 0, "features": case.get("features", [])}
    h = LspServer(root, home, base, name="history", timeout=timeout)
    c = Client(root, h, racy=case["cfg"].get("hazard") == "racy_open")
    at_op = -1
    try:
        try:
            h.initialize()
            res["sync_kind"] = h.sync_kind()
            for at_op, op in enumerate(case["ops"]):
                c.apply(op)
            hres = c.final_round()
        except LspPanicked as e:
            # Is the crash history dependent?  A fresh server gets exactly the buffers of this moment.
            buffers = dict(c.open)
            try:
                fresh_run(root, home, base, "control", buffers, timeout)
                site = panic_site(str(e))
                # racy_open histories: one class signature (a message was processed while a background
                # pass was half way; the panic site varies); elsewhere the site identifies the defect
                sig = "C07:history-dependent-panic:hz=racy_open" if c.racy else f"C07:history-dependent-panic:{site}"
                res.update(status="violation", at_op=at_op, transcript=h.transcript[-200:],
                           server_stderr=h.stderr_text()[-4000:], violations=[{
                    "kind": "history-dependent-panic", "sig": sig,
                    "what": f"veryl-ls panicked at {site} during the history (op #{at_op}: "
                            f"{ {k: v for k, v in case['ops'][at_op].items() if k not in ('text', 'opener')} if 0 <= at_op < len(case['ops']) else 'final round'}) "
                            f"and publishes nothing any more; a fresh server handles the same buffers"}])
            except LspPanicked:
                res.update(status="skipped", reason="server panics on these buffers also when fresh "
                                                    "(not history dependent; see C11): " + panic_site(str(e)))
            except LspError as e2:
                res.update(status="inconclusive", reason=f"control run after a panic failed: {e2}")
            return res
        res["history_tasks"] = c.expected
        res["nonempty_publishes"] = c.nonempty
        res["cross_file_effects"] = c.cross_file_effects()
        res["skipped_ops"] = c.skipped_ops
        res["deferred_rescans"] = c.deferred_rescans
        res["late_rescans"] = c.late_rescans
        res["floating_left"] = c.floating
        res["open_files"] = len(c.open)
        rc = case.get("recreate")
        if rc:
            # the path must really be back on disk and the referencing file must be among the compared ones
            res["path_recreated"] = 1 if c.on_disk(rc["path"]) else 0
            res["recreate_user_compared"] = 1 if rc["user"] in hres and res["path_recreated"] else 0
            res["recreate_variant"] = rc["variant"] + (":" + rc["changed"] if rc.get("changed") else "") + \
                (":inc" if case["cfg"]["incremental"] else ":noinc")
        buffers = dict(c.open)
        # cold reference: H is still alive and holds the cache-ls lock, so this server cannot restore
        cres, csent, ctrans, _ = fresh_run(root, home, base, "fresh_cold", buffers, timeout)
        res["messages"] += csent
        H, C = strip(hres), strip(cres)
        comparisons = [("history-vs-fresh", H, C)]
        recheck = None
        if H != C:
            # make sure no unknown background work was pending while H answered (harness race guard)
            for _ in range(3):
                h.barrier()
            c.check_tasks()
            dup = [f for f, v in hres.items() if len(h.publishes_for(path_to_uri(c.p(f)), v["version"])) != 1]
            if dup or not c.idle():
                raise Unexpected(f"history server was not idle during the final round ({dup})")
            recheck = strip(c.final_round())
        h.close()
        W = None
        if case["cfg"]["incremental"]:
            wres, wsent, _, _ = fresh_run(root, home, base, "fresh_warm", buffers, timeout)
            res["messages"] += wsent
            W = strip(wres)
            comparisons.append(("fresh-warm-vs-cold", W, C))
            res["warm_restored"] = True
        res["diagnostics_compared"] = sum(len(v) for v in C.values()) + sum(len(v) for v in H.values()) + \
            (sum(len(v) for v in W.values()) if W is not None else 0)
        res["files_compared"] = len(C) * (2 if W is None else 3)
        res["final_nonempty"] = any(C.values())
        hz = case["cfg"].get("hazard", "none")
        viols = []
        for kind, a, b in comparisons:
            if a == b:
                continue
            d = diff_sets(a, b)
            ghosts = 0
            if kind == "history-vs-fresh":
                ghosts, ghost_example = split_ghost_names(d)
                if ghosts:
                    viols.append({
                        "kind": kind, "sig": "C07:history-vs-fresh:undefined-identifier-name-after-drop",
                        "what": "history-vs-fresh: same undefined_identifier ranges but a different name in the "
                                f"message (stale empty name_table entry after drop_file), e.g. {ghost_example}",
                        "ghost_pairs": ghosts})
            if d:
                codes = sorted({("-" if side == "only_first" else "+") + str(json.loads(x[5] or "null"))
                                for v in d.values() for side in v for x in v[side]})
                kinds = sorted({case_kind(case, f) for f in d})
                first = next(iter(d.items()))
                detail = f"hz={hz}" if hz != "none" and kind == "history-vs-fresh" else \
                    "hz=none:" + ",".join(codes) + "@" + ",".join(kinds)
                viols.append({
                    "kind": kind, "sig": f"C07:{kind}:{detail}", "diff": d,
                    "what": f"{kind} (hazard class {hz}): diagnostics for {first[0]} differ: only first="
                            f"{first[1]['only_first'][:2]} only second={first[1]['only_second'][:2]}"})
        if viols:
            res.update(status="violation", violations=viols, recheck_second_round=recheck,
                       history_final=H, fresh_cold=C, fresh_warm=W,
                       transcript=h.transcript[-400:], fresh_transcript=ctrans[-100:])
        return res
    except LspTimeout as e:
        res.update(status="inconclusive", reason=f"timeout: {e}")
        return res
    except Unexpected as e:
        tail = [f"{t.get('dir')} {t.get('method', 'resp')} {t.get('uri', '')} {t.get('version', '')} "
                f"{t.get('token', '')} {t.get('kind', '')} {t.get('files', '')}".strip()
                for t in h.transcript if t.get("kind") != "report"][-45:]
        res.update(status="inconclusive", reason=f"client/server task model diverged: {e} (at op #{at_op}; "
                                                  f"hazard {case['cfg'].get('hazard')}); transcript tail: {tail}")
        return res
    except LspError as e:
        res.update(status="inconclusive", reason=f"{type(e).__name__}: {str(e)[-300:]}")
        return res
    finally:
        res["messages"] += h.sent
        h.close()
        if res["status"] == "ok" and not os.environ.get("VERIF_KEEP_SCRATCH"):
            shutil.rmtree(base, ignore_errors=True)


def case_kind(case, rel):
    b = os.path.basename(rel)
    return b.split("_")[0]


def panic_site(text):
    i = text.find("panicked at ")
    if i < 0:
        return "unknown"
    site = text[i + len("panicked at "):i + 160].split("\n")[0].strip().rstrip(":")
    parts = site.split(":")
    return ":".join(parts[:2]) if len(parts) >= 2 else site


# ======================================================================================
# minimisation (greedy op removal) -- only on request: --set minimize=1
# ======================================================================================

def minimize(case, scratch, timeout, kind):
    ops = list(case["ops"])
    i = len(ops) - 1
    runs = 0
    while i >= 0 and runs < 200:
        trial = copy.deepcopy(case)
        trial["ops"] = ops[:i] + ops[i + 1:]
        trial["index"] = f"{case['index']}m"
        r = run_case(trial, scratch, timeout)
        runs += 1
        if r["status"] == "violation" and any(v["sig"] == kind for v in r["violations"]):
            ops = trial["ops"]
        i -= 1
    out = copy.deepcopy(case)
    out["ops"] = ops
    return out


# ======================================================================================

def main():
    args = Args()
    args.prop = args.prop or PROP
    run = Run(args, "exploration",
              "one case = one generated project (package + interface + 1-3 modules, incremental on/off, std "
              "in/excluded) and one random LSP notification history over it; non-trivial = the history was "
              "executed to the end, >=2 files were compared against a fresh server and at least one "
              "publishDiagnostics during the history was non-empty; distinct by hash of (project, ops)")
    run.assume("lsp_client.py frames/parses JSON-RPC correctly; 'background complete' = one $/progress end per "
               "task the server must have created (didOpen: always one; didRename: one, deferred or -- older trees -- "
               "dropped when an analysis is pending; both are accepted and detected by 3 server-thread round trips)")
    run.assume("closed files: the client writes the buffer to disk before didClose, so disk == last buffer; "
               "files are only created/changed on disk through notifications the server supports")
    nhist = args.budget("histories", 10, 250)
    nmsgs = args.budget("messages", 25, 80)
    jobs = int(args.extra.get("jobs", 4 if not args.thorough() else 6))
    timeout = float(args.extra.get("timeout", 180))
    scratch = run.scratch()

    if args.replay:
        rep = json.load(open(args.replay))
        cases = [rep["case"]["case"]]
    else:
        cases = [gen_case(args.seed, i, nmsgs) for i in range(nhist)]

    for case in cases[:3]:
        # samples are written out at generation time so that even an inconclusive run shows its cases
        run.sample({"cfg": case["cfg"], "files": sorted(case["files"]), "features": case.get("features"),
                    "first_file": next(iter(case["files"].values()))[:400],
                    "ops": [{k: (v if k != "text" else f"<{len(v)} chars>") for k, v in o.items()
                             if k != "opener"} for o in case["ops"][:40]]}, cap=3)
    lock = threading.Lock()

    def work(case):
        try:
            return case, run_case(case, scratch, timeout)
        except Exception as e:  # noqa: BLE001 -- harness bug: inconclusive, never a verdict
            return case, {"index": case["index"], "status": "inconclusive", "messages": 0,
                          "reason": "harness error: " + "".join(traceback.format_exception_only(type(e), e)).strip()
                                    + " | " + traceback.format_exc()[-600:]}

    with ThreadPoolExecutor(max_workers=jobs) as ex:
        results = list(ex.map(work, cases))

    for case, r in results:
        with lock:
            run.eval()
            run.count("messages_sent", r.get("messages", 0))
            st = r["status"]
            if st == "inconclusive":
                run.count("histories_inconclusive")
                run.inconclusive(f"history {case['index']}: {r['reason']}")
                continue
            if st == "skipped":
                run.count("histories_skipped")
                run.note(f"history {case['index']}: {r['reason']}")
                continue
            if "history_tasks" not in r:       # the history server died before the comparison point
                run.count("histories_ended_by_server_panic")
                for v in r["violations"]:
                    run.violation(v["sig"], v["what"], {"case": case, "violation": v,
                                                        "result": {k: x for k, x in r.items() if k != "violations"}})
                continue
            run.count("histories_compared")
            run.count("diagnostics_compared", r.get("diagnostics_compared", 0))
            run.count("files_compared", r.get("files_compared", 0))
            run.count("ops_skipped_as_inapplicable", r.get("skipped_ops", 0))
            run.count("background_tasks_observed", r.get("history_tasks", 0))
            run.count("renames_during_background_rescanned_later", r.get("deferred_rescans", 0))
            run.count("renames_during_background_forwarded_late", r.get("late_rescans", 0))
            run.count("renames_during_background_without_task", r.get("floating_left", 0))
            if r.get("nonempty_publishes"):
                run.count("histories_with_nonempty_diagnostics")
            if r.get("final_nonempty"):
                run.count("histories_with_nonempty_final_diagnostics")
            if r.get("cross_file_effects"):
                run.count("histories_with_cross_file_effect")
                run.count("cross_file_effects", r["cross_file_effects"])
            if r.get("warm_restored"):
                run.count("histories_incremental_on")
            else:
                run.count("histories_incremental_off")
            run.seen("hazard_classes", case["cfg"].get("hazard", "none"))
            if r.get("path_recreated"):
                run.count("path_recreated_histories")
                run.count("referencing_file_compared_after_recreate", r.get("recreate_user_compared", 0))
                run.seen("path_recreate_variants", r.get("recreate_variant"))
            for f in r.get("features", []):
                run.seen("history_features", f.split(":")[0])
                if f.startswith("break_syntax:"):
                    run.seen("syntax_breaks", f.split(":")[1])
            if r.get("sync_kind") is not None:
                run.seen("server_text_sync_kind", r["sync_kind"])
            if r.get("nonempty_publishes") and r.get("open_files", 0) >= 2:
                run.nontrivial(hash_str(json.dumps([case["files"], case["ops"]], sort_keys=True)))
            if st == "violation":
                for v in r["violations"]:
                    replay_case = {"case": case, "violation": v,
                                   "result": {k: x for k, x in r.items() if k not in ("status", "violations")}}
                    if args.extra.get("minimize") == "1":
                        try:
                            small = minimize(case, scratch, timeout, v["sig"])
                            replay_case["minimized_ops"] = small["ops"]
                        except Exception as e:  # noqa: BLE001
                            replay_case["minimize_error"] = repr(e)
                    run.violation(v["sig"], v["what"], replay_case)

    floors = [("histories_compared", max(1, nhist * 6 // 10)),
              ("messages_sent", nhist * nmsgs // 2),
              ("histories_with_nonempty_diagnostics", max(1, nhist // 3)),
              ("histories_with_cross_file_effect", max(1, nhist // 5)),
              ("distinct_nontrivial", max(1, nhist // 3)),
              ("path_recreated_histories", max(1, nhist // 6)),
              ("referencing_file_compared_after_recreate", max(1, nhist // 6))]
    if nhist >= 6 and not args.replay:
        floors += [("histories_incremental_on", 1), ("histories_incremental_off", 1)]
    if args.replay:
        floors = [("evaluations", 1)]
    run.finish(floors)


if __name__ == "__main__":
    main()
